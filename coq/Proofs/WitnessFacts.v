(* C02: the indices reported by the linear (non-DP) algorithms are valid witnesses, and
   substring / prefix / postfix / exact report contiguous, correctly anchored indices. *)
From Coq Require Import ZArith NArith List Bool Lia ZifyBool ZifyN ZifyNat.
From NV Require Import Base.Util Model.Chars Model.Matcher Spec.Matching Spec.Statements Proofs.CharsFacts.
Import ListNotations.
Local Open Scope N_scope.

(* ---- list utilities ------------------------------------------------------------------------------ *)
Lemma frev_rev {A} (l : list A) : frev l = rev l.
Proof. unfold frev. symmetry. apply rev_alt. Qed.

Lemma skipn_cons_inv {A} (l : list A) : forall n x r, skipn n l = x :: r ->
  (n < length l)%nat /\ (forall d, nth n l d = x) /\ skipn (S n) l = r.
Proof.
  induction l as [|y l IH]; intros [|n] x r H; cbn [skipn] in H; try discriminate.
  - injection H as -> ->. cbn [length nth skipn]. split; [lia|split; reflexivity].
  - destruct (IH _ _ _ H) as (H1 & H2 & H3). cbn [length nth]. split; [lia|split; [exact H2|exact H3]].
Qed.

Lemma skipn_split {A} (l : list A) n : (n < length l)%nat -> exists x r, skipn n l = x :: r.
Proof.
  intros H. destruct (skipn n l) as [|x r] eqn:E.
  - pose proof (skipn_length n l) as L. rewrite E in L. cbn in L. lia.
  - eauto.
Qed.

Fixpoint rangeN (st : N) (k : nat) : list N :=
  match k with O => [] | S k' => st :: rangeN (st + 1) k' end.

Lemma contiguous_rangeN k : forall st, contiguous_from (rangeN st k) st = true.
Proof. induction k as [|k IH]; intros st; cbn [rangeN contiguous_from]; [reflexivity|]. rewrite N.eqb_refl, IH. reflexivity. Qed.

Lemma length_rangeN k : forall st, length (rangeN st k) = k.
Proof. induction k as [|k IH]; intros st; cbn [rangeN length]; [reflexivity|]. now rewrite IH. Qed.

(* ---- calculate_score over a window in which every character matches ------------------------------- *)
Lemma cs_loop_all cfg hr : forall hs i nrest nc prev ig ir fb score acc,
  (hs = [] \/ map (norm cfg hr) hs = nc :: nrest) ->
  snd (cs_loop cfg hr hs i nrest nc prev ig ir fb score acc) = rev acc ++ rangeN i (length hs).
Proof.
  induction hs as [|c0 hs IH]; intros i nrest nc prev ig ir fb score acc H.
  - cbn [cs_loop snd length rangeN]. rewrite frev_rev, app_nil_r. reflexivity.
  - destruct H as [H|H]; [discriminate|]. cbn [map] in H. injection H as H1 H2.
    cbn [cs_loop]. pose proof (class_norm_fst cfg hr c0) as F.
    destruct (class_norm cfg hr c0) as [c k]. cbn [fst] in F. subst c. rewrite H1, N.eqb_refl.
    destruct (if ir then _ else _) as [fb' b'].
    destruct nrest as [|x r].
    + destruct hs; [|discriminate]. cbn [cs_loop snd length rangeN]. rewrite frev_rev. cbn [rev]. reflexivity.
    + rewrite IH by (right; exact H2). cbn [rev length rangeN]. rewrite <- app_assoc. reflexivity.
Qed.

Lemma calc_all cfg hr h n p s idx :
  n <> [] -> (N.to_nat p + length n <= length h)%nat ->
  map (norm cfg hr) (firstn (length n) (skipn (N.to_nat p) h)) = n ->
  calculate_score cfg hr h n p (p + lenN n) = Match s idx ->
  idx = rangeN p (length n).
Proof.
  intros Hne Hlen Hmap. destruct n as [|n0 nrest]; [congruence|]. clear Hne.
  cbn [length] in Hlen, Hmap.
  destruct (skipn_split h (N.to_nat p) ltac:(lia)) as (c0 & rest & Esk).
  destruct (skipn_cons_inv _ _ _ _ Esk) as (_ & _ & Esk').
  rewrite Esk in Hmap. cbn [firstn map] in Hmap. injection Hmap as Hn0 Hrest.
  unfold calculate_score.
  destruct (lenN h <=? p) eqn:E; [unfold lenN in E; lia|].
  destruct (match nrest with [] => (n0, []) | x :: r => (x, r) end) as [nc nrest'] eqn:En.
  destruct (cs_loop _ _ _ _ _ _ _ _ _ _ _ _) as [score idx0] eqn:Ec.
  intros H. injection H as _ <-.
  assert (Hs : sliceN (p + 1) (p + lenN (n0 :: nrest)) h = firstn (length nrest) rest).
  { unfold sliceN, takeN, dropN.
    replace (N.to_nat (p + lenN (n0 :: nrest) - (p + 1))) with (length nrest) by (unfold lenN; cbn [length]; lia).
    replace (N.to_nat (p + 1)) with (S (N.to_nat p)) by lia. rewrite Esk'. reflexivity. }
  rewrite Hs in Ec.
  match type of Ec with cs_loop ?a ?b ?c ?d ?e ?f ?g ?h ?i ?j ?k ?l = _ =>
    pose proof (cs_loop_all a b c d e f g h i j k l) as L end.
  rewrite Ec in L. cbn [snd] in L. rewrite L.
  - pose proof (f_equal (@length _) Hrest) as HL. rewrite map_length in HL. rewrite HL. reflexivity.
  - destruct nrest as [|x r]; injection En as <- <-.
    + left. reflexivity.
    + right. exact Hrest.
Qed.

(* ---- occurs -------------------------------------------------------------------------------------- *)
Lemma forallb_combine_eq (l1 : list N) : forall l2, length l1 = length l2 ->
  (forallb (fun q => fst q =? snd q) (combine l1 l2) = true <-> l1 = l2).
Proof.
  induction l1 as [|a l1 IH]; intros [|b l2] HL; cbn [length] in HL; try discriminate.
  - cbn. tauto.
  - cbn [combine forallb fst snd]. rewrite andb_true_iff, N.eqb_eq, IH by lia.
    split; [intros [-> ->]; reflexivity | intros H; injection H as -> ->; auto].
Qed.

Lemma forallb_combine_map (f : N -> N) (l1 : list N) : forall l2,
  forallb (fun q => f (fst q) =? snd q) (combine l1 l2) = forallb (fun q => fst q =? snd q) (combine (map f l1) l2).
Proof.
  induction l1 as [|a l1 IH]; intros [|b l2]; cbn [map combine forallb fst snd]; try reflexivity.
  rewrite IH. reflexivity.
Qed.

Lemma forallb_combine_ext (f g : N * N -> bool) (l1 : list N) : forall l2,
  (forall a b, In b l2 -> f (a, b) = g (a, b)) ->
  forallb f (combine l1 l2) = forallb g (combine l1 l2).
Proof.
  induction l1 as [|a l1 IH]; intros [|b l2] H; cbn [combine forallb]; try reflexivity.
  rewrite H by (left; reflexivity). rewrite IH; [reflexivity|]. intros; apply H; right; assumption.
Qed.

Lemma occurs_iff cfg hr h n p : occurs cfg hr h n p = true <->
  (N.to_nat p + length n <= length h)%nat /\ map (norm cfg hr) (firstn (length n) (skipn (N.to_nat p) h)) = n.
Proof.
  unfold occurs, nh. rewrite skipn_map, firstn_map, andb_true_iff.
  split; intros [H1 H2]; (split; [lia|]).
  - apply forallb_combine_eq; [|exact H2]. rewrite map_length, firstn_length, skipn_length. lia.
  - apply forallb_combine_eq; [|exact H2]. rewrite map_length, firstn_length, skipn_length. lia.
Qed.

Lemma needle_ok_in cfg nr n c : needle_ok cfg nr n = true -> In c n -> norm cfg nr c = c.
Proof. unfold needle_ok. rewrite forallb_forall. intros H Hin. apply N.eqb_eq, H, Hin. Qed.

Lemma exact_core cfg hr h n st e s idx :
  n <> [] -> lenN n = e - st -> lenN (sliceN st e h) = lenN n ->
  forallb (fun p => norm cfg hr (fst p) =? snd p) (combine (sliceN st e h) n) = true ->
  calculate_score cfg hr h n st e = Match s idx ->
  occurs cfg hr h n st = true /\ idx = rangeN st (length n).
Proof.
  intros Hne He Hw Hall Hc.
  assert (Hn1 : (1 <= length n)%nat) by (destruct n; [congruence|cbn; lia]).
  unfold sliceN, takeN, dropN, lenN in *.
  replace (N.to_nat (e - st)) with (length n) in * by lia.
  rewrite firstn_length, skipn_length in Hw.
  rewrite forallb_combine_map in Hall. apply forallb_combine_eq in Hall.
  2:{ rewrite map_length, firstn_length, skipn_length. lia. }
  assert (Ho : occurs cfg hr h n st = true) by (apply occurs_iff; split; [lia|exact Hall]).
  split; [exact Ho|].
  replace e with (st + lenN n) in Hc by (unfold lenN; lia).
  eapply calc_all; [exact Hne| |exact Hall|exact Hc]. lia.
Qed.

Lemma exact_impl_spec cfg hs ns st e s idx :
  needle_ok cfg (rp ns) (cs ns) = true -> cs ns <> [] ->
  exact_impl cfg hs ns st e = Match s idx ->
  occurs cfg (rp hs) (cs hs) (cs ns) st = true /\ idx = rangeN st (length (cs ns)) /\ lenN (cs ns) = e - st.
Proof.
  intros Hok Hne. unfold exact_impl.
  destruct (lenN (cs ns) =? e - st) eqn:El; cbn [negb]; [|discriminate].
  apply N.eqb_eq in El.
  assert (K : forall hr, forallb (fun p => norm cfg hr (fst p) =? norm cfg (rp ns) (snd p)) (combine (sliceN st e (cs hs)) (cs ns)) = true ->
              lenN (sliceN st e (cs hs)) = lenN (cs ns) ->
              calculate_score cfg hr (cs hs) (cs ns) st e = Match s idx ->
              occurs cfg hr (cs hs) (cs ns) st = true /\ idx = rangeN st (length (cs ns)) /\ lenN (cs ns) = e - st).
  { intros hr Hall Hw Hc. 
    rewrite (forallb_combine_ext _ (fun p => norm cfg hr (fst p) =? snd p)) in Hall.
    2:{ intros a b Hin. cbn [fst snd]. rewrite (needle_ok_in _ _ _ _ Hok Hin). reflexivity. }
    destruct (exact_core cfg hr (cs hs) (cs ns) st e s idx Hne El Hw Hall Hc) as [H1 H2]. auto. }
  destruct (rp hs) eqn:Ehr; destruct (rp ns) eqn:Enr; try discriminate.
  - destruct (ignore_case cfg) eqn:Eic.
    + destruct (forallb _ _) eqn:Hall; cbn [andb]; [|discriminate].
      destruct (lenN _ =? lenN _) eqn:Hw; [|discriminate]. apply N.eqb_eq in Hw.
      apply K; assumption.
    + destruct (forallb _ _) eqn:Hall; cbn [andb]; [|discriminate].
      destruct (lenN _ =? lenN _) eqn:Hw; [|discriminate]. apply N.eqb_eq in Hw.
      apply K; [|assumption]. rewrite <- Hall. apply forallb_combine_ext. intros a b _. cbn [fst snd norm].
      unfold norm_ascii. rewrite Eic. reflexivity.
  - destruct (forallb _ _) eqn:Hall; cbn [andb]; [|discriminate].
    destruct (lenN _ =? lenN _) eqn:Hw; [|discriminate]. apply N.eqb_eq in Hw.
    apply K; assumption.
  - destruct (forallb _ _) eqn:Hall; cbn [andb]; [|discriminate].
    destruct (lenN _ =? lenN _) eqn:Hw; [|discriminate]. apply N.eqb_eq in Hw.
    apply K; assumption.
Qed.

(* ---- whitespace trimming: the code's position(..) is the spec's count_leading -------------------- *)
Lemma count_leading_le p l : count_leading p l <= N.of_nat (length l).
Proof. induction l as [|x l IH]; cbn [count_leading length]; [lia|]. destruct (p x); lia. Qed.

Lemma position_count_leading (p : N -> bool) (l : list N) :
  position (fun c => negb (p c)) l =
  if count_leading p l =? N.of_nat (length l) then None else Some (count_leading p l).
Proof.
  induction l as [|x l IH]; [reflexivity|]. cbn [position count_leading length].
  pose proof (count_leading_le p l) as Hle.
  destruct (p x); cbn [negb].
  - rewrite IH. destruct (N.eqb_spec (count_leading p l) (N.of_nat (length l))) as [E|E];
      destruct (N.eqb_spec (1 + count_leading p l) (N.of_nat (S (length l)))) as [E'|E']; try lia.
    + reflexivity.
    + f_equal. lia.
  - destruct (N.eqb_spec 0 (N.of_nat (S (length l)))); [lia|reflexivity].
Qed.

Lemma lead_ws_eq hs : leading_ws hs = spec_lead (rp hs) (cs hs).
Proof.
  unfold leading_ws, spec_lead. change (is_ws (rp hs)) with (spec_is_ws (rp hs)).
  rewrite position_count_leading. destruct (_ =? _); reflexivity.
Qed.

Lemma trail_ws_eq hs : trailing_ws hs = spec_trail (rp hs) (cs hs).
Proof.
  unfold trailing_ws, spec_trail, spec_lead. change (is_ws (rp hs)) with (spec_is_ws (rp hs)).
  rewrite position_count_leading. destruct (_ =? _); reflexivity.
Qed.

Lemma lead_eq hs n0 r :
  (if char_is_ws n0 then 0 else leading_ws hs) = lead_for (rp hs) (cs hs) (n0 :: r).
Proof. unfold lead_for, char_is_ws. rewrite lead_ws_eq. reflexivity. Qed.

Lemma trail_eq hs n :
  (if char_is_ws (lastN n) then 0 else trailing_ws hs) = trail_for (rp hs) (cs hs) n.
Proof. unfold trail_for, char_is_ws, lastN. rewrite trail_ws_eq. reflexivity. Qed.

Lemma lenN_rangeN st k : lenN (rangeN st k) = N.of_nat k.
Proof. unfold lenN. rewrite length_rangeN. reflexivity. Qed.

(* ---- prefix / postfix / exact -------------------------------------------------------------------- *)
Lemma prefix_shape cfg hs ns s idx :
  needle_ok cfg (rp ns) (cs ns) = true -> cs ns <> [] ->
  prefix_entry cfg hs ns = Match s idx ->
  exists st, idx = rangeN st (length (cs ns)) /\ occurs cfg (rp hs) (cs hs) (cs ns) st = true /\
             spec_prefix cfg (rp hs) (cs hs) (cs ns) = Some st.
Proof.
  intros Hok Hne. unfold prefix_entry. destruct (cs ns) as [|n0 r] eqn:En; [congruence|].
  rewrite (lead_eq hs n0 r). destruct (_ <? _); [discriminate|]. intros H.
  apply exact_impl_spec in H; [|rewrite En; assumption..]. rewrite En in H. destruct H as (Ho & Hi & _).
  eexists. split; [exact Hi|]. split; [exact Ho|]. unfold spec_prefix. rewrite Ho. reflexivity.
Qed.

Lemma postfix_shape cfg hs ns s idx :
  needle_ok cfg (rp ns) (cs ns) = true -> cs ns <> [] ->
  postfix_entry cfg hs ns = Match s idx ->
  exists st, idx = rangeN st (length (cs ns)) /\ occurs cfg (rp hs) (cs hs) (cs ns) st = true /\
             spec_postfix cfg (rp hs) (cs hs) (cs ns) = Some st.
Proof.
  intros Hok Hne. unfold postfix_entry. destruct (cs ns) as [|n0 r] eqn:En; [congruence|].
  rewrite (trail_eq hs (n0 :: r)). destruct (_ <? _) eqn:Elt; [discriminate|]. intros H.
  apply exact_impl_spec in H; [|rewrite En; assumption..]. rewrite En in H. destruct H as (Ho & Hi & Hl).
  eexists. split; [exact Hi|]. split; [exact Ho|]. unfold spec_postfix.
  change (N.of_nat (length (cs hs))) with (lenN (cs hs)). change (N.of_nat (length (n0 :: r))) with (lenN (n0 :: r)).
  rewrite Ho.
  replace (lenN (n0 :: r) + trail_for (rp hs) (cs hs) (n0 :: r) <=? lenN (cs hs)) with true; [reflexivity|].
  unfold lenN in *. cbn [length] in *. lia.
Qed.

Lemma exact_shape cfg hs ns s idx :
  needle_ok cfg (rp ns) (cs ns) = true -> cs ns <> [] ->
  exact_entry cfg hs ns = Match s idx ->
  exists st, idx = rangeN st (length (cs ns)) /\ occurs cfg (rp hs) (cs hs) (cs ns) st = true /\
             spec_exact cfg (rp hs) (cs hs) (cs ns) = Some st.
Proof.
  intros Hok Hne. unfold exact_entry. destruct (cs ns) as [|n0 r] eqn:En; [congruence|].
  rewrite (trail_eq hs (n0 :: r)), (lead_eq hs n0 r).
  destruct (_ =? _) eqn:Eeq; [discriminate|]. destruct (_ <? _) eqn:Elt; [discriminate|]. intros H.
  apply exact_impl_spec in H; [|rewrite En; assumption..]. rewrite En in H. destruct H as (Ho & Hi & Hl).
  eexists. split; [exact Hi|]. split; [exact Ho|]. unfold spec_exact.
  change (N.of_nat (length (cs hs))) with (lenN (cs hs)). change (N.of_nat (length (n0 :: r))) with (lenN (n0 :: r)).
  rewrite Ho.
  replace (_ =? _) with true; [reflexivity|].
  unfold lenN in *. cbn [length] in *. lia.
Qed.

(* ---- candidate search ---------------------------------------------------------------------------- *)
Lemma best_pos_in cfg : forall cands best i s,
  best_pos cfg cands best = Some (i, s) -> (exists b, In (i, b) cands) \/ best = Some (i, s).
Proof.
  induction cands as [|[i0 b0] cands IH]; intros best i s H; cbn [best_pos] in H; [right; exact H|].
  destruct (match best with Some (_, s0) => s0 <? _ | None => _ end).
  - destruct (max_bonus cfg <=? b0).
    + injection H as <- _. left. exists b0. left. reflexivity.
    + apply IH in H. destruct H as [[b Hb]|H].
      * left. exists b. right. exact Hb.
      * injection H as <- _. left. exists b0. left. reflexivity.
  - apply IH in H. destruct H as [[b Hb]|H]; [left; exists b; right; exact Hb | right; exact H].
Qed.

Lemma scan_cands_in cfg hr p : forall hs i0 prev i b,
  In (i, b) (scan_cands cfg hr p hs i0 prev) ->
  exists k, i = i0 + N.of_nat k /\ (k < length hs)%nat /\ p (skipn k hs) = true.
Proof.
  induction hs as [|c hs IH]; intros i0 prev i b H; cbn [scan_cands] in H; [destruct H|].
  assert (K : In (i, b) (scan_cands cfg hr p hs (i0 + 1) (class cfg hr c)) ->
              exists k, i = i0 + N.of_nat k /\ (k < length (c :: hs))%nat /\ p (skipn k (c :: hs)) = true).
  { intros H'. apply IH in H'. destruct H' as (k & E1 & E2 & E3). exists (S k). cbn [length skipn].
    split; [lia|]. split; [lia|exact E3]. }
  destruct (p (c :: hs)) eqn:Ep; [|exact (K H)].
  destruct H as [H|H]; [|exact (K H)].
  injection H as <- _. exists 0%nat. cbn [length skipn]. split; [lia|]. split; [lia|exact Ep].
Qed.

Lemma skipn_skipn' {A} : forall y x (l : list A), skipn x (skipn y l) = skipn (x + y) l.
Proof.
  induction y as [|y IH]; intros x l.
  - rewrite Nat.add_0_r. reflexivity.
  - destruct l as [|a l]; [rewrite !skipn_nil; reflexivity|].
    rewrite Nat.add_succ_r. cbn [skipn]. apply IH.
Qed.

Lemma cands_found cfg hr p h start prev i sc :
  best_pos cfg (scan_cands cfg hr p (dropN start h) start prev) None = Some (i, sc) ->
  (N.to_nat i < length h)%nat /\ p (skipn (N.to_nat i) h) = true.
Proof.
  intros H. apply best_pos_in in H. destruct H as [[b H]|H]; [|discriminate].
  apply scan_cands_in in H. destruct H as (k & -> & Hk & Hp). unfold dropN in *.
  rewrite skipn_length in Hk. rewrite skipn_skipn' in Hp.
  replace (N.to_nat (start + N.of_nat k)) with (k + N.to_nat start)%nat by lia.
  split; [lia|exact Hp].
Qed.

Lemma prefix_match_spec cfg hr : forall n hs, prefix_match cfg hr n hs = true ->
  (length n <= length hs)%nat /\ map (norm cfg hr) (firstn (length n) hs) = n.
Proof.
  induction n as [|x n IH]; intros hs H.
  - cbn. split; [lia|reflexivity].
  - destruct hs as [|c hs]; cbn [prefix_match] in H; [discriminate|].
    apply andb_prop in H. destruct H as [H1 H2]. apply N.eqb_eq in H1. apply IH in H2. destruct H2 as [H2 H3].
    cbn [length firstn map]. split; [lia|]. rewrite H1, H3. reflexivity.
Qed.

Lemma cands_prefix cfg hr h n start prev i sc :
  best_pos cfg (scan_cands cfg hr (prefix_match cfg hr n) (dropN start h) start prev) None = Some (i, sc) ->
  occurs cfg hr h n i = true.
Proof.
  intros H. apply cands_found in H. destruct H as [Hi Hp]. apply prefix_match_spec in Hp.
  destruct Hp as [Hl Hm]. rewrite skipn_length in Hl. apply occurs_iff. split; [lia|exact Hm].
Qed.

Lemma occurs_single cfg hr h c i x rest :
  skipn (N.to_nat i) h = x :: rest -> norm cfg hr x = c -> occurs cfg hr h [c] i = true.
Proof.
  intros Hs Hn. apply occurs_iff. destruct (skipn_cons_inv _ _ _ _ Hs) as (Hl & _ & _).
  cbn [length]. split; [lia|]. rewrite Hs. cbn [firstn map]. rewrite Hn. reflexivity.
Qed.

Lemma cands_head cfg hr h f c start prev i sc :
  (forall x, f x = true -> norm cfg hr x = c) ->
  best_pos cfg (scan_cands cfg hr (head_is f) (dropN start h) start prev) None = Some (i, sc) ->
  occurs cfg hr h [c] i = true.
Proof.
  intros Hf H. apply cands_found in H. destruct H as [Hi Hp].
  destruct (skipn (N.to_nat i) h) as [|x rest] eqn:Es; cbn [head_is] in Hp; [discriminate|].
  eapply occurs_single; [exact Es|apply Hf, Hp].
Qed.

Lemma byte_matches_norm cfg c b : norm cfg Ascii c = c ->
  byte_matches (ignore_case cfg) c b = (norm cfg Ascii b =? c).
Proof.
  unfold byte_matches, norm, norm_ascii, in_range. intros H.
  destruct (ignore_case cfg); cbn [andb] in *.
  - destruct ((65 <=? c) && (c <=? 90)) eqn:E1; [lia|].
    destruct ((97 <=? c) && (c <=? 122)) eqn:E2; destruct ((65 <=? b) && (b <=? 90)) eqn:E3; lia.
  - reflexivity.
Qed.

Lemma position_split {A} (p : A -> bool) : forall l k, position p l = Some k ->
  exists pre x post, l = pre ++ x :: post /\ length pre = N.to_nat k /\ p x = true.
Proof.
  induction l as [|y l IH]; intros k H; cbn [position] in H; [discriminate|].
  destruct (p y) eqn:Ep.
  - injection H as <-. exists [], y, l. auto.
  - destruct (position p l) as [k'|] eqn:E; [|discriminate]. injection H as <-.
    destruct (IH _ eq_refl) as (pre & x & post & -> & HL & Hx).
    exists (y :: pre), x, post. cbn [app length]. split; [reflexivity|]. split; [lia|exact Hx].
Qed.

Lemma skipn_app_exact {A} (pre r : list A) : skipn (length pre) (pre ++ r) = r.
Proof. induction pre as [|a pre IH]; [reflexivity|exact IH]. Qed.

Lemma position_firstn {A} (p : A -> bool) j (h : list A) k :
  position p (firstn j h) = Some k -> exists x rest, skipn (N.to_nat k) h = x :: rest /\ p x = true.
Proof.
  intros H. apply position_split in H. destruct H as (pre & x & post & E & HL & Hx).
  exists x, (post ++ skipn j h). split; [|exact Hx].
  pose proof (firstn_skipn j h) as F. rewrite E in F. remember (skipn j h) as t eqn:Et. clear Et.
  rewrite <- F, <- HL, <- app_assoc. cbn [app]. apply skipn_app_exact.
Qed.

Lemma prefilter_non_ascii_start cfg h n0 nrest og start e :
  prefilter_non_ascii cfg h (n0 :: nrest) og = Some (start, e) ->
  exists x rest, skipn (N.to_nat start) h = x :: rest /\ norm cfg Unicode x = n0.
Proof.
  unfold prefilter_non_ascii, takeN. destruct (position _ _) as [st|] eqn:Ep; [|discriminate].
  apply position_firstn in Ep. destruct Ep as (x & rest & E1 & E2). apply N.eqb_eq in E2.
  destruct og.
  - destruct (_ <? _); [discriminate|]. intros H; injection H as <- _. eauto.
  - destruct (position _ _); [|discriminate]. destruct (_ <? _); [discriminate|].
    intros H; injection H as <- _. eauto.
Qed.

(* ---- substring ----------------------------------------------------------------------------------- *)
Lemma calc_occurs cfg hr h n i s idx : n <> [] -> occurs cfg hr h n i = true ->
  calculate_score cfg hr h n i (i + lenN n) = Match s idx -> idx = rangeN i (length n).
Proof. intros Hne Ho. apply occurs_iff in Ho. destruct Ho as [H1 H2]. intros Hc. eapply calc_all; eauto. Qed.

Lemma substring_shape cfg hs ns s idx :
  needle_ok cfg (rp ns) (cs ns) = true -> cs ns <> [] ->
  substring_impl cfg hs ns = Match s idx ->
  exists st, idx = rangeN st (length (cs ns)) /\ occurs cfg (rp hs) (cs hs) (cs ns) st = true.
Proof.
  intros Hok Hne. unfold substring_impl. destruct (lenN (cs hs) <? lenN (cs ns)); [discriminate|].
  destruct (cs ns) as [|n0 nrest] eqn:En; [congruence|].
  destruct (lenN (n0 :: nrest) =? lenN (cs hs)).
  { intros H. apply exact_impl_spec in H; [|rewrite En; assumption..]. rewrite En in H.
    destruct H as (Ho & Hi & _). eauto. }
  destruct (rp hs) eqn:Ehr; [destruct (rp ns) eqn:Enr; [|discriminate]|].
  - destruct nrest as [|n1 r].
    + unfold substring_1_ascii. destruct (best_pos _ _ _) as [[i sc]|] eqn:Eb; [|discriminate].
      intros H. injection H as _ <-. exists i. split; [reflexivity|].
      refine (cands_head cfg Ascii (cs hs) _ n0 0 _ i sc _ Eb).
      intros x Hx. rewrite byte_matches_norm in Hx; [apply N.eqb_eq, Hx|].
      apply (needle_ok_in _ _ _ _ Hok). left. reflexivity.
    + unfold substring_ascii. destruct (best_pos _ _ _) as [[i sc]|] eqn:Eb; [|discriminate].
      pose proof (cands_prefix cfg Ascii (cs hs) (n0 :: n1 :: r) 0 _ i sc Eb) as Ho.
      intros H. apply calc_occurs in H; [|discriminate|exact Ho]. eauto.
  - destruct nrest as [|n1 r].
    + destruct (prefilter_non_ascii _ _ _ _) as [[start e]|] eqn:Epf; [|discriminate].
      unfold substring_1_non_ascii. destruct (best_pos _ _ _) as [[i sc]|] eqn:Eb; intros H; injection H as _ <-.
      * exists i. split; [reflexivity|].
        refine (cands_head cfg Unicode (cs hs) _ n0 start _ i sc _ Eb).
        intros x Hx. apply N.eqb_eq in Hx. rewrite class_norm_fst in Hx. exact Hx.
      * exists start. split; [reflexivity|].
        apply prefilter_non_ascii_start in Epf. destruct Epf as (x & rest & E1 & E2).
        eapply occurs_single; eassumption.
    + destruct (prefilter_non_ascii _ _ _ _) as [[start e]|] eqn:Epf; [|discriminate].
      unfold substring_non_ascii. destruct (best_pos _ _ _) as [[i sc]|] eqn:Eb; [|discriminate].
      pose proof (cands_prefix cfg Unicode (cs hs) (n0 :: n1 :: r) start _ i sc Eb) as Ho.
      intros H. apply calc_occurs in H; [|discriminate|exact Ho]. eauto.
Qed.

Lemma C02_shape : C02_shape_stmt.
Proof.
  unfold C02_shape_stmt. intros cfg a hs ns s idx Ha _ _ Hok Hne Hrun.
  destruct Ha as [ -> | [ -> | [ -> | -> ] ] ]; cbn [run] in Hrun.
  - destruct (substring_shape _ _ _ _ _ Hok Hne Hrun) as (st & -> & Ho). exists st.
    rewrite contiguous_rangeN, lenN_rangeN. auto.
  - destruct (prefix_shape _ _ _ _ _ Hok Hne Hrun) as (st & -> & Ho & Hs). exists st.
    rewrite contiguous_rangeN, lenN_rangeN. auto.
  - destruct (postfix_shape _ _ _ _ _ Hok Hne Hrun) as (st & -> & Ho & Hs). exists st.
    rewrite contiguous_rangeN, lenN_rangeN. auto.
  - destruct (exact_shape _ _ _ _ _ Hok Hne Hrun) as (st & -> & Ho & Hs). exists st.
    rewrite contiguous_rangeN, lenN_rangeN. auto.
Qed.

(* ---- embeddings ---------------------------------------------------------------------------------- *)
Lemma nh_nth cfg hr h i c rest : skipn (N.to_nat i) h = c :: rest ->
  (i <? N.of_nat (length (nh cfg hr h))) = true /\ nth (N.to_nat i) (nh cfg hr h) 0 = norm cfg hr c.
Proof.
  intros H. unfold nh. assert (H' : skipn (N.to_nat i) (map (norm cfg hr) h) = norm cfg hr c :: map (norm cfg hr) rest).
  { rewrite skipn_map, H. reflexivity. }
  destruct (skipn_cons_inv _ _ _ _ H') as (H1 & H2 & _). split; [lia|apply H2].
Qed.

Lemma embedding_b_lo idxs n H lo lo' : lo' <= lo ->
  embedding_b idxs n H lo = true -> embedding_b idxs n H lo' = true.
Proof.
  intros Hle. destruct idxs as [|i idxs], n as [|x n]; cbn [embedding_b]; try (intros; assumption).
  rewrite !andb_true_iff. intros (((H1 & H2) & H3) & H4). repeat split; try assumption. lia.
Qed.

Lemma occurs_embedding cfg hr h : forall n st lo, lo <= st ->
  (N.to_nat st + length n <= length h)%nat ->
  map (norm cfg hr) (firstn (length n) (skipn (N.to_nat st) h)) = n ->
  embedding_b (rangeN st (length n)) n (nh cfg hr h) lo = true.
Proof.
  induction n as [|x n IH]; intros st lo Hlo Hlen Hmap; [reflexivity|].
  cbn [length] in *. destruct (skipn_split h (N.to_nat st) ltac:(lia)) as (c & rest & Es).
  rewrite Es in Hmap. cbn [firstn map] in Hmap. injection Hmap as Hc Hrest.
  destruct (nh_nth cfg hr h st c rest Es) as [B1 B2].
  destruct (skipn_cons_inv _ _ _ _ Es) as (_ & _ & Es').
  cbn [rangeN embedding_b]. rewrite B1, B2, Hc, N.eqb_refl.
  replace (lo <=? st) with true by lia. cbn [andb].
  apply IH; [lia|lia|]. replace (N.to_nat (st + 1)) with (S (N.to_nat st)) by lia. rewrite Es'. exact Hrest.
Qed.

(* ---- the greedy forward scan --------------------------------------------------------------------- *)
Section ScanFwd.
  Context {A : Type} (m : N -> A -> bool).

  Definition osucc (o : option N) : option N := match o with Some k => Some (k + 1) | None => None end.

  Lemma scan_fwd_cons nc n' x hs :
    scan_fwd m (nc :: n') (x :: hs) =
    if m nc x then osucc (scan_fwd m n' hs) else osucc (scan_fwd m (nc :: n') hs).
  Proof. reflexivity. Qed.

  Lemma scan_fwd_nil_h nc n' : scan_fwd m (nc :: n') [] = None.
  Proof. reflexivity. Qed.

  Lemma scan_fwd_nil_n hs : scan_fwd m [] hs = Some 0.
  Proof. reflexivity. Qed.

  Lemma osucc_some o k : osucc o = Some k -> exists k', o = Some k' /\ k = k' + 1.
  Proof. destruct o as [k'|]; cbn; [|discriminate]. intros H; injection H as <-. eauto. Qed.

  Lemma scan_fwd_le_len : forall n hs k, scan_fwd m n hs = Some k -> k <= N.of_nat (length hs).
  Proof.
    induction n as [|nc n IHn]; intros hs k H.
    - rewrite scan_fwd_nil_n in H. injection H as <-. lia.
    - induction hs as [|x hs IHh] in k, H |- *; [discriminate|].
      rewrite scan_fwd_cons in H. cbn [length].
      destruct (m nc x); apply osucc_some in H; destruct H as (k' & H & ->).
      + apply IHn in H. lia.
      + apply IHh in H. lia.
  Qed.

  (* only the consumed prefix matters *)
  Lemma scan_fwd_app : forall n hs t k, scan_fwd m n hs = Some k -> scan_fwd m n (hs ++ t) = Some k.
  Proof.
    induction n as [|nc n IHn]; intros hs t k H; [exact H|].
    induction hs as [|x hs IHh] in k, H |- *; [discriminate|].
    rewrite scan_fwd_cons in H. cbn [app]. rewrite scan_fwd_cons.
    destruct (m nc x); apply osucc_some in H; destruct H as (k' & H & ->).
    - rewrite (IHn _ t _ H). reflexivity.
    - rewrite (IHh _ H). reflexivity.
  Qed.

  Lemma scan_fwd_firstn : forall n hs k, scan_fwd m n hs = Some k ->
    scan_fwd m n (firstn (N.to_nat k) hs) = Some k.
  Proof.
    induction n as [|nc n IHn]; intros hs k H; [exact H|].
    induction hs as [|x hs IHh] in k, H |- *; [discriminate|].
    rewrite scan_fwd_cons in H.
    destruct (m nc x) eqn:Em; apply osucc_some in H; destruct H as (k' & H & ->);
      replace (N.to_nat (k' + 1)) with (S (N.to_nat k')) by lia; cbn [firstn]; rewrite scan_fwd_cons, Em.
    - rewrite (IHn _ _ H). reflexivity.
    - rewrite (IHh _ H). reflexivity.
  Qed.

  (* starting earlier never ends later; dropping the first needle character never ends later *)
  Lemma scan_fwd_mono : forall hs,
    (forall nc n k, scan_fwd m (nc :: n) hs = Some k -> exists k2, scan_fwd m n hs = Some k2 /\ k2 <= k) /\
    (forall n k x, scan_fwd m n hs = Some k -> exists k2, scan_fwd m n (x :: hs) = Some k2 /\ k2 <= k + 1).
  Proof.
    assert (AB : forall hs,
      (forall nc n k, scan_fwd m (nc :: n) hs = Some k -> exists k2, scan_fwd m n hs = Some k2 /\ k2 <= k) ->
      (forall n k x, scan_fwd m n hs = Some k -> exists k2, scan_fwd m n (x :: hs) = Some k2 /\ k2 <= k + 1)).
    { intros hs B n k x H. destruct n as [|nc n].
      - exists 0. split; [reflexivity|lia].
      - rewrite scan_fwd_cons. destruct (m nc x).
        + destruct (B _ _ _ H) as (k2 & E & Hle). rewrite E. exists (k2 + 1). split; [reflexivity|lia].
        + rewrite H. exists (k + 1). split; [reflexivity|lia]. }
    induction hs as [|y hs [IHB IHA]].
    - split; [|apply AB]; intros nc n k H; discriminate.
    - assert (B : forall nc n k, scan_fwd m (nc :: n) (y :: hs) = Some k ->
                  exists k2, scan_fwd m n (y :: hs) = Some k2 /\ k2 <= k).
      { intros nc n k H. rewrite scan_fwd_cons in H.
        destruct (m nc y); apply osucc_some in H; destruct H as (k' & H & ->).
        - exact (IHA _ _ y H).
        - destruct (IHB _ _ _ H) as (k2 & E & Hle). destruct (IHA _ _ y E) as (k3 & E3 & Hle3).
          exists k3. split; [exact E3|lia]. }
      split; [exact B|exact (AB _ B)].
  Qed.

  Lemma scan_fwd_skipn : forall j hs n k', scan_fwd m n (skipn j hs) = Some k' ->
    exists k, scan_fwd m n hs = Some k /\ k <= N.of_nat j + k'.
  Proof.
    induction j as [|j IH]; intros hs n k' H.
    - exists k'. split; [exact H|lia].
    - destruct hs as [|x hs].
      + exists k'. split; [exact H|lia].
      + cbn [skipn] in H. destruct (IH _ _ _ H) as (k & E & Hle).
        destruct (proj2 (scan_fwd_mono hs) _ _ x E) as (k2 & E2 & Hle2). exists k2. split; [exact E2|lia].
  Qed.

  (* appending one more needle character and a haystack element matching it *)
  Lemma scan_fwd_snoc nc c : m nc c = true -> forall n hs k, scan_fwd m n hs = Some k ->
    exists k', scan_fwd m (n ++ [nc]) (hs ++ [c]) = Some k'.
  Proof.
    intros Hm. induction n as [|x n IHn]; intros hs k H.
    - clear H. cbn [app]. induction hs as [|y hs IHh]; cbn [app]; rewrite scan_fwd_cons.
      + rewrite Hm. cbn. eauto.
      + destruct (m nc y); [cbn; eauto|]. destruct IHh as (k' & ->). cbn. eauto.
    - induction hs as [|y hs IHh] in k, H |- *; [discriminate|].
      rewrite scan_fwd_cons in H. cbn [app]. rewrite scan_fwd_cons.
      destruct (m x y); apply osucc_some in H; destruct H as (k1 & H & ->).
      + destruct (IHn _ _ H) as (k' & ->). cbn. eauto.
      + destruct (IHh _ H) as (k' & E). cbn [app] in E. rewrite E. cbn. eauto.
  Qed.

  Lemma scan_fwd_ext (m2 : N -> A -> bool) : forall n, (forall nc x, In nc n -> m nc x = m2 nc x) ->
    forall hs, scan_fwd m n hs = scan_fwd m2 n hs.
  Proof.
    induction n as [|nc n IHn]; intros Hext hs; [reflexivity|].
    induction hs as [|x hs IHh]; [reflexivity|]. 
    change (scan_fwd m2 (nc :: n) (x :: hs)) with
      (if m2 nc x then osucc (scan_fwd m2 n hs) else osucc (scan_fwd m2 (nc :: n) hs)).
    rewrite scan_fwd_cons, IHh, IHn, Hext; [reflexivity|left; reflexivity|].
    intros; apply Hext; right; assumption.
  Qed.
End ScanFwd.

(* ---- calculate_score re-walks a greedy window ---------------------------------------------------- *)
Definition mt (cfg : config) (hr : repr) (nc c : N) : bool := norm cfg hr c =? nc.

Lemma lenN_cons {A} (x : A) l : lenN (x :: l) = lenN l + 1.
Proof. unfold lenN. cbn [length]. lia. Qed.

Lemma cs_loop_greedy cfg hr h : forall hs i nrest nc prev ig ir fb score acc tail,
  skipn (N.to_nat i) h = hs ++ tail ->
  scan_fwd (mt cfg hr) (nc :: nrest) hs = Some (lenN hs) ->
  exists idxs, snd (cs_loop cfg hr hs i nrest nc prev ig ir fb score acc) = rev acc ++ idxs /\
     embedding_b idxs (nc :: nrest) (nh cfg hr h) i = true.
Proof.
  induction hs as [|c0 hs IH]; intros i nrest nc prev ig ir fb score acc tail Hsk Hs; [discriminate|].
  rewrite scan_fwd_cons in Hs. unfold mt at 1 in Hs. cbn [app] in Hsk.
  destruct (nh_nth cfg hr h i c0 _ Hsk) as [B1 B2].
  destruct (skipn_cons_inv _ _ _ _ Hsk) as (_ & _ & Hsk').
  replace (S (N.to_nat i)) with (N.to_nat (i + 1)) in Hsk' by lia.
  cbn [cs_loop]. pose proof (class_norm_fst cfg hr c0) as F.
  destruct (class_norm cfg hr c0) as [c k]. cbn [fst] in F. subst c.
  destruct (norm cfg hr c0 =? nc) eqn:Em; apply osucc_some in Hs; destruct Hs as (k' & Hs & Hk);
    rewrite lenN_cons in Hk; assert (k' = lenN hs) as -> by lia; clear Hk.
  - apply N.eqb_eq in Em. destruct (if ir then _ else _) as [fb' b'].
    destruct nrest as [|x r].
    + rewrite scan_fwd_nil_n in Hs. destruct hs; [|unfold lenN in Hs; cbn [length] in Hs; injection Hs; lia].
      cbn [cs_loop snd]. exists [i]. rewrite frev_rev. cbn [rev]. split; [reflexivity|].
      cbn [embedding_b]. rewrite B1, B2, Em, N.eqb_refl, N.leb_refl. reflexivity.
    + destruct (IH (i + 1) r x k false true fb' (sadd16 score (SCORE_MATCH + b')) (i :: acc) tail Hsk' Hs)
        as (idxs & E1 & E2).
      exists (i :: idxs). rewrite E1. cbn [rev]. rewrite <- app_assoc. split; [reflexivity|].
      cbn [embedding_b]. rewrite B1, B2, Em, N.eqb_refl, N.leb_refl. exact E2.
  - destruct (IH (i + 1) nrest nc k true false fb
                 (score - (if ig then PENALTY_GAP_EXTENSION else PENALTY_GAP_START)) acc tail Hsk' Hs)
      as (idxs & E1 & E2).
    exists idxs. split; [exact E1|]. apply (embedding_b_lo _ _ _ (i + 1)); [lia|exact E2].
Qed.

Lemma calc_greedy cfg hr h n0 nrest s' e c' rest' s idx :
  skipn (N.to_nat s') h = c' :: rest' -> norm cfg hr c' = n0 ->
  scan_fwd (mt cfg hr) nrest (sliceN (s' + 1) e h) = Some (lenN (sliceN (s' + 1) e h)) ->
  calculate_score cfg hr h (n0 :: nrest) s' e = Match s idx ->
  embedding_b idx (n0 :: nrest) (nh cfg hr h) 0 = true.
Proof.
  intros Hsk Hn0 Hs. unfold calculate_score.
  destruct (skipn_cons_inv _ _ _ _ Hsk) as (Hlt & _ & _).
  destruct (nh_nth cfg hr h s' c' _ Hsk) as [B1 B2].
  destruct (lenN h <=? s') eqn:E; [unfold lenN in E; lia|].
  destruct nrest as [|x r].
  - rewrite scan_fwd_nil_n in Hs. destruct (sliceN (s' + 1) e h) as [|y l].
    2:{ unfold lenN in Hs. cbn [length] in Hs. injection Hs. lia. }
    cbn [cs_loop]. rewrite frev_rev. cbn [rev app]. intros H. injection H as _ <-.
    cbn [embedding_b]. rewrite B1, B2, Hn0, N.eqb_refl. replace (0 <=? s') with true by lia. reflexivity.
  - destruct (cs_loop _ _ _ _ _ _ _ _ _ _ _ _) as [score idx0] eqn:Ec.
    intros H. injection H as _ <-.
    match type of Ec with cs_loop ?x1 ?x2 ?x3 ?x4 ?x5 ?x6 ?x7 ?x8 ?x9 ?x10 ?x11 ?x12 = _ =>
      destruct (cs_loop_greedy x1 x2 h x3 x4 x5 x6 x7 x8 x9 x10 x11 x12 (skipn (N.to_nat (e - (s' + 1))) (dropN (s' + 1) h)))
        as (idxs & E1 & E2) end.
    + unfold sliceN, takeN. rewrite firstn_skipn. reflexivity.
    + exact Hs.
    + rewrite Ec in E1. cbn [snd rev app] in E1. subst idx0.
      cbn [embedding_b]. rewrite B1, B2, Hn0, N.eqb_refl. replace (0 <=? s') with true by lia. exact E2.
Qed.

(* ---- the backward minimisation ------------------------------------------------------------------- *)
Lemma scan_bwd_spec cfg hr : forall hrev nrev i j, scan_bwd cfg hr nrev hrev i = Some j ->
  exists pre c post n0 nrest k, hrev = pre ++ c :: post /\ j = i - N.of_nat (length pre) /\
    rev nrev = n0 :: nrest /\ norm cfg hr c = n0 /\ scan_fwd (mt cfg hr) nrest (rev pre) = Some k.
Proof.
  induction hrev as [|c hrev IH]; intros nrev i j H; cbn [scan_bwd] in H; [discriminate|].
  destruct nrev as [|nc nrev']; [discriminate|].
  destruct (norm cfg hr c =? nc) eqn:Em.
  - apply N.eqb_eq in Em. destruct nrev' as [|x r'].
    + injection H as <-. exists [], c, hrev, nc, [], 0. cbn [app length rev]. repeat split; try assumption; try reflexivity. lia.
    + apply IH in H. destruct H as (pre & c' & post & n0 & nrest & k & E1 & E2 & E3 & E4 & E5).
      destruct (scan_fwd_snoc (mt cfg hr) nc c (proj2 (N.eqb_eq _ _) Em) _ _ _ E5) as (k' & E6).
      exists (c :: pre), c', post, n0, (nrest ++ [nc]), k'. cbn [app length].
      split; [rewrite E1; reflexivity|]. split; [lia|].
      split; [change (rev (nc :: x :: r')) with (rev (x :: r') ++ [nc]); rewrite E3; reflexivity|].
      split; [exact E4|]. cbn [rev]. exact E6.
  - apply IH in H. destruct H as (pre & c' & post & n0 & nrest & k & E1 & E2 & E3 & E4 & E5).
    exists (c :: pre), c', post, n0, nrest, k. cbn [app length].
    split; [rewrite E1; reflexivity|]. split; [lia|]. split; [exact E3|]. split; [exact E4|].
    cbn [rev]. apply scan_fwd_app. exact E5.
Qed.

Lemma firstn_app_len {A} (a b : list A) : firstn (length a) (a ++ b) = a.
Proof. induction a as [|x a IH]; cbn [length app firstn]; [destruct b; reflexivity|]. now rewrite IH. Qed.

Lemma skipn_app_plus {A} (a b : list A) k : skipn (length a + k) (a ++ b) = skipn k b.
Proof. induction a as [|x a IH]; [reflexivity|exact IH]. Qed.

(* the start chosen by fuzzy_greedy_ and the window calculate_score then walks *)
Lemma greedy_core cfg hr c0 rest n0 nrest k :
  norm cfg hr c0 = n0 ->
  scan_fwd (mt cfg hr) nrest rest = Some k ->
  let w := c0 :: firstn (N.to_nat k) rest in
  let j := match scan_bwd cfg hr (rev (n0 :: nrest)) (rev w) (lenN w - 1) with Some j => j | None => 0 end in
  exists c rest', skipn (N.to_nat j) (c0 :: rest) = c :: rest' /\ norm cfg hr c = n0 /\ j <= k /\
    scan_fwd (mt cfg hr) nrest (firstn (N.to_nat (k - j)) rest') = Some (k - j).
Proof.
  intros Hc0 Hfw w j. pose proof (scan_fwd_le_len _ _ _ _ Hfw) as Hle.
  assert (Hwl : length w = S (N.to_nat k)) by (unfold w; cbn [length]; rewrite firstn_length; lia).
  subst j. destruct (scan_bwd _ _ _ _ _) as [j|] eqn:Eb.
  - apply scan_bwd_spec in Eb. destruct Eb as (pre & c & post & n0' & nrest' & k1 & E1 & E2 & E3 & E4 & E5).
    rewrite rev_involutive in E3. injection E3 as <- <-.
    assert (Ew : w = rev post ++ c :: rev pre).
    { rewrite <- (rev_involutive w), E1, rev_app_distr. cbn [rev]. rewrite <- app_assoc. reflexivity. }
    assert (Hl : (S (N.to_nat k) = length post + S (length pre))%nat).
    { rewrite <- Hwl, Ew, app_length. cbn [length]. rewrite !rev_length. reflexivity. }
    assert (Ej : j = N.of_nat (length post)) by (unfold lenN in E2; lia). clear E2. subst j.
    assert (Efull : c0 :: rest = rev post ++ c :: (rev pre ++ skipn (N.to_nat k) rest)).
    { rewrite <- (firstn_skipn (N.to_nat k) rest) at 1. change (c0 :: firstn (N.to_nat k) rest ++ skipn (N.to_nat k) rest)
        with (w ++ skipn (N.to_nat k) rest). rewrite Ew, <- app_assoc. reflexivity. }
    exists c, (rev pre ++ skipn (N.to_nat k) rest).
    split.
    { rewrite Efull, Nat2N.id. rewrite <- (rev_length post). apply skipn_app_exact. }
    split; [exact E4|]. split; [lia|].
    replace (N.to_nat (k - N.of_nat (length post))) with (length (rev pre)) by (rewrite rev_length; lia).
    rewrite firstn_app_len.
    pose proof (scan_fwd_le_len _ _ _ _ E5) as Hk1. rewrite rev_length in Hk1.
    assert (Esk : skipn (length post) rest = rev pre ++ skipn (N.to_nat k) rest).
    { change (skipn (length post) rest) with (skipn (S (length post)) (c0 :: rest)).
      rewrite Efull. replace (S (length post)) with (length (rev post) + 1)%nat by (rewrite rev_length; lia).
      rewrite skipn_app_plus. reflexivity. }
    pose proof (scan_fwd_app _ _ _ (skipn (N.to_nat k) rest) _ E5) as E6. rewrite <- Esk in E6.
    destruct (scan_fwd_skipn _ _ _ _ _ E6) as (k2 & E7 & Hk2). rewrite Hfw in E7. injection E7 as <-.
    rewrite E5. f_equal. lia.
  - exists c0, rest. cbn [N.to_nat skipn]. split; [reflexivity|]. split; [exact Hc0|]. split; [lia|].
    rewrite N.sub_0_r. apply scan_fwd_firstn. exact Hfw.
Qed.

Lemma calc_greedy_window cfg hr h n0 nrest start c0 rest k j c rest' s idx :
  skipn (N.to_nat start) h = c0 :: rest ->
  skipn (N.to_nat j) (c0 :: rest) = c :: rest' -> norm cfg hr c = n0 -> j <= k ->
  scan_fwd (mt cfg hr) nrest (firstn (N.to_nat (k - j)) rest') = Some (k - j) ->
  calculate_score cfg hr h (n0 :: nrest) (start + j) (start + 1 + k) = Match s idx ->
  embedding_b idx (n0 :: nrest) (nh cfg hr h) 0 = true.
Proof.
  intros Hsk Hj Hn Hjk Hsf.
  assert (Hsk' : skipn (N.to_nat (start + j)) h = c :: rest').
  { replace (N.to_nat (start + j)) with (N.to_nat j + N.to_nat start)%nat by lia.
    rewrite <- skipn_skipn', Hsk. exact Hj. }
  apply (calc_greedy cfg hr h n0 nrest (start + j) (start + 1 + k) c rest' s idx Hsk' Hn).
  destruct (skipn_cons_inv _ _ _ _ Hsk') as (_ & _ & Hsk'').
  assert (Hsl : sliceN (start + j + 1) (start + 1 + k) h = firstn (N.to_nat (k - j)) rest').
  { unfold sliceN, takeN, dropN. replace (N.to_nat (start + j + 1)) with (S (N.to_nat (start + j))) by lia.
    rewrite Hsk''. f_equal. lia. }
  rewrite Hsl, Hsf. f_equal.
  pose proof (scan_fwd_le_len _ _ _ _ Hsf) as H1. pose proof (firstn_le_length (N.to_nat (k - j)) rest') as H2.
  unfold lenN. lia.
Qed.

Lemma greedy_tail cfg hr h n0 nrest start c0 rest k s idx :
  skipn (N.to_nat start) h = c0 :: rest -> norm cfg hr c0 = n0 ->
  scan_fwd (mt cfg hr) nrest rest = Some k ->
  calculate_score cfg hr h (n0 :: nrest)
    (match scan_bwd cfg hr (frev (n0 :: nrest)) (frev (sliceN start (start + 1 + k) h))
             (lenN (sliceN start (start + 1 + k) h) - 1) with Some i => start + i | None => start end)
    (start + 1 + k) = Match s idx ->
  embedding_b idx (n0 :: nrest) (nh cfg hr h) 0 = true.
Proof.
  intros Hsk Hn Hfw.
  assert (Hw : sliceN start (start + 1 + k) h = c0 :: firstn (N.to_nat k) rest).
  { unfold sliceN, takeN, dropN. rewrite Hsk.
    replace (N.to_nat (start + 1 + k - start)) with (S (N.to_nat k)) by lia. reflexivity. }
  rewrite Hw, !frev_rev.
  destruct (greedy_core cfg hr c0 rest n0 nrest k Hn Hfw) as (c & rest' & Hj & Hc & Hjk & Hsf).
  destruct (scan_bwd _ _ _ _ _) as [j|].
  - eapply calc_greedy_window; eassumption.
  - replace start with (start + 0) at 1 by lia. eapply calc_greedy_window; eassumption.
Qed.

Lemma fuzzy_greedy_ascii cfg h n0 nrest start c0 rest k s idx :
  skipn (N.to_nat start) h = c0 :: rest -> norm cfg Ascii c0 = n0 ->
  scan_fwd (mt cfg Ascii) nrest rest = Some k ->
  fuzzy_greedy_ cfg Ascii Ascii h (n0 :: nrest) start (start + 1 + k) = Match s idx ->
  embedding_b idx (n0 :: nrest) (nh cfg Ascii h) 0 = true.
Proof.
  intros Hsk Hn Hfw. unfold fuzzy_greedy_. cbv beta iota zeta. eapply greedy_tail; eassumption.
Qed.

Lemma fuzzy_greedy_unicode cfg nr h n0 nrest start c0 rest s idx :
  skipn (N.to_nat start) h = c0 :: rest -> norm cfg Unicode c0 = n0 ->
  fuzzy_greedy_ cfg Unicode nr h (n0 :: nrest) start (start + 1) = Match s idx ->
  embedding_b idx (n0 :: nrest) (nh cfg Unicode h) 0 = true.
Proof.
  intros Hsk Hn. unfold fuzzy_greedy_. cbv beta iota zeta.
  destruct (skipn_cons_inv _ _ _ _ Hsk) as (_ & _ & Hsk').
  destruct nrest as [|n1 r].
  - replace (start + 1) with (start + 1 + 0) by lia.
    eapply greedy_tail; [eassumption..|reflexivity].
  - unfold dropN. replace (N.to_nat (start + 1)) with (S (N.to_nat start)) by lia. rewrite Hsk'.
    change (fun nc c => norm cfg Unicode c =? nc) with (mt cfg Unicode).
    destruct (scan_fwd (mt cfg Unicode) (n1 :: r) rest) as [k|] eqn:Hfw; [|discriminate].
    eapply greedy_tail; eassumption.
Qed.

Lemma prefilter_ascii_spec cfg h n0 nrest start ge e' :
  needle_ok cfg Ascii (n0 :: nrest) = true ->
  prefilter_ascii cfg h (n0 :: nrest) true = Some (start, ge, e') ->
  exists c0 rest k, skipn (N.to_nat start) h = c0 :: rest /\ norm cfg Ascii c0 = n0 /\
    scan_fwd (mt cfg Ascii) nrest rest = Some k /\ ge = start + 1 + k.
Proof.
  intros Hok. unfold prefilter_ascii, takeN.
  destruct (position _ _) as [st|] eqn:Ep; [|discriminate].
  apply position_firstn in Ep. destruct Ep as (c0 & rest & Hsk & Hm).
  rewrite byte_matches_norm in Hm by (apply (needle_ok_in _ _ _ _ Hok); left; reflexivity).
  apply N.eqb_eq in Hm.
  destruct (skipn_cons_inv _ _ _ _ Hsk) as (_ & _ & Hsk').
  unfold dropN. replace (N.to_nat (st + 1)) with (S (N.to_nat st)) by lia. rewrite Hsk'.
  rewrite (scan_fwd_ext _ (mt cfg Ascii)).
  2:{ intros nc x Hin. unfold mt. apply byte_matches_norm. apply (needle_ok_in _ _ _ _ Hok). right. exact Hin. }
  destruct (scan_fwd _ _ _) as [k|] eqn:Hfw; [|discriminate].
  intros H. injection H as <- <- _. exists c0, rest, k. auto.
Qed.

Lemma greedy_witness cfg hs ns s idx :
  needle_ok cfg (rp ns) (cs ns) = true ->
  fuzzy_greedy_impl cfg hs ns = Match s idx ->
  embedding_b idx (cs ns) (nh cfg (rp hs) (cs hs)) 0 = true.
Proof.
  intros Hok. unfold fuzzy_greedy_impl. destruct (lenN (cs hs) <? lenN (cs ns)); [discriminate|].
  destruct (cs ns) as [|n0 nrest] eqn:En.
  { intros H. injection H as _ <-. reflexivity. }
  destruct (lenN (n0 :: nrest) =? lenN (cs hs)).
  { intros H. apply exact_impl_spec in H; [|rewrite En; try assumption; discriminate..]. rewrite En in H.
    destruct H as (Ho & -> & _). apply occurs_iff in Ho. destruct Ho as [H1 H2].
    apply occurs_embedding; [lia|exact H1|exact H2]. }
  destruct (rp hs) eqn:Ehr; [destruct (rp ns) eqn:Enr; [|discriminate]|].
  - destruct (prefilter_ascii _ _ _ _) as [[[start ge] e']|] eqn:Epf; [|discriminate].
    destruct (prefilter_ascii_spec _ _ _ _ _ _ _ Hok Epf) as (c0 & rest & k & Hsk & Hn & Hfw & ->).
    destruct (_ =? _).
    + replace start with (start + 0) at 1 by lia.
      apply (calc_greedy_window cfg Ascii (cs hs) n0 nrest start c0 rest k 0 c0 rest); try assumption.
      * reflexivity.
      * lia.
      * rewrite N.sub_0_r. apply scan_fwd_firstn. exact Hfw.
    + eapply fuzzy_greedy_ascii; eassumption.
  - destruct (prefilter_non_ascii _ _ _ _) as [[start e']|] eqn:Epf; [|discriminate].
    apply prefilter_non_ascii_start in Epf. destruct Epf as (c0 & rest & Hsk & Hn).
    eapply fuzzy_greedy_unicode; eassumption.
Qed.

Lemma shape_embedding cfg hr h n st :
  occurs cfg hr h n st = true -> embedding_b (rangeN st (length n)) n (nh cfg hr h) 0 = true.
Proof.
  intros Ho. apply occurs_iff in Ho. destruct Ho as [H1 H2]. apply occurs_embedding; [lia|exact H1|exact H2].
Qed.

Lemma C02_linear_witness : C02_linear_witness_stmt.
Proof.
  unfold C02_linear_witness_stmt. intros cfg a hs ns s idx Ha _ _ Hok Hrun.
  destruct a; [congruence|exact (greedy_witness _ _ _ _ _ Hok Hrun)|..]; cbn [run] in Hrun.
  - destruct (cs ns) as [|n0 r] eqn:En.
    + unfold substring_impl in Hrun. rewrite En in Hrun. destruct (_ <? _); [discriminate|].
      injection Hrun as _ <-. reflexivity.
    + rewrite <- En in Hok |- *. destruct (substring_shape _ _ _ _ _ Hok ltac:(congruence) Hrun) as (st & -> & Ho).
      apply shape_embedding, Ho.
  - destruct (cs ns) as [|n0 r] eqn:En.
    + unfold prefix_entry in Hrun. rewrite En in Hrun. injection Hrun as _ <-. reflexivity.
    + rewrite <- En in Hok |- *. destruct (prefix_shape _ _ _ _ _ Hok ltac:(congruence) Hrun) as (st & -> & Ho & _).
      apply shape_embedding, Ho.
  - destruct (cs ns) as [|n0 r] eqn:En.
    + unfold postfix_entry in Hrun. rewrite En in Hrun. injection Hrun as _ <-. reflexivity.
    + rewrite <- En in Hok |- *. destruct (postfix_shape _ _ _ _ _ Hok ltac:(congruence) Hrun) as (st & -> & Ho & _).
      apply shape_embedding, Ho.
  - destruct (cs ns) as [|n0 r] eqn:En.
    + unfold exact_entry in Hrun. rewrite En in Hrun. injection Hrun as _ <-. reflexivity.
    + rewrite <- En in Hok |- *. destruct (exact_shape _ _ _ _ _ Hok ltac:(congruence) Hrun) as (st & -> & Ho & _).
      apply shape_embedding, Ho.
Qed.

Print Assumptions C02_shape.
Print Assumptions C02_linear_witness.
