(* C01: the fuzzy entry points decide the normalised-subsequence relation. *)
From Coq Require Import ZArith NArith List Bool Lia ZifyBool ZifyN ZifyNat.
From NV Require Import Base.Util Model.Chars Model.Matcher Spec.Matching Spec.Statements Proofs.CharsFacts.
Import ListNotations.
Local Open Scope N_scope.

(* ---- subseq_b: unfolding, basic facts ------------------------------------------------------------ *)
Lemma subseq_b_cons x n' y h :
  subseq_b (x :: n') (y :: h) = if y =? x then subseq_b n' h else subseq_b (x :: n') h.
Proof. reflexivity. Qed.

Lemma subseq_b_cons_nil x n' : subseq_b (x :: n') [] = false.
Proof. reflexivity. Qed.

Lemma subseq_b_nil h : subseq_b [] h = true.
Proof. reflexivity. Qed.

Lemma subseq_b_len n : forall h, subseq_b n h = true -> (length n <= length h)%nat.
Proof.
  induction n as [|x n' IHn]; intros h H; [cbn [length]; lia|].
  induction h as [|y h IHh]; [discriminate|].
  rewrite subseq_b_cons in H. destruct (y =? x).
  - apply IHn in H. cbn [length]. lia.
  - apply IHh in H. cbn [length] in *. lia.
Qed.

Lemma subseq_b_short n h : (length h < length n)%nat -> subseq_b n h = false.
Proof.
  intros L. destruct (subseq_b n h) eqn:E; [|reflexivity]. apply subseq_b_len in E. lia.
Qed.

(* dropping the head of the needle / adding a head to the haystack *)
Lemma subseq_b_mono n : forall h,
  (forall y, subseq_b n h = true -> subseq_b n (y :: h) = true) /\
  (forall x, subseq_b (x :: n) h = true -> subseq_b n h = true).
Proof.
  induction n as [|x0 n' IHn]; intros h.
  - split; intros; reflexivity.
  - split.
    + intros y H. rewrite subseq_b_cons. destruct (y =? x0); [|exact H].
      apply (proj2 (IHn h)) in H. exact H.
    + intros x. induction h as [|z h IHh]; intros H; [discriminate|].
      rewrite subseq_b_cons in H.
      assert (H' : subseq_b (x0 :: n') h = true) by (destruct (z =? x); auto).
      rewrite subseq_b_cons. destruct (z =? x0); [|exact H'].
      apply (proj2 (IHn h)) in H'. exact H'.
Qed.

Lemma subseq_b_skip n h y : subseq_b n h = true -> subseq_b n (y :: h) = true.
Proof. apply subseq_b_mono. Qed.

Lemma subseq_b_tail x n h : subseq_b (x :: n) h = true -> subseq_b n h = true.
Proof. apply subseq_b_mono. Qed.

Lemma subseq_b_spec : subseq_b_spec_stmt.
Proof.
  unfold subseq_b_spec_stmt. intros n h. split.
  - revert h. induction n as [|x n' IHn]; intros h H; [constructor|].
    induction h as [|y h IHh]; [discriminate|].
    rewrite subseq_b_cons in H. destruct (N.eqb_spec y x) as [->|Hne].
    + apply subseq_take. auto.
    + apply subseq_skip. auto.
  - intros H. induction H as [h|n y h H IH|x n h H IH].
    + reflexivity.
    + apply subseq_b_skip. exact IH.
    + rewrite subseq_b_cons, N.eqb_refl. exact IH.
Qed.

(* ---- position / scan_fwd against subseq_b --------------------------------------------------------- *)
Lemma position_cons {A} (p : A -> bool) x l :
  position p (x :: l) =
  if p x then Some 0 else match position p l with Some k => Some (k + 1) | None => None end.
Proof. reflexivity. Qed.

Lemma position_ext {A} (p q : A -> bool) l : (forall x, p x = q x) -> position p l = position q l.
Proof.
  intros E. induction l as [|x l IH]; [reflexivity|]. rewrite !position_cons, E, IH. reflexivity.
Qed.

Lemma position_take_some {A} (p : A -> bool) t : forall l s,
  position p (firstn t l) = Some s -> position p l = Some s.
Proof.
  induction t as [|t IHt]; intros l s H; [discriminate|].
  destruct l as [|a l]; [discriminate|]. cbn [firstn] in H. rewrite position_cons in *.
  destruct (p a); [exact H|].
  destruct (position p (firstn t l)) eqn:E; [|discriminate]. rewrite (IHt _ _ E). exact H.
Qed.

Lemma scan_fwd_cons {A} (m : N -> A -> bool) nc n' x hs :
  scan_fwd m (nc :: n') (x :: hs) =
  if m nc x then match scan_fwd m n' hs with Some k => Some (k + 1) | None => None end
  else match scan_fwd m (nc :: n') hs with Some k => Some (k + 1) | None => None end.
Proof. reflexivity. Qed.

Section Greedy.
  Context {A : Type}.
  Variable f : A -> N.

  Lemma position_some_subseq x0 n' : forall h s,
    position (fun x => f x =? x0) h = Some s ->
    subseq_b (x0 :: n') (map f h) = subseq_b n' (map f (skipn (S (N.to_nat s)) h)) /\
    (N.to_nat s < length h)%nat.
  Proof.
    induction h as [|y h IH]; intros s H; [discriminate|].
    rewrite position_cons in H. cbn [map]. rewrite subseq_b_cons. destruct (f y =? x0).
    - injection H as <-. cbn [N.to_nat skipn length]. split; [reflexivity|lia].
    - destruct (position _ h) as [k|] eqn:E; [|discriminate]. injection H as <-.
      destruct (IH k eq_refl) as [I1 I2].
      replace (N.to_nat (k + 1)) with (S (N.to_nat k)) by lia. cbn [skipn length].
      split; [exact I1|lia].
  Qed.

  Lemma position_take_none x0 n' : forall t h,
    position (fun x => f x =? x0) (firstn t h) = None ->
    subseq_b (x0 :: n') (map f h) = subseq_b (x0 :: n') (map f (skipn t h)).
  Proof.
    induction t as [|t IHt]; intros h H; [reflexivity|].
    destruct h as [|y h]; [reflexivity|]. cbn [firstn] in H. rewrite position_cons in H.
    cbn [map skipn]. rewrite subseq_b_cons. destruct (f y =? x0); [discriminate|].
    destruct (position _ (firstn t h)) eqn:E; [discriminate|]. apply IHt. exact E.
  Qed.

  Lemma scan_fwd_subseq (m : N -> A -> bool) n :
    (forall nc, In nc n -> forall x, m nc x = (f x =? nc)) ->
    forall hs, opt_is_some (scan_fwd m n hs) = subseq_b n (map f hs).
  Proof.
    induction n as [|a n IHn]; intros Hm hs; [reflexivity|].
    induction hs as [|y hs IHhs]; [reflexivity|].
    rewrite scan_fwd_cons. cbn [map]. rewrite subseq_b_cons, (Hm a (or_introl eq_refl)).
    destruct (f y =? a).
    - rewrite <- IHn; [destruct (scan_fwd m n hs); reflexivity|].
      intros; apply Hm; right; assumption.
    - rewrite <- IHhs. destruct (scan_fwd m (a :: n) hs); reflexivity.
  Qed.

  (* the first needle character may be searched in [0, |h| - |n|] only *)
  Lemma window_none x0 n' h :
    lenN (x0 :: n') <= lenN h ->
    position (fun x => f x =? x0) (takeN (lenN h - lenN (x0 :: n') + 1) h) = None ->
    subseq_b (x0 :: n') (map f h) = false.
  Proof.
    unfold takeN, lenN. cbn [length]. intros L H.
    rewrite (position_take_none _ _ _ _ H). apply subseq_b_short.
    rewrite map_length, skipn_length. cbn [length]. lia.
  Qed.

  Lemma window_some x0 n' h t s :
    position (fun x => f x =? x0) (takeN t h) = Some s ->
    subseq_b (x0 :: n') (map f h) = subseq_b n' (map f (dropN (s + 1) h)) /\ s < lenN h /\ s < t.
  Proof.
    unfold takeN, dropN, lenN. intros H.
    destruct (position_some_subseq x0 n' _ _ H) as [_ B]. rewrite firstn_length in B.
    apply position_take_some in H. destruct (position_some_subseq x0 n' _ _ H) as [E L].
    replace (N.to_nat (s + 1)) with (S (N.to_nat s)) by lia. split; [exact E|lia].
  Qed.
End Greedy.

(* ---- byte_matches is normalised comparison for normalised needle bytes ------------------------- *)
Lemma byte_matches_norm cfg c b :
  norm_ascii cfg c = c -> byte_matches (ignore_case cfg) c b = (norm_ascii cfg b =? c).
Proof.
  unfold byte_matches, norm_ascii, in_range. destruct (ignore_case cfg); cbn [andb]; [|reflexivity].
  intros H.
  destruct ((65 <=? c) && (c <=? 90)) eqn:E1; destruct ((97 <=? c) && (c <=? 122)) eqn:E2;
  destruct ((65 <=? b) && (b <=? 90)) eqn:E3; lia.
Qed.

(* ---- calculate_score never fails on a non-empty needle and an in-range start ---------------------- *)
Lemma calculate_score_match cfg hr h n start e :
  n <> [] -> start < lenN h -> exists s idx, calculate_score cfg hr h n start e = Match s idx.
Proof.
  intros Hn Hs. unfold calculate_score. destruct n as [|n0 nrest]; [congruence|].
  destruct (N.leb_spec (lenN h) start) as [L|L]; [lia|].
  destruct (match nrest with [] => (n0, []) | x :: r => (x, r) end) as [nc nrest'].
  destruct (cs_loop _ _ _ _ _ _ _ _ _ _ _ _) as [sc idx]. eauto.
Qed.

Lemma calculate_score_not_nomatch cfg hr h n start e : calculate_score cfg hr h n start e <> NoMatch.
Proof.
  unfold calculate_score. destruct n as [|n0 nrest]; [discriminate|].
  destruct (lenN h <=? start); [discriminate|].
  destruct (match nrest with [] => (n0, []) | x :: r => (x, r) end) as [nc nrest'].
  destruct (cs_loop _ _ _ _ _ _ _ _ _ _ _ _) as [sc idx]. discriminate.
Qed.

(* ---- equal lengths: subsequence is equality -------------------------------------------------------- *)
Lemma subseq_b_refl n : subseq_b n n = true.
Proof. induction n as [|x n IH]; [reflexivity|]. rewrite subseq_b_cons, N.eqb_refl. exact IH. Qed.

Lemma subseq_b_same_len n : forall h, length n = length h -> (subseq_b n h = true <-> h = n).
Proof.
  induction n as [|x n IH]; intros h L.
  - destruct h; [split; reflexivity|discriminate].
  - destruct h as [|y h]; [discriminate|]. cbn [length] in L. rewrite subseq_b_cons.
    destruct (N.eqb_spec y x) as [->|Hne].
    + rewrite IH by lia. split; [intros ->; reflexivity|intros H; injection H; auto].
    + rewrite subseq_b_short by (cbn [length]; lia). split; [discriminate|intros H; injection H; congruence].
Qed.

Lemma forallb_combine_eq (g1 g2 : N -> N) : forall w n, length w = length n ->
  (forallb (fun p => g1 (fst p) =? g2 (snd p)) (combine w n) = true <-> map g1 w = map g2 n).
Proof.
  induction w as [|a w IH]; intros n L; destruct n as [|b n]; try discriminate.
  - split; reflexivity.
  - cbn [combine forallb map fst snd length] in *. rewrite andb_true_iff, IH by lia.
    rewrite N.eqb_eq. split; [intros [-> ->]; reflexivity|intros H; injection H; auto].
Qed.

Lemma needle_ok_map cfg nr n : needle_ok cfg nr n = true -> map (norm cfg nr) n = n.
Proof.
  unfold needle_ok. induction n as [|c n IH]; [reflexivity|]. cbn [forallb map].
  rewrite andb_true_iff, N.eqb_eq. intros [-> H]. rewrite IH by exact H. reflexivity.
Qed.

Lemma lenN_slice {A} (l : list A) a b : b <= lenN l -> lenN (sliceN a b l) = b - a.
Proof. unfold sliceN, takeN, dropN, lenN. intros H. rewrite firstn_length, skipn_length. lia. Qed.

Lemma lenN_slice_le {A} (l : list A) a b : lenN (sliceN a b l) <= lenN l - a.
Proof. unfold sliceN, takeN, dropN, lenN. rewrite firstn_length, skipn_length. lia. Qed.

Lemma exact_impl_spec cfg hr nr h n start e :
  ~ (hr = Ascii /\ nr = Unicode) -> needle_ok cfg nr n = true -> n <> [] ->
  lenN n = e - start -> e <= lenN h ->
  match exact_impl cfg {| rp := hr; cs := h |} {| rp := nr; cs := n |} start e with
  | Match _ _ => map (norm cfg hr) (sliceN start e h) = n
  | NoMatch => map (norm cfg hr) (sliceN start e h) <> n
  | Panicked _ => False
  end.
Proof.
  intros K Hok Hn Hlen He. unfold exact_impl. cbn [rp cs].
  rewrite (proj2 (N.eqb_eq _ _) Hlen). cbn [negb].
  pose proof (lenN_slice h start e He) as Lw. rewrite <- Hlen in Lw.
  assert (Lw' : length (sliceN start e h) = length n) by (unfold lenN in Lw; lia).
  assert (Hst : start < lenN h).
  { destruct n; [congruence|]. unfold lenN in *. cbn [length] in *. lia. }
  destruct (calculate_score_match cfg hr h n start e Hn Hst) as (s & idx & CS).
  pose proof (needle_ok_map cfg nr n Hok) as Hmap.
  assert (G : forall g1 g2 : N -> N,
            map g1 (sliceN start e h) = map (norm cfg hr) (sliceN start e h) -> map g2 n = n ->
            match (if forallb (fun p => g1 (fst p) =? g2 (snd p)) (combine (sliceN start e h) n)
                      && (lenN (sliceN start e h) =? lenN n)
                   then calculate_score cfg hr h n start e else NoMatch) with
            | Match _ _ => map (norm cfg hr) (sliceN start e h) = n
            | NoMatch => map (norm cfg hr) (sliceN start e h) <> n
            | Panicked _ => False
            end).
  { intros g1 g2 E1 E2. rewrite Lw, N.eqb_refl, andb_true_r.
    pose proof (forallb_combine_eq g1 g2 _ _ Lw') as F. rewrite E1, E2 in F.
    destruct (forallb _ _).
    - rewrite CS. apply F. reflexivity.
    - intros E. apply F in E. discriminate. }
  destruct hr, nr.
  - destruct (ignore_case cfg) eqn:IC.
    + apply (G (norm cfg Ascii) (norm cfg Ascii)); [reflexivity|exact Hmap].
    + apply (G (fun x => x) (fun x => x)); [|apply map_id].
      apply map_ext. intros a. cbn [norm]. unfold norm_ascii. rewrite IC. reflexivity.
  - exfalso. apply K. split; reflexivity.
  - apply (G (norm cfg Unicode) (norm cfg Ascii)); [reflexivity|exact Hmap].
  - apply (G (norm cfg Unicode) (norm cfg Unicode)); [reflexivity|exact Hmap].
Qed.

(* ---- fuzzy_greedy_ ---------------------------------------------------------------------------------- *)
Lemma scan_bwd_le cfg hr : forall hrev nrev i r, scan_bwd cfg hr nrev hrev i = Some r -> r <= i.
Proof.
  induction hrev as [|c hrev IH]; intros nrev i r H; cbn [scan_bwd] in H; [discriminate|].
  destruct nrev as [|nc nrev']; [discriminate|].
  destruct (norm cfg hr c =? nc).
  - destruct nrev' as [|nc' nrev''].
    + injection H as <-. lia.
    + apply IH in H. lia.
  - apply IH in H. lia.
Qed.

Lemma greedy_start_bound cfg hr n h start e :
  start < lenN h ->
  match scan_bwd cfg hr (frev n) (frev (sliceN start e h)) (lenN (sliceN start e h) - 1) with
  | Some i => start + i
  | None => start
  end < lenN h.
Proof.
  intros Hs. pose proof (lenN_slice_le h start e) as L.
  destruct (sliceN start e h) as [|a w] eqn:W.
  - unfold frev at 2. cbn [rev_append]. destruct (frev n); cbn [scan_bwd]; exact Hs.
  - destruct (scan_bwd _ _ _ _ _) as [i|] eqn:S; [|exact Hs].
    apply scan_bwd_le in S. unfold lenN in *. cbn [length] in *. lia.
Qed.

Lemma fuzzy_greedy_ascii_match cfg h n start e :
  n <> [] -> start < lenN h -> exists s idx, fuzzy_greedy_ cfg Ascii Ascii h n start e = Match s idx.
Proof.
  intros Hn Hs. unfold fuzzy_greedy_. cbv iota beta zeta.
  apply calculate_score_match; [exact Hn|]. apply greedy_start_bound. exact Hs.
Qed.

Lemma fuzzy_greedy_uni cfg nr h n0 nrest start :
  start < lenN h ->
  match fuzzy_greedy_ cfg Unicode nr h (n0 :: nrest) start (start + 1) with
  | Match _ _ => subseq_b nrest (map (norm cfg Unicode) (dropN (start + 1) h)) = true
  | NoMatch => subseq_b nrest (map (norm cfg Unicode) (dropN (start + 1) h)) = false
  | Panicked _ => False
  end.
Proof.
  intros Hs. unfold fuzzy_greedy_. cbv iota beta zeta.
  destruct nrest as [|n1 nr'].
  - destruct (calculate_score_match cfg Unicode h [n0]
               (match scan_bwd cfg Unicode (frev [n0]) (frev (sliceN start (start + 1) h))
                        (lenN (sliceN start (start + 1) h) - 1) with
                | Some i => start + i | None => start end) (start + 1)) as (s & idx & E);
      [discriminate|apply greedy_start_bound; exact Hs|].
    rewrite E. reflexivity.
  - pose proof (scan_fwd_subseq (norm cfg Unicode) (fun nc c => norm cfg Unicode c =? nc) (n1 :: nr')
                  (fun _ _ _ => eq_refl) (dropN (start + 1) h)) as F.
    destruct (scan_fwd _ _ _) as [k|].
    + destruct (calculate_score_match cfg Unicode h (n0 :: n1 :: nr')
               (match scan_bwd cfg Unicode (frev (n0 :: n1 :: nr')) (frev (sliceN start (start + 1 + k) h))
                        (lenN (sliceN start (start + 1 + k) h) - 1) with
                | Some i => start + i | None => start end) (start + 1 + k)) as (s & idx & E);
        [discriminate|apply greedy_start_bound; exact Hs|].
      rewrite E. symmetry. exact F.
    + symmetry. exact F.
Qed.

(* ---- prefilters -------------------------------------------------------------------------------------- *)
Lemma needle_ok_in cfg nr n c : needle_ok cfg nr n = true -> In c n -> norm cfg nr c = c.
Proof. unfold needle_ok. rewrite forallb_forall. intros H I. apply N.eqb_eq, H, I. Qed.

Lemma prefilter_ascii_spec cfg h n0 nrest og :
  lenN (n0 :: nrest) <= lenN h -> needle_ok cfg Ascii (n0 :: nrest) = true ->
  match prefilter_ascii cfg h (n0 :: nrest) og with
  | None => subseq_b (n0 :: nrest) (map (norm cfg Ascii) h) = false
  | Some (start, ge, e) => subseq_b (n0 :: nrest) (map (norm cfg Ascii) h) = true /\ start < lenN h
  end.
Proof.
  intros L Hok. unfold prefilter_ascii.
  rewrite (position_ext (byte_matches (ignore_case cfg) n0) (fun x => norm cfg Ascii x =? n0)).
  2:{ intros x. apply byte_matches_norm. apply (needle_ok_in cfg Ascii _ _ Hok). left; reflexivity. }
  destruct (position _ _) as [start|] eqn:P.
  - destruct (window_some (norm cfg Ascii) n0 nrest h _ _ P) as (E & L1 & _).
    pose proof (scan_fwd_subseq (norm cfg Ascii) (byte_matches (ignore_case cfg)) nrest) as F.
    specialize (F (fun nc I x => byte_matches_norm cfg nc x
                                   (needle_ok_in cfg Ascii _ _ Hok (or_intror I))) (dropN (start + 1) h)).
    destruct (scan_fwd _ _ _) as [k|].
    + destruct og; (split; [rewrite E; symmetry; exact F|exact L1]).
    + rewrite E. symmetry. exact F.
  - apply window_none; assumption.
Qed.

Lemma prefilter_non_ascii_greedy cfg h n0 nrest :
  lenN (n0 :: nrest) <= lenN h ->
  match prefilter_non_ascii cfg h (n0 :: nrest) true with
  | None => subseq_b (n0 :: nrest) (map (norm cfg Unicode) h) = false
  | Some (start, e) =>
    start < lenN h /\
    subseq_b (n0 :: nrest) (map (norm cfg Unicode) h)
    = subseq_b nrest (map (norm cfg Unicode) (dropN (start + 1) h))
  end.
Proof.
  intros L. unfold prefilter_non_ascii.
  destruct (position _ _) as [start|] eqn:P.
  - destruct (window_some (norm cfg Unicode) n0 nrest h _ _ P) as (E & L1 & L2).
    destruct (N.ltb_spec (lenN h - start) (lenN (n0 :: nrest))) as [C|C]; [lia|]. split; assumption.
  - apply window_none; assumption.
Qed.

Lemma sliceN_all {A} (h : list A) : sliceN 0 (lenN h) h = h.
Proof.
  unfold sliceN, takeN, dropN, lenN. rewrite N.sub_0_r, Nat2N.id. cbn [N.to_nat skipn]. apply firstn_all.
Qed.

(* the equal-length case, shared by both entry points *)
Lemma exact_full_spec cfg hr nr h n :
  ~ (hr = Ascii /\ nr = Unicode) -> needle_ok cfg nr n = true -> n <> [] -> lenN n = lenN h ->
  match exact_impl cfg {| rp := hr; cs := h |} {| rp := nr; cs := n |} 0 (lenN h) with
  | Match _ _ => subseq_b n (map (norm cfg hr) h) = true
  | NoMatch => subseq_b n (map (norm cfg hr) h) = false
  | Panicked _ => False
  end.
Proof.
  intros K Hok Hn E.
  pose proof (exact_impl_spec cfg hr nr h n 0 (lenN h) K Hok Hn ltac:(lia) ltac:(lia)) as X.
  rewrite sliceN_all in X.
  assert (LL : length n = length (map (norm cfg hr) h)) by (rewrite map_length; unfold lenN in E; lia).
  destruct (exact_impl _ _ _ _ _).
  - destruct (subseq_b _ _) eqn:S; [|reflexivity]. apply subseq_b_same_len in S; [contradiction|exact LL].
  - apply subseq_b_same_len; assumption.
  - exact X.
Qed.

Lemma C01_greedy_decision : C01_greedy_decision_stmt.
Proof.
  unfold C01_greedy_decision_stmt, normalised_subseq, nh, known_K1.
  intros cfg [hr h] [nr n] _ _ Hok K. cbn [rp cs] in *.
  unfold run, fuzzy_greedy_impl. cbn [rp cs].
  destruct (N.ltb_spec (lenN h) (lenN n)) as [L|L].
  { apply subseq_b_short. rewrite map_length. unfold lenN in L. lia. }
  destruct n as [|n0 nrest]; [reflexivity|].
  destruct (N.eqb_spec (lenN (n0 :: nrest)) (lenN h)) as [E|NE].
  { apply exact_full_spec; [exact K|exact Hok|discriminate|exact E]. }
  destruct hr; [destruct nr|].
  - pose proof (prefilter_ascii_spec cfg h n0 nrest true L Hok) as P.
    destruct (prefilter_ascii _ _ _ _) as [[[start ge] e]|]; [|exact P]. destruct P as [S Ls].
    destruct (lenN (n0 :: nrest) =? ge - start).
    + destruct (calculate_score_match cfg Ascii h (n0 :: nrest) start ge) as (s & idx & C);
        [discriminate|exact Ls|]. rewrite C. exact S.
    + destruct (fuzzy_greedy_ascii_match cfg h (n0 :: nrest) start ge) as (s & idx & C);
        [discriminate|exact Ls|]. rewrite C. exact S.
  - exfalso. apply K. split; reflexivity.
  - pose proof (prefilter_non_ascii_greedy cfg h n0 nrest L) as P.
    destruct (prefilter_non_ascii _ _ _ _) as [[start e]|]; [|exact P]. destruct P as [Ls S].
    rewrite S. apply fuzzy_greedy_uni. exact Ls.
Qed.

(* ---- representation independence ---------------------------------------------------------------------- *)
Lemma norm_repr cfg c : c < 128 -> norm cfg Ascii c = norm cfg Unicode c.
Proof.
  intros H. cbn [norm]. unfold norm_ascii, norm_char.
  destruct (normalize_on cfg), (ignore_case cfg); cbn [andb];
    rewrite ?(normalize_ascii c H), ?(to_lower_ascii c H); reflexivity.
Qed.

Lemma nh_repr cfg hs hs' :
  wf_str hs -> wf_str hs' -> cs hs = cs hs' -> nh cfg (rp hs) (cs hs) = nh cfg (rp hs') (cs hs').
Proof.
  destruct hs as [r h], hs' as [r' h']. unfold wf_str. cbn [rp cs]. intros W W' <-. unfold nh.
  destruct r, r'; try reflexivity; apply map_ext_in; intros c I.
  - apply norm_repr. specialize (W c I). cbn [wf_char] in W. lia.
  - symmetry. apply norm_repr. specialize (W' c I). cbn [wf_char] in W'. lia.
Qed.

Lemma greedy_nomatch_iff cfg hs ns :
  wf_str hs -> wf_str ns -> needle_ok cfg (rp ns) (cs ns) = true -> ~ known_K1 hs ns ->
  (run cfg FuzzyGreedy hs ns = NoMatch <-> normalised_subseq cfg hs ns = false).
Proof.
  intros W1 W2 Hok K. pose proof (C01_greedy_decision cfg hs ns W1 W2 Hok K) as D.
  destruct (run cfg FuzzyGreedy hs ns).
  - split; auto.
  - split; [discriminate|congruence].
  - contradiction.
Qed.

Lemma C01_repr_indep : C01_repr_indep_stmt.
Proof.
  unfold C01_repr_indep_stmt. intros cfg hs ns hs' ns' W1 W2 W1' W2' Eh En Hok Hok' K K'.
  rewrite (greedy_nomatch_iff cfg hs ns W1 W2 Hok K), (greedy_nomatch_iff cfg hs' ns' W1' W2' Hok' K').
  unfold normalised_subseq. rewrite (nh_repr cfg hs hs' W1 W1' Eh), En. reflexivity.
Qed.

(* ==== the optimal entry point ========================================================================= *)
(* ---- inductive subsequence: trimming after the last occurrence of the last needle character ------ *)
Lemma subseq_app_r n h : subseq n h -> forall t, subseq n (h ++ t).
Proof.
  intros H t. induction H as [h|n y h H IH|x n h H IH]; cbn [app];
    [apply subseq_nil|apply subseq_skip|apply subseq_take]; assumption.
Qed.

Lemma subseq_in n h : subseq n h -> forall x, In x n -> In x h.
Proof.
  intros H. induction H as [h|n y h H IH|x n h H IH]; intros z I.
  - destruct I.
  - right. auto.
  - destruct I as [->|I]; [left; reflexivity|right; auto].
Qed.

Lemma subseq_snoc y : forall h n, subseq n (h ++ [y]) ->
  subseq n h \/ exists n', n = n' ++ [y] /\ subseq n' h.
Proof.
  induction h as [|z h IH]; intros n H; cbn [app] in H.
  - inversion H as [h0|n0 y0 h0 H0|x n0 h0 H0]; subst.
    + left. apply subseq_nil.
    + inversion H0; subst. left. apply subseq_nil.
    + inversion H0; subst. right. exists []. split; [reflexivity|apply subseq_nil].
  - inversion H as [h0|n0 y0 h0 H0|x n0 h0 H0]; subst.
    + left. apply subseq_nil.
    + destruct (IH _ H0) as [S|(n' & -> & S)].
      * left. apply subseq_skip. exact S.
      * right. exists n'. split; [reflexivity|apply subseq_skip; exact S].
    + destruct (IH _ H0) as [S|(n' & -> & S)].
      * left. apply subseq_take. exact S.
      * right. exists (z :: n'). split; [reflexivity|apply subseq_take; exact S].
Qed.

Lemma subseq_trim n P : n <> [] -> forall Q, (forall q, In q Q -> q <> last n 0) ->
  subseq n (P ++ Q) -> subseq n P.
Proof.
  intros Hn Q. induction Q as [|y Q IH] using rev_ind; intros HQ H.
  - rewrite app_nil_r in H. exact H.
  - rewrite app_assoc in H. apply subseq_snoc in H. destruct H as [S|(n' & E & S)].
    + apply IH; [|exact S]. intros q I. apply HQ. apply in_or_app. left. exact I.
    + exfalso. apply (HQ y); [apply in_or_app; right; left; reflexivity|].
      rewrite E. rewrite last_last. reflexivity.
Qed.

Lemma subseq_b_true_iff n h : subseq_b n h = true <-> subseq n h.
Proof. apply subseq_b_spec. Qed.

Lemma bool_eq_iff (a b : bool) : (a = true <-> b = true) -> a = b.
Proof. destruct a, b; intros [H1 H2]; auto; try (symmetry; auto). Qed.

Lemma subseq_b_trim n P l Q :
  n <> [] -> last n 0 = l -> (forall q, In q Q -> (q =? l) = false) ->
  subseq_b n (P ++ l :: Q) = subseq_b n (P ++ [l]).
Proof.
  intros Hn Hl HQ. apply bool_eq_iff. rewrite !subseq_b_true_iff.
  replace (P ++ l :: Q) with ((P ++ [l]) ++ Q) by (rewrite <- app_assoc; reflexivity).
  split.
  - apply subseq_trim; [exact Hn|]. intros q I. rewrite Hl. apply N.eqb_neq. apply HQ. exact I.
  - intros H. apply subseq_app_r. exact H.
Qed.

(* ---- position: decomposition ---------------------------------------------------------------------- *)
Lemma position_split {A} (p : A -> bool) : forall l k, position p l = Some k ->
  exists A0 x B, l = A0 ++ x :: B /\ lenN A0 = k /\ p x = true /\ (forall a, In a A0 -> p a = false).
Proof.
  induction l as [|a l IH]; intros k H; [discriminate|].
  rewrite position_cons in H. destruct (p a) eqn:Pa.
  - injection H as <-. exists [], a, l. repeat split; auto. intros a0 [].
  - destruct (position p l) as [k'|] eqn:E; [|discriminate]. injection H as <-.
    destruct (IH _ eq_refl) as (A0 & x & B & -> & L & Px & Hn).
    exists (a :: A0), x, B. repeat split; auto.
    + unfold lenN in *. cbn [length]. lia.
    + intros a0 [<-|I]; auto.
Qed.

Lemma position_none {A} (p : A -> bool) : forall l, position p l = None -> forall a, In a l -> p a = false.
Proof.
  induction l as [|a l IH]; intros H a0 I; [destruct I|].
  rewrite position_cons in H. destruct (p a) eqn:Pa; [discriminate|].
  destruct (position p l) eqn:E; [discriminate|]. destruct I as [<-|I]; auto.
Qed.

Lemma frev_rev {A} (l : list A) : frev l = rev l.
Proof. unfold frev. rewrite rev_append_rev, app_nil_r. reflexivity. Qed.

Lemma dropN_app_cons {A} (X : list A) c Y a : lenN X = a -> dropN (a + 1) (X ++ c :: Y) = Y.
Proof.
  intros <-. unfold dropN, lenN. replace (N.to_nat (N.of_nat (length X) + 1)) with (length X + 1)%nat by lia.
  rewrite skipn_app, skipn_all2 by lia. replace (length X + 1 - length X)%nat with 1%nat by lia.
  reflexivity.
Qed.

Lemma slice_mid {A} (X Y Z : list A) a b :
  lenN X = a -> b = lenN X + lenN Y -> sliceN a b (X ++ Y ++ Z) = Y.
Proof.
  intros <- ->. unfold sliceN, takeN, dropN, lenN.
  rewrite Nat2N.id, skipn_app, skipn_all2, Nat.sub_diag by lia. cbn [skipn app].
  replace (N.to_nat (N.of_nat (length X) + N.of_nat (length Y) - N.of_nat (length X))) with (length Y) by lia.
  rewrite firstn_app, firstn_all, Nat.sub_diag. cbn [firstn]. apply app_nil_r.
Qed.

(* ---- setup_loop's matched flag ------------------------------------------------------------------------ *)
Lemma setup_loop_matched cfg hr : forall hs i prev nc nrest matched,
  snd (setup_loop cfg hr hs i prev nc nrest matched)
  = matched || subseq_b (nc :: nrest) (map (norm cfg hr) hs).
Proof.
  induction hs as [|a hs IH]; intros i prev nc nrest matched.
  - cbn [setup_loop snd map]. rewrite subseq_b_cons_nil, orb_false_r. reflexivity.
  - cbn [setup_loop map]. destruct (class_norm cfg hr a) as [c k] eqn:CN.
    assert (Ec : c = norm cfg hr a) by (rewrite <- class_norm_fst, CN; reflexivity). subst c.
    rewrite subseq_b_cons. destruct (norm cfg hr a =? nc).
    + destruct nrest as [|x r].
      * specialize (IH (i + 1) k nc [] true).
        destruct (setup_loop cfg hr hs (i + 1) k nc [] true) as [[[cs' bs'] ro] m].
        cbn [snd] in *. rewrite IH. cbn [orb]. rewrite subseq_b_nil, orb_true_r. reflexivity.
      * specialize (IH (i + 1) k x r matched).
        destruct (setup_loop cfg hr hs (i + 1) k x r matched) as [[[cs' bs'] ro] m].
        cbn [snd] in *. exact IH.
    + specialize (IH (i + 1) k nc nrest matched).
      destruct (setup_loop cfg hr hs (i + 1) k nc nrest matched) as [[[cs' bs'] ro] m].
      cbn [snd] in *. exact IH.
Qed.

(* ---- fuzzy_optimal: when it answers NoMatch ---------------------------------------------------------- *)
Ltac kill_matches :=
  repeat match goal with
         | |- context [match ?x with _ => _ end] => destruct x
         end; try discriminate.

Lemma fuzzy_greedy_ascii_not_nomatch cfg h n start e : fuzzy_greedy_ cfg Ascii Ascii h n start e <> NoMatch.
Proof. unfold fuzzy_greedy_. cbv iota beta zeta. apply calculate_score_not_nomatch. Qed.

Lemma fuzzy_optimal_ascii_not_nomatch cfg h n start ge e ir :
  fuzzy_optimal cfg Ascii Ascii h n start ge e ir <> NoMatch.
Proof.
  unfold fuzzy_optimal. cbv zeta.
  destruct (slab_alloc_ok _ _ _); cbn [negb]; [|apply fuzzy_greedy_ascii_not_nomatch].
  destruct n as [|n0 [|n1 n']]; try discriminate.
  destruct (setup_loop _ _ _ _ _ _ _ _) as [[[hw bs] ro] matched].
  destruct matched; cbn [negb]; [|discriminate].
  kill_matches.
Qed.

Lemma fuzzy_optimal_uni_nomatch cfg nr h n0 n1 n' start e ir :
  start < lenN h ->
  (fuzzy_optimal cfg Unicode nr h (n0 :: n1 :: n') start (start + 1) e ir = NoMatch <->
   (if slab_alloc_ok Unicode (lenN (sliceN start e h)) (lenN (n0 :: n1 :: n'))
    then subseq_b (n0 :: n1 :: n') (map (norm cfg Unicode) (sliceN start e h))
    else subseq_b (n1 :: n') (map (norm cfg Unicode) (dropN (start + 1) h))) = false).
Proof.
  intros Hs. unfold fuzzy_optimal. cbv zeta.
  destruct (slab_alloc_ok _ _ _); cbn [negb].
  - pose proof (setup_loop_matched cfg Unicode (sliceN start e h) 0 (prev_class cfg Unicode h start)
                  n0 (n1 :: n') false) as M.
    destruct (setup_loop _ _ _ _ _ _ _ _) as [[[hw bs] ro] matched]. cbn [snd orb] in M.
    rewrite <- M. destruct matched; cbn [negb]; [|split; reflexivity].
    split; [|discriminate]. intros X. exfalso. revert X. kill_matches.
  - pose proof (fuzzy_greedy_uni cfg nr h n0 (n1 :: n') start Hs) as G.
    destruct (fuzzy_greedy_ _ _ _ _ _ _ _).
    + split; auto.
    + split; [discriminate|congruence].
    + contradiction.
Qed.

(* ---- single-character needles ------------------------------------------------------------------------- *)
Lemma best_pos_some cfg : forall cands b, best_pos cfg cands (Some b) <> None.
Proof.
  induction cands as [|[i b0] cands IH]; intros b; cbn [best_pos]; [discriminate|].
  destruct b as [j s]. destruct (s <? _).
  - destruct (max_bonus cfg <=? b0); [discriminate|apply IH].
  - apply IH.
Qed.

Lemma best_pos_none cfg cands : best_pos cfg cands None = None -> cands = [].
Proof.
  destruct cands as [|[i b] cands]; [reflexivity|]. cbn [best_pos]. intros H. exfalso. revert H.
  unfold BONUS_FIRST_CHAR_MULTIPLIER, SCORE_MATCH.
  destruct (N.ltb_spec 0 (b * 2 + 16)) as [L|L]; [|lia].
  destruct (max_bonus cfg <=? b); [discriminate|apply best_pos_some].
Qed.

Lemma scan_cands_nil cfg hr (q : N -> bool) (f : N -> N) c :
  (forall x, q x = (f x =? c)) ->
  forall hs i prev, scan_cands cfg hr (head_is q) hs i prev = [] -> subseq_b [c] (map f hs) = false.
Proof.
  intros Hq. induction hs as [|x hs IH]; intros i prev H; [reflexivity|].
  cbn [scan_cands head_is map] in *. rewrite subseq_b_cons, <- Hq.
  destruct (q x); [discriminate|]. eapply IH. exact H.
Qed.

Lemma scan_cands_cons cfg hr (q : N -> bool) (f : N -> N) c :
  (forall x, q x = (f x =? c)) ->
  forall hs i prev, scan_cands cfg hr (head_is q) hs i prev <> [] -> subseq_b [c] (map f hs) = true.
Proof.
  intros Hq. induction hs as [|x hs IH]; intros i prev H; [cbn [scan_cands] in H; congruence|].
  cbn [scan_cands head_is map] in *. rewrite subseq_b_cons, <- Hq.
  destruct (q x); [reflexivity|]. eapply IH. exact H.
Qed.

Lemma iff_nomatch (o : outcome) (b : bool) :
  (o = NoMatch -> b = false) -> (o <> NoMatch -> b = true) -> (o = NoMatch <-> b = false).
Proof.
  intros H1 H2. split; [exact H1|]. intros Hb. destruct o; try reflexivity;
    (rewrite H2 in Hb by discriminate; discriminate).
Qed.

Lemma substring_1_ascii_spec cfg h c :
  norm cfg Ascii c = c ->
  (substring_1_ascii cfg h c = NoMatch <-> subseq_b [c] (map (norm cfg Ascii) h) = false).
Proof.
  intros Hc. unfold substring_1_ascii.
  assert (Hq : forall x, byte_matches (ignore_case cfg) c x = (norm cfg Ascii x =? c))
    by (intros x; apply byte_matches_norm; exact Hc).
  destruct (best_pos _ _ _) as [[i s]|] eqn:B.
  - apply iff_nomatch; [discriminate|]. intros _.
    eapply (scan_cands_cons cfg Ascii _ _ c Hq h 0 (init_class cfg)).
    intros E. rewrite E in B. discriminate.
  - apply iff_nomatch; [|congruence]. intros _. apply best_pos_none in B.
    eapply scan_cands_nil; [exact Hq|exact B].
Qed.

(* ---- prefilter_non_ascii in full mode ------------------------------------------------------------------ *)
Lemma prefilter_non_ascii_full cfg h n0 n1 n' :
  lenN (n0 :: n1 :: n') <= lenN h ->
  match prefilter_non_ascii cfg h (n0 :: n1 :: n') false with
  | None => subseq_b (n0 :: n1 :: n') (map (norm cfg Unicode) h) = false
  | Some (start, e) =>
    start < lenN h /\ e <= lenN h /\ lenN (n0 :: n1 :: n') <= e - start /\
    subseq_b (n0 :: n1 :: n') (map (norm cfg Unicode) h)
    = subseq_b (n1 :: n') (map (norm cfg Unicode) (dropN (start + 1) h)) /\
    subseq_b (n0 :: n1 :: n') (map (norm cfg Unicode) h)
    = subseq_b (n0 :: n1 :: n') (map (norm cfg Unicode) (sliceN start e h))
  end.
Proof.
  intros L. unfold prefilter_non_ascii. set (f := norm cfg Unicode).
  destruct (position _ (takeN _ _)) as [start|] eqn:P; [|apply window_none; assumption].
  destruct (window_some f n0 (n1 :: n') h _ _ P) as (E & L1 & L2).
  unfold takeN in P. apply position_take_some in P.
  destruct (position_split _ _ _ P) as (A & c0 & B & Eh & LA & Pc0 & _).
  assert (ED : dropN (start + 1) h = B) by (rewrite Eh; apply dropN_app_cons; exact LA).
  rewrite ED in E. rewrite ED.
  assert (Hl : lastN (n0 :: n1 :: n') = last (n1 :: n') 0) by reflexivity.
  destruct (position _ (frev B)) as [k|] eqn:P2.
  - destruct (position_split _ _ _ P2) as (A2 & x & B2 & EB & LA2 & Px & HA2).
    rewrite frev_rev in EB.
    assert (EB' : B = rev B2 ++ x :: rev A2).
    { rewrite <- (rev_involutive B), EB, rev_app_distr. cbn [rev]. rewrite <- app_assoc. reflexivity. }
    apply N.eqb_eq in Px. rewrite Hl in Px.
    assert (HQ : forall q, In q (map f (rev A2)) -> (q =? last (n1 :: n') 0) = false).
    { intros q I. apply in_map_iff in I. destruct I as (a & <- & I). apply in_rev in I.
      specialize (HA2 a I). cbv beta in HA2. rewrite Hl in HA2. exact HA2. }
    assert (T : subseq_b (n1 :: n') (map f B) = subseq_b (n1 :: n') (map f (rev B2 ++ [x]))).
    { rewrite EB', !map_app. cbn [map]. rewrite Px.
      apply subseq_b_trim; [discriminate|reflexivity|exact HQ]. }
    assert (Lh : lenN h = start + 1 + lenN (rev B2) + 1 + k).
    { rewrite Eh, EB'. unfold lenN in *. rewrite !app_length. cbn [length]. rewrite app_length. cbn [length].
      rewrite (rev_length A2). lia. }
    assert (Sl : sliceN start (lenN h - k) h = c0 :: rev B2 ++ [x]).
    { rewrite Eh at 2. rewrite EB'.
      replace (A ++ c0 :: rev B2 ++ x :: rev A2) with (A ++ (c0 :: rev B2 ++ [x]) ++ rev A2)
        by (cbn [app]; rewrite <- app_assoc; reflexivity).
      apply slice_mid; [exact LA|]. rewrite Lh, LA. unfold lenN. cbn [length]. rewrite app_length.
      cbn [length]. lia. }
    destruct (N.ltb_spec (lenN h - k - start) (lenN (n0 :: n1 :: n'))) as [C|C].
    + rewrite E, T. apply subseq_b_short. rewrite map_length.
      unfold lenN in *. cbn [length] in *. rewrite app_length in *. cbn [length] in *. lia.
    + rewrite ED. split; [exact L1|]. split; [lia|]. split; [lia|]. split; [exact E|].
      rewrite Sl. cbn [map]. rewrite subseq_b_cons. fold f. rewrite Pc0. rewrite E. exact T.
  - rewrite E. destruct (subseq_b (n1 :: n') (map f B)) eqn:S; [|reflexivity]. exfalso.
    apply subseq_b_true_iff in S.
    assert (I : In (last (n1 :: n') 0) (map f B)).
    { apply (subseq_in _ _ S). clear. generalize n1. induction n' as [|y n' IH]; intros z.
      - left. reflexivity.
      - right. apply IH. }
    apply in_map_iff in I. destruct I as (a & Ea & I).
    pose proof (position_none _ _ P2 a) as Z. cbv beta in Z. rewrite Hl, Ea, N.eqb_refl in Z.
    rewrite frev_rev in Z. specialize (Z (proj1 (in_rev B a) I)). discriminate.
Qed.

Lemma C01_fuzzy_reject : C01_fuzzy_reject_stmt.
Proof.
  unfold C01_fuzzy_reject_stmt, normalised_subseq, nh, known_K1.
  intros cfg [hr h] [nr n] _ _ Hok K. cbn [rp cs] in *.
  unfold run, fuzzy_impl. cbn [rp cs].
  destruct (N.ltb_spec (lenN h) (lenN n)) as [L|L].
  { split; [intros _|reflexivity]. apply subseq_b_short. rewrite map_length. unfold lenN in L. lia. }
  destruct n as [|n0 nrest]; [split; discriminate|].
  destruct (N.eqb_spec (lenN (n0 :: nrest)) (lenN h)) as [E|NE].
  { pose proof (exact_full_spec cfg hr nr h (n0 :: nrest) K Hok ltac:(discriminate) E) as X.
    destruct (exact_impl _ _ _ _ _).
    - split; auto.
    - split; [discriminate|congruence].
    - contradiction. }
  destruct hr; [destruct nr|].
  - (* bytes / bytes *)
    destruct nrest as [|n1 n'].
    + apply substring_1_ascii_spec. apply (needle_ok_in cfg Ascii _ _ Hok). left. reflexivity.
    + pose proof (prefilter_ascii_spec cfg h n0 (n1 :: n') false L Hok) as P.
      destruct (prefilter_ascii _ _ _ _) as [[[start ge] e]|]; [|split; auto].
      destruct P as [S Ls]. apply iff_nomatch; [|intros _; exact S]. intros X. exfalso. revert X.
      destruct (lenN (n0 :: n1 :: n') =? e - start).
      * apply calculate_score_not_nomatch.
      * apply fuzzy_optimal_ascii_not_nomatch.
  - exfalso. apply K. split; reflexivity.
  - (* code points *)
    destruct nrest as [|n1 n'].
    + pose proof (prefilter_non_ascii_greedy cfg h n0 [] L) as P.
      destruct (prefilter_non_ascii _ _ _ _) as [[start e]|]; [|split; auto].
      destruct P as [Ls S]. rewrite subseq_b_nil in S.
      apply iff_nomatch; [|intros _; exact S]. intros X. exfalso. revert X.
      unfold substring_1_non_ascii. destruct (best_pos _ _ _) as [[i s]|]; discriminate.
    + pose proof (prefilter_non_ascii_full cfg h n0 n1 n' L) as P.
      destruct (prefilter_non_ascii _ _ _ _) as [[start e]|]; [|split; auto].
      destruct P as (Ls & Le & Lw & S1 & S2).
      destruct (N.eqb_spec (lenN (n0 :: n1 :: n')) (e - start)) as [EL|NEL].
      * pose proof (exact_impl_spec cfg Unicode nr h (n0 :: n1 :: n') start e K Hok
                      ltac:(discriminate) EL Le) as X.
        assert (LL : length (n0 :: n1 :: n') = length (map (norm cfg Unicode) (sliceN start e h))).
        { rewrite map_length. pose proof (lenN_slice h start e Le) as Q. unfold lenN in *. lia. }
        rewrite S2. destruct (exact_impl _ _ _ _ _).
        -- split; [intros _|reflexivity].
           destruct (subseq_b (n0 :: n1 :: n') (map (norm cfg Unicode) (sliceN start e h))) eqn:SB;
             [|reflexivity].
           apply subseq_b_same_len in SB; [contradiction|exact LL].
        -- split; [discriminate|]. intros SB. exfalso.
           rewrite (proj2 (subseq_b_same_len _ _ LL) X) in SB. discriminate.
        -- contradiction.
      * rewrite (fuzzy_optimal_uni_nomatch cfg nr h n0 n1 n' start e [] Ls).
        destruct (slab_alloc_ok _ _ _); [rewrite S2|rewrite S1]; reflexivity.
Qed.

Print Assumptions subseq_b_spec.
Print Assumptions C01_greedy_decision.
Print Assumptions C01_repr_indep.
Print Assumptions C01_fuzzy_reject.
