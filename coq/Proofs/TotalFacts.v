(* C10 (totality): no entry point of `run` ever answers Panicked, for any of the six algorithms. *)
From Coq Require Import ZArith NArith List Bool Lia ZifyBool ZifyN ZifyNat.
From NV Require Import Base.Util Model.Chars Model.Matcher Spec.Matching Spec.Statements Proofs.CharsFacts.
From NV Require Proofs.C01Facts Proofs.C05Facts Proofs.WitnessFacts Proofs.DPFacts.
Import ListNotations.
Local Open Scope N_scope.

(* ---- calculate_score / exact_impl ------------------------------------------------------------------- *)
Lemma calc_np cfg hr h n st e k : n <> [] -> st < lenN h -> calculate_score cfg hr h n st e <> Panicked k.
Proof. exact (DPFacts.calc_np cfg hr h n st e k). Qed.

Lemma exact_impl_np cfg hs ns st e k :
  cs ns <> [] -> st < lenN (cs hs) -> exact_impl cfg hs ns st e <> Panicked k.
Proof. exact (DPFacts.exact_impl_np cfg hs ns st e k). Qed.

(* ---- leading / trailing whitespace counts cannot overlap --------------------------------------------- *)
Lemma position_rev_bound {A} (p : A -> bool) (d : A) l k j :
  position p l = Some k -> position p (frev l) = Some j -> k + j + 1 <= lenN l.
Proof.
  intros Hk Hj. destruct (C05Facts.position_some p d l k Hk) as [Lk Pk].
  rewrite C05Facts.frev_rev in Hj.
  destruct (C05Facts.position_le p d (rev l) (length l - 1 - N.to_nat k)%nat) as (j' & Hj' & Lj').
  - rewrite rev_length. lia.
  - rewrite rev_nth by lia. replace (length l - S (length l - 1 - N.to_nat k))%nat with (N.to_nat k) by lia.
    exact Pk.
  - rewrite Hj in Hj'. injection Hj' as <-. unfold lenN. lia.
Qed.

Lemma position_lt {A} (p : A -> bool) l k : position p l = Some k -> k < lenN l.
Proof.
  revert k. induction l as [|x l IH]; intros k H; cbn [position] in H; [discriminate|].
  unfold lenN in *. cbn [length]. destruct (p x).
  - injection H as <-. lia.
  - destruct (position p l) as [k'|]; [|discriminate]. injection H as <-.
    specialize (IH k' eq_refl). lia.
Qed.

Lemma ws_bound hs :
  leading_ws hs + trailing_ws hs <= lenN (cs hs) /\ (lenN (cs hs) <> 0 -> leading_ws hs < lenN (cs hs)).
Proof.
  unfold leading_ws, trailing_ws.
  destruct (position _ (cs hs)) as [k|] eqn:Ek; destruct (position _ (frev (cs hs))) as [j|] eqn:Ej.
  - pose proof (position_rev_bound _ 0 _ _ _ Ek Ej). pose proof (position_lt _ _ _ Ek). lia.
  - pose proof (position_lt _ _ _ Ek). lia.
  - pose proof (position_lt _ _ _ Ej) as H. rewrite C05Facts.lenN_frev in H. lia.
  - lia.
Qed.

(* ---- the entry points ---------------------------------------------------------------------------------- *)
Lemma exact_entry_np cfg hs ns k : exact_entry cfg hs ns <> Panicked k.
Proof.
  unfold exact_entry. destruct (cs ns) as [|n0 nrest] eqn:En; [discriminate|].
  destruct (ws_bound hs) as [B1 B2].
  set (lead := if char_is_ws n0 then 0 else leading_ws hs).
  set (trail := if char_is_ws (lastN (n0 :: nrest)) then 0 else trailing_ws hs).
  assert (L1 : lead <= leading_ws hs) by (unfold lead; destruct (char_is_ws n0); lia).
  assert (L2 : trail <= trailing_ws hs) by (unfold trail; destruct (char_is_ws (lastN (n0 :: nrest))); lia).
  destruct (N.eqb_spec trail (lenN (cs hs))) as [E|NE]; [discriminate|].
  destruct (N.ltb_spec (lenN (cs hs) - trail) lead) as [C|C]; [lia|].
  apply exact_impl_np; [rewrite En; discriminate|lia].
Qed.

Lemma prefix_entry_np cfg hs ns k : prefix_entry cfg hs ns <> Panicked k.
Proof.
  unfold prefix_entry. destruct (cs ns) as [|n0 nrest] eqn:En; [discriminate|].
  set (lead := if char_is_ws n0 then 0 else leading_ws hs).
  destruct (N.ltb_spec (lenN (cs hs) - lead) (lenN (n0 :: nrest))) as [C|C]; [discriminate|].
  apply exact_impl_np; [rewrite En; discriminate|]. unfold lenN in *. cbn [length] in *. lia.
Qed.

Lemma postfix_entry_np cfg hs ns k : postfix_entry cfg hs ns <> Panicked k.
Proof.
  unfold postfix_entry. destruct (cs ns) as [|n0 nrest] eqn:En; [discriminate|].
  set (trail := if char_is_ws (lastN (n0 :: nrest)) then 0 else trailing_ws hs).
  destruct (N.ltb_spec (lenN (cs hs) - trail) (lenN (n0 :: nrest))) as [C|C]; [discriminate|].
  apply exact_impl_np; [rewrite En; discriminate|]. unfold lenN in *. cbn [length] in *. lia.
Qed.

Lemma cands_lt cfg hr p h start prev i sc :
  best_pos cfg (scan_cands cfg hr p (dropN start h) start prev) None = Some (i, sc) -> i < lenN h.
Proof. intros H. apply WitnessFacts.cands_found in H. destruct H as [H _]. unfold lenN. lia. Qed.

Lemma substring_impl_np cfg hs ns k : substring_impl cfg hs ns <> Panicked k.
Proof.
  unfold substring_impl.
  destruct (N.ltb_spec (lenN (cs hs)) (lenN (cs ns))) as [L|L]; [discriminate|].
  destruct (cs ns) as [|n0 nrest] eqn:En; [discriminate|].
  destruct (N.eqb_spec (lenN (n0 :: nrest)) (lenN (cs hs))) as [EL|NEL].
  { apply exact_impl_np; [rewrite En; discriminate|]. unfold lenN in *. cbn [length] in *. lia. }
  destruct (rp hs); [destruct (rp ns); [|discriminate]|].
  - destruct nrest as [|n1 n'].
    + unfold substring_1_ascii. destruct (best_pos _ _ _) as [[i s]|]; discriminate.
    + unfold substring_ascii.
      destruct (best_pos _ _ _) as [[i s]|] eqn:Eb; [|discriminate].
      apply calc_np; [discriminate|].
      apply (cands_lt cfg Ascii (prefix_match cfg Ascii (n0 :: n1 :: n')) (cs hs) 0 (init_class cfg) i s).
      exact Eb.
  - destruct nrest as [|n1 n'].
    + destruct (prefilter_non_ascii _ _ _ _) as [[start e]|]; [|discriminate].
      unfold substring_1_non_ascii. destruct (best_pos _ _ _) as [[i s]|]; discriminate.
    + destruct (prefilter_non_ascii _ _ _ _) as [[start e]|]; [|discriminate].
      unfold substring_non_ascii.
      destruct (best_pos _ _ _) as [[i s]|] eqn:Eb; [|discriminate].
      apply calc_np; [discriminate|]. eapply cands_lt. exact Eb.
Qed.

Lemma fuzzy_greedy_impl_np cfg hs ns k :
  needle_ok cfg (rp ns) (cs ns) = true -> fuzzy_greedy_impl cfg hs ns <> Panicked k.
Proof.
  intros Hok. unfold fuzzy_greedy_impl.
  destruct (N.ltb_spec (lenN (cs hs)) (lenN (cs ns))) as [L|L]; [discriminate|].
  destruct (cs ns) as [|n0 nrest] eqn:En; [discriminate|].
  destruct (N.eqb_spec (lenN (n0 :: nrest)) (lenN (cs hs))) as [EL|NEL].
  { apply exact_impl_np; [rewrite En; discriminate|]. unfold lenN in *. cbn [length] in *. lia. }
  destruct (rp hs); [destruct (rp ns); [|discriminate]|].
  - pose proof (C01Facts.prefilter_ascii_spec cfg (cs hs) n0 nrest true L Hok) as P.
    destruct (prefilter_ascii _ _ _ _) as [[[start ge] e]|]; [|discriminate]. destruct P as [_ Ls].
    destruct (lenN (n0 :: nrest) =? ge - start).
    + apply calc_np; [discriminate|exact Ls].
    + destruct (C01Facts.fuzzy_greedy_ascii_match cfg (cs hs) (n0 :: nrest) start ge) as (s & idx & C);
        [discriminate|exact Ls|]. rewrite C. discriminate.
  - pose proof (C01Facts.prefilter_non_ascii_greedy cfg (cs hs) n0 nrest L) as P.
    destruct (prefilter_non_ascii _ _ _ _) as [[start e]|]; [|discriminate]. destruct P as [Ls _].
    pose proof (C01Facts.fuzzy_greedy_uni cfg (rp ns) (cs hs) n0 nrest start Ls) as G.
    destruct (fuzzy_greedy_ _ _ _ _ _ _ _); [discriminate|discriminate|destruct G].
Qed.

(* ---- C10 --------------------------------------------------------------------------------------------------- *)
Lemma C10_total : C10_total_stmt.
Proof.
  unfold C10_total_stmt. intros cfg a hs ns k Hok. destruct a; unfold run.
  - apply DPFacts.DP_no_panic. exact Hok.
  - apply fuzzy_greedy_impl_np. exact Hok.
  - apply substring_impl_np.
  - apply prefix_entry_np.
  - apply postfix_entry_np.
  - apply exact_entry_np.
Qed.

Print Assumptions C10_total.
