(* The DP (fuzzy_optimal) through the entry point fuzzy_impl: no panic, history independence, valid witness.
   Auxiliary developments: Proofs/DPBase.v (list plumbing, history core, setup_loop), Proofs/DPRow.v (the two
   loops of score_row), Proofs/DPInv.v (row invariant, populate), Proofs/DPWalk.v (argmax, reconstruct),
   Proofs/DPCoreW.v (the DP branch of fuzzy_optimal). *)
From Coq Require Import ZArith NArith List Bool Lia ZifyBool ZifyN ZifyNat.
From NV Require Import Base.Util Model.Chars Model.Matcher Spec.Matching Spec.Statements Proofs.CharsFacts.
From NV Require Proofs.C01Facts Proofs.WitnessFacts.
From NV Require Import Proofs.DPBase Proofs.DPCoreW.
Import ListNotations.
Local Open Scope N_scope.

Notation mtf := WitnessFacts.mt.

(* ---- the prefilters hand over a window whose first character matches ---------------------------------- *)
Lemma prefilter_ascii_full cfg h n0 nrest start ge e :
  needle_ok cfg Ascii (n0 :: nrest) = true ->
  prefilter_ascii cfg h (n0 :: nrest) false = Some (start, ge, e) ->
  exists c0 rest k, skipn (N.to_nat start) h = c0 :: rest /\ norm cfg Ascii c0 = n0 /\
    scan_fwd (mtf cfg Ascii) nrest rest = Some k /\ ge = start + 1 + k /\ ge <= e.
Proof.
  intros Hok. unfold prefilter_ascii, takeN.
  destruct (position _ _) as [st|] eqn:Ep; [|discriminate].
  apply WitnessFacts.position_firstn in Ep. destruct Ep as (c0 & rest & Hsk & Hm).
  rewrite WitnessFacts.byte_matches_norm in Hm by (apply (WitnessFacts.needle_ok_in _ _ _ _ Hok); left; reflexivity).
  apply N.eqb_eq in Hm.
  destruct (WitnessFacts.skipn_cons_inv _ _ _ _ Hsk) as (_ & _ & Hsk').
  unfold dropN at 1. replace (N.to_nat (st + 1)) with (S (N.to_nat st)) by lia. rewrite Hsk'.
  rewrite (WitnessFacts.scan_fwd_ext _ (mtf cfg Ascii)).
  2:{ intros nc x Hin. unfold WitnessFacts.mt. apply WitnessFacts.byte_matches_norm.
      apply (WitnessFacts.needle_ok_in _ _ _ _ Hok). right. exact Hin. }
  destruct (scan_fwd _ _ _) as [k|] eqn:Hfw; [|discriminate].
  intros H. injection H as <- <- <-. exists c0, rest, k. repeat split; try assumption. lia.
Qed.

Lemma slice_head {A} (h : list A) start e c0 rest :
  skipn (N.to_nat start) h = c0 :: rest -> start < e ->
  sliceN start e h = c0 :: firstn (N.to_nat (e - start - 1)) rest.
Proof.
  intros Hsk He. unfold sliceN, takeN, dropN. rewrite Hsk.
  replace (N.to_nat (e - start)) with (S (N.to_nat (e - start - 1))) by lia. reflexivity.
Qed.

Lemma ascii_window_matched cfg h n0 nrest start e c0 rest k pc :
  skipn (N.to_nat start) h = c0 :: rest -> norm cfg Ascii c0 = n0 ->
  scan_fwd (mtf cfg Ascii) nrest rest = Some k -> start + 1 + k <= e ->
  snd (setup_loop cfg Ascii (sliceN start e h) 0 pc n0 nrest false) = true.
Proof.
  intros Hsk Hc Hfw He. rewrite C01Facts.setup_loop_matched. cbn [orb].
  rewrite (slice_head h start e c0 rest Hsk) by lia. cbn [map]. rewrite C01Facts.subseq_b_cons, Hc, N.eqb_refl.
  set (K := N.to_nat (e - start - 1)).
  pose proof (WitnessFacts.scan_fwd_firstn _ _ _ _ Hfw) as H1.
  assert (E : firstn K rest = firstn (N.to_nat k) rest ++ skipn (N.to_nat k) (firstn K rest)).
  { rewrite <- (firstn_skipn (N.to_nat k) (firstn K rest)) at 1. f_equal.
    rewrite firstn_firstn. f_equal. unfold K. lia. }
  rewrite E. apply (WitnessFacts.scan_fwd_app _ _ _ (skipn (N.to_nat k) (firstn K rest))) in H1.
  rewrite <- (C01Facts.scan_fwd_subseq (norm cfg Ascii) (mtf cfg Ascii) nrest); [rewrite H1; reflexivity|].
  intros nc _ x. reflexivity.
Qed.

(* ---- fuzzy_optimal behind either prefilter -------------------------------------------------------------- *)
Definition good_outcome (cfg : config) (hr : repr) (h n : list N) (o : outcome) : Prop :=
  match o with
  | Match _ idx => embedding_b idx n (nh cfg hr h) 0 = true
  | NoMatch => True
  | Panicked _ => False
  end.

Lemma fuzzy_optimal_ascii cfg h n0 n1 n' start ge e ir :
  needle_ok cfg Ascii (n0 :: n1 :: n') = true ->
  prefilter_ascii cfg h (n0 :: n1 :: n') false = Some (start, ge, e) ->
  good_outcome cfg Ascii h (n0 :: n1 :: n') (fuzzy_optimal cfg Ascii Ascii h (n0 :: n1 :: n') start ge e ir).
Proof.
  intros Hok Hpf.
  destruct (prefilter_ascii_full _ _ _ _ _ _ _ Hok Hpf) as (c0 & rest & k & Hsk & Hc & Hfw & -> & He).
  destruct (slab_alloc_ok Ascii (lenN (sliceN start e h)) (lenN (n0 :: n1 :: n'))) eqn:Eslab.
  - destruct (fuzzy_optimal_dp cfg Ascii Ascii h n0 n1 n' start (start + 1 + k) e ir c0
               (firstn (N.to_nat (e - start - 1)) rest)) as (s & idx & E & Hemb).
    + apply slice_head; [exact Hsk|lia].
    + exact Hc.
    + exact Eslab.
    + eapply ascii_window_matched; eassumption.
    + rewrite E. exact Hemb.
  - unfold fuzzy_optimal. cbv zeta. rewrite Eslab. cbn [negb].
    destruct (WitnessFacts.skipn_cons_inv _ _ _ _ Hsk) as (Hlt & _ & _).
    destruct (C01Facts.fuzzy_greedy_ascii_match cfg h (n0 :: n1 :: n') start (start + 1 + k)) as (s & idx & E);
      [discriminate|unfold lenN; lia|].
    rewrite E. cbn [good_outcome]. eapply WitnessFacts.fuzzy_greedy_ascii; eassumption.
Qed.

Lemma fuzzy_optimal_unicode cfg nr h n0 n1 n' start e ir :
  lenN (n0 :: n1 :: n') <= lenN h ->
  prefilter_non_ascii cfg h (n0 :: n1 :: n') false = Some (start, e) ->
  good_outcome cfg Unicode h (n0 :: n1 :: n')
    (fuzzy_optimal cfg Unicode nr h (n0 :: n1 :: n') start (start + 1) e ir).
Proof.
  intros Hlen Hpf.
  destruct (WitnessFacts.prefilter_non_ascii_start _ _ _ _ _ _ _ Hpf) as (c0 & rest & Hsk & Hc).
  pose proof (C01Facts.prefilter_non_ascii_full cfg h n0 n1 n' Hlen) as Hfull. rewrite Hpf in Hfull.
  destruct Hfull as (Ls & Le & Lw & _).
  destruct (slab_alloc_ok Unicode (lenN (sliceN start e h)) (lenN (n0 :: n1 :: n'))) eqn:Eslab.
  - destruct (snd (setup_loop cfg Unicode (sliceN start e h) 0 (prev_class cfg Unicode h start) n0 (n1 :: n') false))
      eqn:Em.
    + destruct (fuzzy_optimal_dp cfg Unicode nr h n0 n1 n' start (start + 1) e ir c0
                 (firstn (N.to_nat (e - start - 1)) rest)) as (s & idx & E & Hemb).
      * apply slice_head; [exact Hsk|]. unfold lenN in *. cbn [length] in *. lia.
      * exact Hc.
      * exact Eslab.
      * exact Em.
      * rewrite E. exact Hemb.
    + unfold fuzzy_optimal. cbv zeta. rewrite Eslab. cbn [negb].
      destruct (setup_loop cfg Unicode (sliceN start e h) 0 (prev_class cfg Unicode h start) n0 (n1 :: n') false)
        as [[[hw bs] ro] matched]. cbn [snd] in Em. subst matched. cbn [negb]. destruct nr; exact I.
  - unfold fuzzy_optimal. cbv zeta. rewrite Eslab. cbn [negb].
    pose proof (C01Facts.fuzzy_greedy_uni cfg nr h n0 (n1 :: n') start Ls) as Hg.
    destruct (fuzzy_greedy_ cfg Unicode nr h (n0 :: n1 :: n') start (start + 1)) as [|s idx|k] eqn:E;
      cbn [good_outcome]; [exact I| |exact Hg].
    eapply WitnessFacts.fuzzy_greedy_unicode; eassumption.
Qed.

(* ---- the other branches of fuzzy_impl ------------------------------------------------------------------- *)
Lemma calc_np cfg hr h n st e k : n <> [] -> st < lenN h -> calculate_score cfg hr h n st e <> Panicked k.
Proof.
  intros Hn Hs E. destruct (C01Facts.calculate_score_match cfg hr h n st e Hn Hs) as (s & idx & E'). congruence.
Qed.

Lemma exact_impl_np cfg hs ns st e k : cs ns <> [] -> st < lenN (cs hs) -> exact_impl cfg hs ns st e <> Panicked k.
Proof.
  intros Hn Hs. unfold exact_impl. destruct (negb _); [discriminate|].
  destruct (rp hs), (rp ns); try discriminate;
    match goal with |- (if ?c then _ else _) <> _ => destruct c; [apply calc_np; assumption|discriminate] end.
Qed.

Lemma exact_impl_good cfg hs ns st e :
  needle_ok cfg (rp ns) (cs ns) = true -> cs ns <> [] -> st < lenN (cs hs) ->
  good_outcome cfg (rp hs) (cs hs) (cs ns) (exact_impl cfg hs ns st e).
Proof.
  intros Hok Hn Hs. destruct (exact_impl cfg hs ns st e) as [|s idx|k] eqn:E; cbn [good_outcome].
  - exact I.
  - destruct (WitnessFacts.exact_impl_spec _ _ _ _ _ _ _ Hok Hn E) as (Ho & -> & _).
    apply WitnessFacts.shape_embedding. exact Ho.
  - exact (exact_impl_np cfg hs ns st e k Hn Hs E).
Qed.

Lemma fuzzy_impl_good cfg hs ns ir :
  needle_ok cfg (rp ns) (cs ns) = true ->
  good_outcome cfg (rp hs) (cs hs) (cs ns) (fuzzy_impl cfg hs ns ir).
Proof.
  intros Hok. unfold fuzzy_impl.
  destruct (N.ltb_spec (lenN (cs hs)) (lenN (cs ns))) as [L|L]; [exact I|].
  destruct (cs ns) as [|n0 nrest] eqn:En; [reflexivity|].
  destruct (N.eqb_spec (lenN (n0 :: nrest)) (lenN (cs hs))) as [EL|NEL].
  { rewrite <- En. apply exact_impl_good; rewrite ?En; [exact Hok|discriminate|].
    unfold lenN in *. cbn [length] in *. lia. }
  destruct (rp hs) eqn:Ehr; [destruct (rp ns) eqn:Enr; [|exact I]|].
  - (* bytes / bytes *)
    destruct nrest as [|n1 n'].
    + unfold substring_1_ascii. destruct (best_pos _ _ _) as [[i sc]|] eqn:Eb; [|exact I].
      cbn [good_outcome].
      apply (WitnessFacts.shape_embedding cfg Ascii (cs hs) [n0] i).
      refine (WitnessFacts.cands_head cfg Ascii (cs hs) _ n0 0 _ i sc _ Eb).
      intros x Hx. rewrite WitnessFacts.byte_matches_norm in Hx; [apply N.eqb_eq, Hx|].
      apply (WitnessFacts.needle_ok_in _ _ _ _ Hok). left. reflexivity.
    + destruct (prefilter_ascii cfg (cs hs) (n0 :: n1 :: n') false) as [[[start ge] e]|] eqn:Epf; [|exact I].
      destruct (lenN (n0 :: n1 :: n') =? e - start).
      * destruct (prefilter_ascii_full _ _ _ _ _ _ _ Hok Epf) as (c0 & rest & k & Hsk & Hc & Hfw & -> & He).
        destruct (WitnessFacts.skipn_cons_inv _ _ _ _ Hsk) as (Hlt & _ & _).
        destruct (C01Facts.calculate_score_match cfg Ascii (cs hs) (n0 :: n1 :: n') start (start + 1 + k))
          as (s & idx & E); [discriminate|unfold lenN; lia|].
        rewrite E. cbn [good_outcome].
        replace start with (start + 0) in E at 1 by lia.
        apply (WitnessFacts.calc_greedy_window cfg Ascii (cs hs) n0 (n1 :: n') start c0 rest k 0 c0 rest s idx);
          try assumption.
        -- reflexivity.
        -- lia.
        -- rewrite N.sub_0_r. apply WitnessFacts.scan_fwd_firstn. exact Hfw.
      * apply fuzzy_optimal_ascii; assumption.
  - (* code points *)
    destruct nrest as [|n1 n'].
    + destruct (prefilter_non_ascii cfg (cs hs) [n0] true) as [[start e]|] eqn:Epf; [|exact I].
      unfold substring_1_non_ascii. destruct (best_pos _ _ _) as [[i sc]|] eqn:Eb; cbn [good_outcome].
      * apply (WitnessFacts.shape_embedding cfg Unicode (cs hs) [n0] i).
        refine (WitnessFacts.cands_head cfg Unicode (cs hs) _ n0 start _ i sc _ Eb).
        intros x Hx. apply N.eqb_eq in Hx. rewrite class_norm_fst in Hx. exact Hx.
      * apply (WitnessFacts.shape_embedding cfg Unicode (cs hs) [n0] start).
        apply WitnessFacts.prefilter_non_ascii_start in Epf. destruct Epf as (x & rest & E1 & E2).
        eapply WitnessFacts.occurs_single; eassumption.
    + destruct (prefilter_non_ascii cfg (cs hs) (n0 :: n1 :: n') false) as [[start e]|] eqn:Epf; [|exact I].
      destruct (lenN (n0 :: n1 :: n') =? e - start).
      * pose proof (C01Facts.prefilter_non_ascii_full cfg (cs hs) n0 n1 n' L) as Hfull. rewrite Epf in Hfull.
        destruct Hfull as (Ls & _).
        pose proof (exact_impl_good cfg hs ns start e) as X. rewrite Ehr, En in X.
        apply X; [exact Hok|discriminate|exact Ls].
      * apply fuzzy_optimal_unicode; assumption.
Qed.

(* ---- history independence of fuzzy_optimal -------------------------------------------------------------- *)
Lemma last_nth_len {A} (d : A) : forall l, l <> [] -> last l d = nth (length l - 1) l d.
Proof.
  induction l as [|x l IH]; intros H; [congruence|]. destruct l as [|y l']; [reflexivity|].
  change (last (x :: y :: l') d) with (last (y :: l') d). rewrite IH by discriminate.
  cbn [length]. replace (S (S (length l')) - 1)%nat with (S (S (length l') - 1)) by lia. reflexivity.
Qed.

Lemma fuzzy_optimal_hist cfg hr nr h n start ge e r1 r2 :
  fuzzy_optimal cfg hr nr h n start ge e r1 = fuzzy_optimal cfg hr nr h n start ge e r2.
Proof.
  unfold fuzzy_optimal. cbv zeta. destruct (negb (slab_alloc_ok _ _ _)); [reflexivity|].
  destruct n as [|n0 [|n1 n']]; try reflexivity.
  destruct (setup_loop cfg hr (sliceN start e h) 0 (prev_class cfg hr h start) n0 (n1 :: n') false)
    as [[[hw bs] ro] matched] eqn:Es.
  destruct matched; cbn [negb]; [|reflexivity].
  destruct (setup_loop_spec _ _ _ _ _ _ _ _ _ _ _ _ Es) as (S1 & S2 & _ & S4 & _).
  specialize (S4 eq_refl eq_refl). destruct (embP_facts hw _ _ _ S4) as [L F].
  set (n := n0 :: n1 :: n') in *. set (w := sliceN start e h) in *.
  assert (Lw : length hw = length w) by (rewrite S1; apply map_length).
  assert (Ln : length n = S (S (length n'))) by reflexivity.
  destruct (F 0%nat ltac:(lia)) as (_ & F0 & _).
  destruct (F 1%nat ltac:(lia)) as (_ & F1 & _).
  set (wd := lenN w + 1 - lenN n).
  set (row1 := takeN wd (r1 ++ repeat ZERO_CELL (N.to_nat wd))).
  set (row2 := takeN wd (r2 ++ repeat ZERO_CELL (N.to_nat wd))).
  assert (L1 : length row1 = N.to_nat wd) by (unfold row1; rewrite length_takeN, app_length, repeat_length; lia).
  assert (L2 : length row2 = N.to_nat wd) by (unfold row2; rewrite length_takeN, app_length, repeat_length; lia).
  pose proof (score_row_hist true row1 row2 hw bs 0 (nthN ro 1 0) 0 n0 n1 (prefix_bonus_dp cfg start)) as H.
  cbv iota in H. specialize (H ltac:(lia)).
  assert (Hpre : ((length row1 < length hw)%nat /\ (N.to_nat (nthN ro 1 0%N - 1) < length hw)%nat) /\
                 length bs = length hw /\ 0 = 0 /\ 0 = 0).
  { unfold nthN. change (N.to_nat 1) with 1%nat. unfold wd, lenN in *. rewrite Ln in *.
    repeat split; lia. }
  specialize (H Hpre).
  destruct (score_row true row1 hw bs 0 (nthN ro 1 0) 0 n0 n1 (prefix_bonus_dp cfg start)) as [[a1 c1]|],
           (score_row true row2 hw bs 0 (nthN ro 1 0) 0 n0 n1 (prefix_bonus_dp cfg start)) as [[a2 c2]|];
    try contradiction; [|reflexivity].
  destruct H as (-> & La & Da).
  pose proof (populate_hist hw bs (n1 :: n') (tl ro) 1 a1 a2 La) as P.
  assert (Ltl : length (n1 :: n') = length (tl ro)).
  { destruct ro as [|x ro']; [discriminate|]. cbn [tl length] in *. lia. }
  specialize (P Ltl).
  assert (Ehd : hd 0 (tl ro) = nthN ro 1 0).
  { destruct ro as [|x [|y ro']]; try discriminate. reflexivity. }
  rewrite Ehd in P. replace (nthN ro 1 0 - 1 - 0) with (nthN ro 1 0 - 1) in Da by lia. specialize (P Da).
  destruct (populate a1 hw bs 1 (n1 :: n') (tl ro)) as [[f1 cc1]|],
           (populate a2 hw bs 1 (n1 :: n') (tl ro)) as [[f2 cc2]|]; try contradiction; [|reflexivity].
  destruct P as (-> & Lf & Df).
  assert (Elast : last (tl ro) 0 = nthN ro (lenN n - 1) 0).
  { rewrite last_nth_len by (destruct ro as [|x [|y ro']]; discriminate).
    unfold nthN, lenN. rewrite Ln.
    destruct ro as [|x ro']; [discriminate|]. cbn [tl length] in *.
    replace (N.to_nat (N.of_nat (S (S (length n'))) - 1)) with (S (length ro' - 1)) by lia. reflexivity. }
  rewrite Elast in Df.
  replace (nthN ro (lenN n - 1) 0 - (1 + lenN (tl ro) - 1)) with (nthN ro (lenN n - 1) 0 + 1 - lenN n) in Df.
  2:{ unfold lenN in *. rewrite <- Ltl. cbn [length]. lia. }
  rewrite Df. reflexivity.
Qed.

(* ---- the three statements --------------------------------------------------------------------------------- *)
Lemma DP_no_panic : DP_no_panic_stmt.
Proof.
  unfold DP_no_panic_stmt. intros cfg hs ns ir k Hok E.
  pose proof (fuzzy_impl_good cfg hs ns ir Hok) as G. rewrite E in G. exact G.
Qed.

Lemma C10_history : C10_history_stmt.
Proof.
  unfold C10_history_stmt. intros cfg hs ns r1 r2 _. unfold fuzzy_impl.
  destruct (lenN (cs hs) <? lenN (cs ns)); [reflexivity|].
  destruct (cs ns) as [|n0 nrest]; [reflexivity|].
  destruct (lenN (n0 :: nrest) =? lenN (cs hs)); [reflexivity|].
  destruct (rp hs); [destruct (rp ns); [|reflexivity]|].
  - destruct nrest; [reflexivity|].
    destruct (prefilter_ascii _ _ _ _) as [[[start ge] e]|]; [|reflexivity].
    destruct (_ =? _); [reflexivity|]. apply fuzzy_optimal_hist.
  - destruct nrest; [reflexivity|].
    destruct (prefilter_non_ascii _ _ _ _) as [[start e]|]; [|reflexivity].
    destruct (_ =? _); [reflexivity|]. apply fuzzy_optimal_hist.
Qed.

Lemma DP_witness : DP_witness_stmt.
Proof.
  unfold DP_witness_stmt. intros cfg hs ns s idx Hok E. unfold run in E.
  pose proof (fuzzy_impl_good cfg hs ns [] Hok) as G. rewrite E in G. exact G.
Qed.

Print Assumptions DP_no_panic.
Print Assumptions C10_history.
Print Assumptions DP_witness.
