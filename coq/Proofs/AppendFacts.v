(* C07 (text half): the `append` hint of MultiPattern::reparse (src/pattern.rs).  Statements and vocabulary in
   Spec/AppendSpec.v.

   C07_append_refines: for seg-simple texts, every case / normalisation setting, the parser after fix #15
   (fx = true): if update_allowed (the Rust condition, on the parsed atoms) holds and the last old atom is outside
   known finding K3 (last_fold_norm_ok), then pattern_matches new -> pattern_matches old.
   C07_append_K3_refuted: without the K3 exclusion the statement is false (smart normalisation switching off
   while case is ignored: U+0185 / U+2C65 / U+2C66).
   C07_append_old_condition_refuted: with the condition before the fix (no test for a trailing '$' of the
   needle) the statement is false:  'a\$  has the needle  a$ ; after appending  b  the atom  'a\$b  has the
   needle  a\$b ; the haystack  a\$b  matches the new pattern only.
   With the unfixed parser (fx = false, finding #15) the statement fails in a third way (doubled backslash).

   Structure: A matching is monotone in the needle + flag interaction; B splitting old ++ suffix, escapes, the
   needle as a function of the raw atom; C Atom::parse on an extended raw atom; D the theorem; E the witnesses
   and refutations.  The internal lemmas are stated for the weaker old condition plus an explicit exclusion of
   the escaped-dollar class (esc_dollar_hazard), which the new condition implies. *)
From Coq Require Import NArith PeanoNat List Bool Lia ZifyBool ZifyNat ZifyN.
From NV Require Import Base.Util Model.Chars Model.PatternParse Spec.Matching Spec.Statements Spec.PatternParseSpec
  Spec.AppendSpec Proofs.CharsFacts Proofs.C01Facts Proofs.WitnessFacts Proofs.C14Facts.
Import ListNotations.
Local Open Scope N_scope.

(* proof-internal: the class of last atoms the condition before the fix let through wrongly - an escaped trailing
   dollar on a substring / prefix atom *)
Definition esc_dollar_hazard (a : atom) : bool :=
  negb (kind_eqb (a_kind a) AFuzzy) && last_is DOLLAR (a_needle a).
Definition last_atom_ok (atoms : list atom) : bool :=
  match rev atoms with
  | [] => true
  | a :: _ => negb (esc_dollar_hazard a) && negb (fold_norm_hazard a)
  end.

(* the new condition is the old one plus (more than) the exclusion of that class *)
Lemma update_allowed_split atoms :
  update_allowed atoms = true -> last_fold_norm_ok atoms = true ->
  update_allowed_old atoms = true /\ last_atom_ok atoms = true.
Proof.
  unfold update_allowed, update_allowed_old, last_fold_norm_ok, last_atom_ok, esc_dollar_hazard.
  destruct (rev atoms) as [|a l]; [auto|]. intros U F. apply andb_true_iff in U. destruct U as [U D].
  split; [exact U|]. rewrite F. apply negb_true_iff in D. rewrite D, andb_false_r. reflexivity.
Qed.

(* ---------------------------------------------------------------- AppendA *)

(* ==== Part A: matching is monotone in the needle, and how the two flags interact ===================== *)

(* the old configuration accepts every haystack character the new one maps to c *)
Definition transfer (cN cO : config) (hr : repr) (c : N) : Prop :=
  forall x, norm cN hr x = c -> norm cO hr x = c.

(* ---- the table fact behind exclusion (2) ------------------------------------------------------------ *)
Definition p1_ok (x : N) : bool :=
  negb (normalize (to_lower x) =? to_lower x)
  || existsb (N.eqb (to_lower x)) fold_norm_chars
  || (to_lower (normalize x) =? to_lower x).
Lemma p1_tbl : forallb p1_ok block_chars = true.
Proof. vm_compute. reflexivity. Qed.

Lemma fold_then_norm x c :
  to_lower x = c -> normalize c = c -> existsb (N.eqb c) fold_norm_chars = false ->
  to_lower (normalize x) = c.
Proof.
  intros Hl Hn Hh. destruct (in_norm_blocks x) eqn:B.
  - pose proof p1_tbl as T. rewrite forallb_forall in T. specialize (T x (in_block_chars x B)).
    unfold p1_ok in T. rewrite Hl, Hn, Hh, N.eqb_refl in T. cbn in T. apply N.eqb_eq in T. exact T.
  - rewrite (normalize_outside x B). exact Hl.
Qed.

Lemma transfer_flags cN cO hr c :
  (ignore_case cN = true -> ignore_case cO = true) ->
  (normalize_on cN = true -> normalize_on cO = true) ->
  (ignore_case cO = true -> to_lower c = c) ->
  (normalize_on cO = true -> normalize c = c) ->
  existsb (N.eqb c) fold_norm_chars = false ->
  transfer cN cO hr c.
Proof.
  intros Hi Hz Hl Hn Hh x. destruct hr; cbn [norm].
  - unfold norm_ascii. destruct (ignore_case cN), (ignore_case cO); cbn [andb]; auto.
    + specialize (Hi eq_refl). discriminate.
    + intros ->. specialize (Hl eq_refl). destruct (in_range 65 90 c) eqn:R; [|reflexivity].
      assert (c < 128) by (unfold in_range in R; lia). rewrite (to_lower_ascii c H), R in Hl. lia.
  - unfold norm_char.
    destruct (normalize_on cN) eqn:ZN, (normalize_on cO) eqn:ZO, (ignore_case cN) eqn:IN, (ignore_case cO) eqn:IO;
      try (specialize (Hi eq_refl); discriminate); try (specialize (Hz eq_refl); discriminate); auto.
    + intros <-. symmetry. symmetry. apply Hl. reflexivity.
    + intros E. apply fold_then_norm; auto.
    + intros ->. rewrite (Hn eq_refl). apply Hl. reflexivity.
    + intros ->. apply Hn. reflexivity.
    + intros ->. apply Hl. reflexivity.
Qed.

(* ---- list level ---------------------------------------------------------------------------------------- *)
Lemma map_transfer (fN fO : N -> N) l : forall n,
  map fN l = n -> (forall c, In c n -> forall x, fN x = c -> fO x = c) -> map fO l = n.
Proof.
  induction l as [|y l IH]; intros n E H; cbn [map] in *; [exact E|].
  destruct n as [|c n]; [discriminate|]. injection E as E1 E2. f_equal.
  - apply H; [now left|exact E1].
  - apply IH; [exact E2|]. intros c' Hc'. apply H. now right.
Qed.

Lemma subseq_refl (n : list N) : subseq n n.
Proof. induction n as [|x n IH]; [apply subseq_nil | apply subseq_take; exact IH]. Qed.
Lemma subseq_app_l p : forall n h, subseq n h -> subseq n (p ++ h).
Proof. induction p as [|y p IH]; intros n h H; cbn [app]; [exact H|]. apply subseq_skip. auto. Qed.
Lemma subseq_nil_inv n : subseq n [] -> n = [].
Proof. intros H. inversion H. reflexivity. Qed.
Lemma subseq_app_both a b c d : subseq a b -> subseq c d -> subseq (a ++ c) (b ++ d).
Proof.
  intros H. induction H as [h|n y h H IH|x n h H IH]; intros Hc; cbn [app].
  - apply subseq_app_l. exact Hc.
  - apply subseq_skip. auto.
  - apply subseq_take. auto.
Qed.

(* n' is a subsequence of n, n of the new normalised haystack: n' is one of the old *)
Lemma subseq_transfer (fN fO : N -> N) h : forall nN nO,
  subseq nN (map fN h) -> subseq nO nN ->
  (forall c, In c nO -> forall x, fN x = c -> fO x = c) ->
  subseq nO (map fO h).
Proof.
  induction h as [|y h IH]; intros nN nO HN HO T; cbn [map] in *.
  - apply subseq_nil_inv in HN. subst nN. apply subseq_nil_inv in HO. subst nO. constructor.
  - inversion HN as [h0|n0 y0 h0 H0|x n0 h0 H0]; subst.
    + apply subseq_nil_inv in HO. subst. constructor.
    + apply subseq_skip. eapply IH; eauto.
    + inversion HO as [h1|n1 y1 h1 H1|x1 n1 h1 H1]; subst.
      * constructor.
      * apply subseq_skip. eapply IH; eauto.
      * rewrite (T (fN y) (or_introl eq_refl) y eq_refl). apply subseq_take.
        eapply IH; eauto. intros c Hc. apply T. now right.
Qed.

Lemma occurs_prefix_transfer cN cO hr h nO v p :
  occurs cN hr h (nO ++ v) p = true -> (forall c, In c nO -> transfer cN cO hr c) ->
  occurs cO hr h nO p = true.
Proof.
  intros H T. apply occurs_iff in H. destruct H as [Hl Hm]. apply occurs_iff.
  rewrite app_length in Hl, Hm. split; [clear - Hl; lia|].
  apply (map_transfer (norm cN hr)); [|exact T].
  apply (f_equal (firstn (length nO))) in Hm. rewrite firstn_app, Nat.sub_diag, firstn_all in Hm.
  cbn [firstn] in Hm. rewrite app_nil_r, firstn_map, firstn_firstn in Hm.
  rewrite Nat.min_l in Hm by (clear; lia). exact Hm.
Qed.

Lemma occurs_subseq cfg hr h n p : occurs cfg hr h n p = true -> subseq n (nh cfg hr h).
Proof.
  intros H. apply occurs_iff in H. destruct H as [Hl Hm]. unfold nh.
  rewrite <- (firstn_skipn (N.to_nat p) h), map_app. apply subseq_app_l.
  rewrite <- (firstn_skipn (length n) (skipn (N.to_nat p) h)), map_app, Hm.
  apply subseq_app_r. apply subseq_refl.
Qed.

Lemma occurs_any_intro cfg hr h n p : occurs cfg hr h n p = true -> occurs_any cfg hr h n = true.
Proof.
  intros H. unfold occurs_any. apply existsb_exists. exists p. split; [|exact H].
  apply occurs_iff in H. destruct H as [Hl _]. apply in_map_iff. exists (N.to_nat p). split; [lia|].
  apply in_seq. lia.
Qed.
Lemma occurs_any_elim cfg hr h n : occurs_any cfg hr h n = true -> exists p, occurs cfg hr h n p = true.
Proof. unfold occurs_any. intros H. apply existsb_exists in H. destruct H as (p & _ & H). eauto. Qed.

Lemma spec_prefix_some cfg hr h n : opt_some (spec_prefix cfg hr h n) = occurs cfg hr h n (lead_for hr h n).
Proof. unfold spec_prefix. cbv zeta. destruct (occurs _ _ _ _ _); reflexivity. Qed.
Lemma spec_exact_some cfg hr h n : opt_some (spec_exact cfg hr h n) = true -> occurs cfg hr h n (lead_for hr h n) = true.
Proof. unfold spec_exact. cbv zeta. destruct (_ =? _); cbn [andb]; [|discriminate]. destruct (occurs _ _ _ _ _); auto. Qed.
Lemma spec_postfix_some cfg hr h n : opt_some (spec_postfix cfg hr h n) = true -> exists p, occurs cfg hr h n p = true.
Proof.
  unfold spec_postfix. cbv zeta. destruct (_ <=? _); cbn [andb]; [|discriminate].
  destruct (occurs _ _ _ _ _) eqn:E; [eauto|discriminate].
Qed.
Lemma lead_for_app hr h n v : n <> [] -> lead_for hr h (n ++ v) = lead_for hr h n.
Proof. destruct n; [contradiction|reflexivity]. Qed.

(* ---- how the needle of the last atom may change (what Part C establishes) ---------------------------- *)
Definition needle_refines (kO : atom_kind) (nO : list N) (kN : atom_kind) (nN : list N) : Prop :=
  match kO with
  | AFuzzy => (kN = AFuzzy \/ kN = APostfix) /\ subseq nO nN
  | ASubstring => (kN = ASubstring \/ kN = AExact) /\ exists v, nN = nO ++ v
  | APrefix => (kN = APrefix \/ kN = AExact) /\ nO <> [] /\ exists v, nN = nO ++ v
  | _ => False
  end.

Lemma kind_matches_refines cN cO hr h kO nO kN nN :
  needle_refines kO nO kN nN -> (forall c, In c nO -> transfer cN cO hr c) ->
  kind_matches cN hr h nN kN = true -> kind_matches cO hr h nO kO = true.
Proof.
  intros R T M. destruct kO; cbn [needle_refines] in R; try contradiction.
  - destruct R as [K S]. cbn [kind_matches]. apply subseq_b_true_iff.
    apply (subseq_transfer (norm cN hr) (norm cO hr) h nN nO); [|exact S|exact T].
    destruct K as [-> | ->]; cbn [kind_matches] in M.
    + apply subseq_b_true_iff in M. exact M.
    + apply spec_postfix_some in M. destruct M as (p & M). exact (occurs_subseq _ _ _ _ _ M).
  - destruct R as [K (v & ->)]. cbn [kind_matches].
    assert (exists p, occurs cN hr h (nO ++ v) p = true) as (p & Hp).
    { destruct K as [-> | ->]; cbn [kind_matches] in M.
      - apply occurs_any_elim. exact M.
      - apply spec_exact_some in M. eauto. }
    eapply occurs_any_intro, occurs_prefix_transfer; eauto.
  - destruct R as [K (Hne & v & ->)]. cbn [kind_matches]. rewrite spec_prefix_some.
    assert (occurs cN hr h (nO ++ v) (lead_for hr h nO) = true) as Hp.
    { rewrite <- (lead_for_app hr h nO v Hne). destruct K as [-> | ->]; cbn [kind_matches] in M.
      - rewrite spec_prefix_some in M. exact M.
      - apply spec_exact_some in M. exact M. }
    eapply occurs_prefix_transfer; eauto.
Qed.

(* ---- atoms: the flags are functions of the stored needle (C14Facts), so they are monotone ------------- *)
Lemma needle_refines_incl kO nO kN nN : needle_refines kO nO kN nN -> forall c, In c nO -> In c nN.
Proof.
  destruct kO; cbn [needle_refines]; try contradiction.
  - intros [_ S]. exact (subseq_in _ _ S).
  - intros [_ (v & ->)] c Hc. apply in_or_app. now left.
  - intros [_ (_ & v & ->)] c Hc. apply in_or_app. now left.
Qed.

Lemma spec_ignore_case_incl cm nO nN : (forall c, In c nO -> In c nN) ->
  spec_ignore_case cm nN = true -> spec_ignore_case cm nO = true.
Proof.
  intros I. destruct cm; cbn [spec_ignore_case]; auto. intros H. apply negb_true_iff in H. apply negb_true_iff.
  destruct (existsb is_upper nO) eqn:E; [|reflexivity]. apply existsb_exists in E. destruct E as (c & Hc & U).
  rewrite <- H. symmetry. apply existsb_exists. exists c. split; auto.
Qed.
Lemma spec_normalize_incl nm nO nN : (forall c, In c nO -> In c nN) ->
  spec_normalize nm nN = true -> spec_normalize nm nO = true.
Proof.
  intros I. destruct nm; cbn [spec_normalize]; auto. intros H. rewrite forallb_forall in *. auto.
Qed.

Lemma atom_refines fx seg rawO rawN cm nm m hr h :
  let aO := atom_parse fx seg rawO cm nm in
  let aN := atom_parse fx seg rawN cm nm in
  a_negative aO = false -> a_negative aN = false ->
  needle_refines (a_kind aO) (a_needle aO) (a_kind aN) (a_needle aN) ->
  fold_norm_hazard aO = false ->
  atom_matches m hr h aN = true -> atom_matches m hr h aO = true.
Proof.
  cbv zeta. intros NO NN R Hz. unfold atom_matches. rewrite NO, NN, !xorb_false_l.
  apply (kind_matches_refines _ _ _ _ _ _ _ _ R). intros c Hc.
  pose proof (needle_refines_incl _ _ _ _ R) as I.
  apply transfer_flags; cbn [atom_cfg ignore_case normalize_on].
  - rewrite (atom_parse_ignore_case fx seg rawO cm nm), (atom_parse_ignore_case fx seg rawN cm nm).
    apply spec_ignore_case_incl, I.
  - rewrite (atom_parse_normalize fx seg rawO cm nm), (atom_parse_normalize fx seg rawN cm nm).
    apply spec_normalize_incl, I.
  - intros T. exact (map_fixed_pointwise _ _ (atom_parse_folded fx seg rawO cm nm T) c Hc).
  - rewrite (atom_parse_normalize fx seg rawO cm nm). destruct nm; cbn [spec_normalize]; [discriminate|].
    intros T. rewrite forallb_forall in T. apply N.eqb_eq, T, Hc.
  - unfold fold_norm_hazard in Hz. destruct (existsb (N.eqb c) fold_norm_chars) eqn:E; [|reflexivity].
    rewrite <- Hz. symmetry. apply existsb_exists. exists c. split; auto.
Qed.

(* ---------------------------------------------------------------- AppendB *)

(* ==== Part B: splitting old ++ suffix, escapes, the needle as a function of the raw text ============= *)

Lemma split_atoms_nonempty p saw : split_atoms p saw <> [].
Proof.
  revert saw. induction p as [|c r IH]; intros saw; cbn [split_atoms]; [discriminate|].
  destruct (std_is_whitespace c && negb saw); [discriminate|].
  specialize (IH (c =? BSLASH)). destruct (split_atoms r (c =? BSLASH)); [contradiction|discriminate].
Qed.

(* all pieces but the last are unchanged; the last one is extended by the first piece of the suffix *)
Lemma split_app p : forall saw q, exists init lst s1 rest,
  split_atoms p saw = init ++ [lst] /\ split_atoms (p ++ q) saw = init ++ (lst ++ s1) :: rest.
Proof.
  induction p as [|c r IH]; intros saw q.
  - pose proof (split_atoms_nonempty q saw) as NE. destruct (split_atoms q saw) as [|h t] eqn:E; [contradiction|].
    exists [], [], h, t. cbn [app split_atoms]. rewrite E. auto.
  - cbn [app split_atoms]. destruct (std_is_whitespace c && negb saw).
    + destruct (IH saw q) as (init & lst & s1 & rest & E1 & E2).
      exists ([] :: init), lst, s1, rest. rewrite E1, E2. auto.
    + destruct (IH (c =? BSLASH) q) as (init & lst & s1 & rest & E1 & E2). rewrite E1, E2.
      destruct init as [|i init]; cbn [app].
      * exists [], (c :: lst), s1, rest. auto.
      * exists ((c :: i) :: init), lst, s1, rest. auto.
Qed.

(* no piece contains an unescaped whitespace character *)
Lemma ws_escaped_weaken s : forall saw, ws_escaped saw s = true -> ws_escaped true s = true.
Proof.
  destruct s as [|c r]; intros saw H; [reflexivity|]. cbn [ws_escaped] in *.
  apply andb_true_iff in H. destruct H as [_ H]. rewrite H. cbn. rewrite andb_false_r. reflexivity.
Qed.

Lemma split_atoms_pieces p : forall saw,
  match split_atoms p saw with
  | h :: t => ws_escaped saw h = true /\ Forall (fun x => ws_escaped false x = true) t
  | [] => False
  end.
Proof.
  induction p as [|c r IH]; intros saw; cbn [split_atoms].
  - split; [reflexivity|constructor].
  - destruct (std_is_whitespace c && negb saw) eqn:E.
    + split; [reflexivity|]. apply andb_true_iff in E. destruct E as [_ E]. apply negb_true_iff in E. subst saw.
      specialize (IH false). destruct (split_atoms r false) as [|h t]; [contradiction|].
      destruct IH as [H1 H2]. constructor; assumption.
    + specialize (IH (c =? BSLASH)). destruct (split_atoms r (c =? BSLASH)) as [|h t]; [contradiction|].
      destruct IH as [H1 H2]. split; [|exact H2]. cbn [ws_escaped]. rewrite E, H1. reflexivity.
Qed.

Lemma pattern_atoms_pieces p x : In x (pattern_atoms p) -> ws_escaped false x = true.
Proof.
  unfold pattern_atoms. pose proof (split_atoms_pieces p false) as H.
  destruct (split_atoms p false) as [|h t]; [contradiction|]. destruct H as [H1 H2].
  intros [<-|I]; [exact H1|]. rewrite Forall_forall in H2. auto.
Qed.

Lemma ws_escaped_app_l x : forall saw y, ws_escaped saw (x ++ y) = true -> ws_escaped saw x = true.
Proof.
  induction x as [|c r IH]; intros saw y H; [reflexivity|]. cbn [app ws_escaped] in *.
  apply andb_true_iff in H. destruct H as [H1 H2]. rewrite H1, (IH _ _ H2). reflexivity.
Qed.
Lemma ws_escaped_tl c r saw : ws_escaped saw (c :: r) = true -> ws_escaped true r = true.
Proof. cbn [ws_escaped]. intros H. apply andb_true_iff in H. destruct H as [_ H]. exact (ws_escaped_weaken _ _ H). Qed.
Lemma ws_escaped_app_r x : forall saw y, ws_escaped saw (x ++ y) = true -> ws_escaped true y = true.
Proof.
  induction x as [|c r IH]; intros saw y H; cbn [app] in H; [exact (ws_escaped_weaken _ _ H)|].
  cbn [ws_escaped] in H. apply andb_true_iff in H. destruct H as [_ H]. exact (IH _ _ H).
Qed.

(* a whitespace character inside a piece is preceded by a backslash *)
Lemma ws_escaped_boundary x : forall saw c t, ws_escaped saw (x ++ c :: t) = true -> std_is_whitespace c = true ->
  match x with [] => saw = true | _ => last_is BSLASH x = true end.
Proof.
  induction x as [|a r IH]; intros saw c t H W; cbn [app ws_escaped] in H.
  - rewrite W in H. destruct saw; [reflexivity|discriminate].
  - apply andb_true_iff in H. destruct H as [_ H]. specialize (IH _ _ _ H W).
    destruct r as [|b r'].
    + unfold last_is. cbn. exact IH.
    + unfold last_is in *. cbn [rev] in *. destruct (rev r' ++ [b]) eqn:E.
      * destruct (rev r'); discriminate.
      * cbn [app]. exact IH.
Qed.

(* such a text has no CR LF pair: chars::graphemes is the identity on it *)
Lemma crlf_ws_escaped s : forall saw, ws_escaped saw s = true -> crlf s = s.
Proof.
  induction s as [|a|a b r IH1 IH2] using list_ind2; intros saw H; try reflexivity.
  rewrite crlf_cons2. cbn [ws_escaped] in H. apply andb_true_iff in H. destruct H as [_ H].
  pose proof H as H'. cbn [ws_escaped] in H. apply andb_true_iff in H. destruct H as [H _].
  destruct ((a =? 13) && (b =? 10)) eqn:E.
  - exfalso. apply andb_true_iff in E. destruct E as [Ea Eb]. apply N.eqb_eq in Ea, Eb. subst. vm_compute in H. discriminate.
  - f_equal. exact (IH2 _ H').
Qed.

(* ---- unescape_ascii, and the grapheme loop as the same function --------------------------------------- *)
Definition no_lead_space (y : list N) : Prop := match y with c :: _ => c <> SPACE | [] => True end.

Lemma unescape_app x : forall y, no_lead_space y -> unescape_ascii (x ++ y) = unescape_ascii x ++ unescape_ascii y.
Proof.
  induction x as [|a|a b r IH1 IH2] using list_ind2; intros y Hy.
  - reflexivity.
  - cbn [app]. destruct y as [|c t]; [reflexivity|]. rewrite unescape_cons2.
    cbn in Hy. apply N.eqb_neq in Hy. rewrite Hy, andb_false_r. reflexivity.
  - cbn [app]. rewrite !unescape_cons2. destruct ((a =? BSLASH) && (b =? SPACE)).
    + rewrite (IH1 y Hy). reflexivity.
    + change (b :: r ++ y) with ((b :: r) ++ y). rewrite (IH2 y Hy). reflexivity.
Qed.

Lemma unescape_cons_plain c r : c <> BSLASH -> unescape_ascii (c :: r) = c :: unescape_ascii r.
Proof.
  intros H. destruct r as [|d r]; [reflexivity|]. rewrite unescape_cons2. apply N.eqb_neq in H. rewrite H. reflexivity.
Qed.

Lemma esc_out_unescape f : f BSLASH = BSLASH -> f SPACE = SPACE -> forall s saw,
  esc_out true f s saw = map f (unescape_ascii (if saw then BSLASH :: s else s)).
Proof.
  intros Fb Fs. induction s as [|c r IH]; intros saw.
  - destruct saw; cbn; rewrite ?Fb; reflexivity.
  - assert (H0 : esc_out true f (c :: r) false = map f (unescape_ascii (c :: r))).
    { cbn [esc_out andb app]. destruct (N.eqb_spec c BSLASH) as [->|Hne].
      - exact (IH true).
      - rewrite (unescape_cons_plain c r Hne). cbn [map]. rewrite (IH false). reflexivity. }
    destruct saw; [|exact H0]. cbn [esc_out andb]. destruct (N.eqb_spec c SPACE) as [->|Hs].
    + rewrite unescape_cons2. change (BSLASH =? BSLASH) with true. change (SPACE =? SPACE) with true.
      cbn [andb map]. rewrite Fs, (IH false). reflexivity.
    + rewrite unescape_cons2. apply N.eqb_neq in Hs. rewrite Hs, andb_false_r. cbn [map app]. rewrite Fb. f_equal.
      cbn [esc_out andb app] in H0. exact H0.
Qed.

(* the stored needle, uniformly for the ASCII and the non-ASCII branch *)
Lemma cmap_bslash cm : cmap cm BSLASH = BSLASH.
Proof. destruct cm; [reflexivity|exact (proj2 (proj2 plain_bslash))|reflexivity]. Qed.
Lemma cmap_space cm : cmap cm SPACE = SPACE.
Proof. destruct cm; [reflexivity|exact (proj2 (proj2 plain_space))|reflexivity]. Qed.
Lemma cmap_dollar cm : cmap cm DOLLAR = DOLLAR.
Proof. destruct cm; [reflexivity|exact (proj2 (proj2 plain_dollar))|reflexivity]. Qed.

Lemma needle_of_unescape seg s cm d : seg s = s ->
  needle_of true seg s cm true d = map (cmap cm) (unescape_ascii s) ++ dollar_txt d.
Proof.
  intros Hs. unfold needle_of. f_equal. destruct (is_ascii s) eqn:A.
  - cbv zeta. destruct cm; cbn [cmap]; rewrite ?map_id; try reflexivity.
    apply map_ext_in. intros c Hc. apply ascii_lower_to_lower.
    exact (is_ascii_forall _ (unescape_is_ascii s A) c Hc).
  - rewrite Hs. apply (esc_out_unescape (cmap cm) (cmap_bslash cm) (cmap_space cm) s false).
Qed.

(* ---- Atom::parse through its three matches --------------------------------------------------------------- *)
Lemma atom_parse_fields seg raw cm nm inv a1 k0 a2 k1 d a3 :
  strip_invert raw = (inv, a1) -> strip_kind a1 = (k0, a2) -> strip_dollar k0 a2 = (k1, d, a3) ->
  let a := atom_parse true seg raw cm nm in
  a_negative a = inv /\ a_kind a = (if inv && kind_eqb k1 AFuzzy then ASubstring else k1) /\
  a_needle a = needle_of true seg a3 cm true d.
Proof.
  intros E1 E2 E3. cbv zeta. unfold atom_parse. rewrite E1, E2, E3.
  match goal with |- context [new_inner true seg a3 cm nm ?k true d] =>
    destruct (new_inner_fields true seg a3 cm nm k true d) as (_ & Fk & _ & Fn) end.
  cbn [set_negative a_negative a_kind a_needle]. auto.
Qed.

(* ---------------------------------------------------------------- AppendC *)

(* ==== Part C: Atom::parse on an extended raw atom ===================================================== *)

Lemma last_is_snoc c x z : last_is c (x ++ [z]) = (z =? c).
Proof. unfold last_is. rewrite rev_app_distr. reflexivity. Qed.
Lemma last_is_nil c : last_is c [] = false.
Proof. reflexivity. Qed.
Lemma last_is_app c x y : y <> [] -> last_is c (x ++ y) = last_is c y.
Proof.
  intros H. destruct (exists_last H) as (y' & z & ->). rewrite app_assoc, !last_is_snoc. reflexivity.
Qed.

(* ---- the first two matches look at the first two bytes only ------------------------------------------- *)
Lemma strip_invert_app raw s inv a1 : strip_invert raw = (inv, a1) ->
  strip_invert (raw ++ s) = (inv, a1 ++ s) \/ raw = [] \/ raw = [BSLASH].
Proof.
  destruct raw as [|c [|d r]]; intros E.
  - auto.
  - cbn [strip_invert] in E. destruct (N.eqb_spec c BANG) as [->|Hb].
    + injection E as <- <-. left. reflexivity.
    + injection E as <- <-. destruct (N.eqb_spec c BSLASH) as [->|Hs]; [auto|]. left.
      cbn [app strip_invert]. apply N.eqb_neq in Hb, Hs. rewrite Hb. destruct s; [reflexivity|]. rewrite Hs. reflexivity.
  - left. cbn [strip_invert app] in *. destruct (c =? BANG); [injection E as <- <-; reflexivity|].
    destruct ((c =? BSLASH) && (d =? BANG)); injection E as <- <-; reflexivity.
Qed.

Lemma strip_kind_app a1 s k a2 : strip_kind a1 = (k, a2) ->
  strip_kind (a1 ++ s) = (k, a2 ++ s) \/ a1 = [] \/ a1 = [BSLASH].
Proof.
  destruct a1 as [|c [|d r]]; intros E.
  - auto.
  - cbn [strip_kind] in E. destruct (N.eqb_spec c CARET) as [->|Hc]; [injection E as <- <-; left; reflexivity|].
    destruct (N.eqb_spec c QUOTE) as [->|Hq]; [injection E as <- <-; left; reflexivity|].
    injection E as <- <-. destruct (N.eqb_spec c BSLASH) as [->|Hs]; [auto|]. left.
    cbn [app strip_kind]. apply N.eqb_neq in Hc, Hq, Hs. rewrite Hc, Hq. destruct s; [reflexivity|]. rewrite Hs. reflexivity.
  - left. cbn [strip_kind app] in *. destruct (c =? CARET); [injection E as <- <-; reflexivity|].
    destruct (c =? QUOTE); [injection E as <- <-; reflexivity|].
    destruct ((c =? BSLASH) && is_kind_marker d); injection E as <- <-; reflexivity.
Qed.

Lemma strip_invert_suffix raw inv a1 : strip_invert raw = (inv, a1) -> exists pre, raw = pre ++ a1.
Proof.
  destruct raw as [|c r]; cbn [strip_invert]; intros E.
  - injection E as <- <-. exists []. reflexivity.
  - destruct (c =? BANG); [injection E as <- <-; exists [c]; reflexivity|].
    destruct r as [|d r']; [injection E as <- <-; exists []; reflexivity|].
    destruct ((c =? BSLASH) && (d =? BANG)); injection E as <- <-; [exists [c]|exists []]; reflexivity.
Qed.
Lemma strip_kind_suffix a1 k a2 : strip_kind a1 = (k, a2) -> exists pre, a1 = pre ++ a2.
Proof.
  destruct a1 as [|c r]; cbn [strip_kind]; intros E.
  - injection E as <- <-. exists []. reflexivity.
  - destruct (c =? CARET); [injection E as <- <-; exists [c]; reflexivity|].
    destruct (c =? QUOTE); [injection E as <- <-; exists [c]; reflexivity|].
    destruct r as [|d r']; [injection E as <- <-; exists []; reflexivity|].
    destruct ((c =? BSLASH) && is_kind_marker d); injection E as <- <-; [exists [c]|exists []]; reflexivity.
Qed.

(* ---- the third match looks at the last two bytes -------------------------------------------------------- *)
Definition post_kind (k : atom_kind) : atom_kind := if kind_eqb k AFuzzy then APostfix else AExact.

Lemma strip_dollar_cases k x :
  (strip_dollar k x = (k, false, x) /\ last_is DOLLAR x = false) \/
  (exists b, x = b ++ [BSLASH; DOLLAR] /\ strip_dollar k x = (k, true, b)) \/
  (exists b, x = b ++ [DOLLAR] /\ last_is BSLASH b = false /\ strip_dollar k x = (post_kind k, false, b)).
Proof.
  unfold strip_dollar, last_is, post_kind. destruct (rev x) as [|c r] eqn:E.
  - left. auto.
  - apply (f_equal (@rev N)) in E. rewrite rev_involutive in E. cbn [rev] in E.
    destruct (N.eqb_spec c DOLLAR) as [->|Hc]; [|left; auto].
    right. destruct r as [|d r'].
    + right. exists []. cbn [rev app] in *. auto.
    + destruct (N.eqb_spec d BSLASH) as [->|Hd].
      * left. exists (rev r'). cbn [rev] in E. rewrite <- app_assoc in E. auto.
      * right. exists (rev (d :: r')). rewrite rev_involutive. apply N.eqb_neq in Hd. rewrite Hd. auto.
Qed.

Lemma strip_dollar_prefix k x k1 d a3 : strip_dollar k x = (k1, d, a3) -> exists post, x = a3 ++ post.
Proof.
  intros E. destruct (strip_dollar_cases k x) as [[H _]|[(b & Hx & H)|(b & Hx & _ & H)]]; rewrite H in E; injection E as <- <- <-.
  - exists []. now rewrite app_nil_r.
  - eauto.
  - eauto.
Qed.

(* ---- the needle of a raw atom --------------------------------------------------------------------------- *)
Definition good (x : list N) : Prop := seg_simple x = true /\ ws_escaped true x = true.

Lemma good_mid pre x post : good (pre ++ x ++ post) -> good x.
Proof.
  intros [H1 H2]. split.
  - unfold seg_simple in *. rewrite !forallb_app in H1. apply andb_true_iff in H1. destruct H1 as [_ H1].
    apply andb_true_iff in H1. tauto.
  - apply ws_escaped_app_r in H2. exact (ws_escaped_app_l _ _ _ H2).
Qed.
Lemma good_seg seg x : seg_faithful seg -> good x -> seg x = x.
Proof. intros Hs [H1 H2]. rewrite (Hs x H1). exact (crlf_ws_escaped x true H2). Qed.

Definition nd (cm : case_matching) (a3 : list N) (d : bool) : list N :=
  map (cmap cm) (unescape_ascii a3) ++ dollar_txt d.

Lemma atom_parse_nd seg raw cm nm inv a1 k0 a2 k1 d a3 :
  seg_faithful seg -> good raw ->
  strip_invert raw = (inv, a1) -> strip_kind a1 = (k0, a2) -> strip_dollar k0 a2 = (k1, d, a3) ->
  let a := atom_parse true seg raw cm nm in
  a_negative a = inv /\ a_kind a = (if inv && kind_eqb k1 AFuzzy then ASubstring else k1) /\
  a_needle a = nd cm a3 d.
Proof.
  intros Hs G E1 E2 E3. cbv zeta.
  destruct (atom_parse_fields seg raw cm nm _ _ _ _ _ _ _ E1 E2 E3) as (F1 & F2 & F3).
  split; [exact F1|]. split; [exact F2|]. rewrite F3. apply needle_of_unescape.
  destruct (strip_invert_suffix _ _ _ E1) as (p1 & ->). destruct (strip_kind_suffix _ _ _ E2) as (p2 & ->).
  destruct (strip_dollar_prefix _ _ _ _ _ E3) as (p3 & ->).
  apply (good_seg seg _ Hs). rewrite app_assoc in G. exact (good_mid _ _ _ G).
Qed.

Lemma strip_dollar_snoc k x z :
  strip_dollar k (x ++ [z]) =
  if z =? DOLLAR then
    match rev x with
    | d :: r' => if d =? BSLASH then (k, true, rev r') else (post_kind k, false, x)
    | [] => (post_kind k, false, x)
    end
  else (k, false, x ++ [z]).
Proof.
  unfold strip_dollar, post_kind. rewrite rev_app_distr. cbn [rev app].
  destruct (z =? DOLLAR); [|reflexivity].
  destruct (rev x) as [|d r'] eqn:E.
  - apply (f_equal (@rev N)) in E. rewrite rev_involutive in E. subst x. reflexivity.
  - destruct (d =? BSLASH); [reflexivity|]. rewrite <- E, rev_involutive. reflexivity.
Qed.

Lemma list_snoc_cases {A} (l : list A) : l = [] \/ exists l' z, l = l' ++ [z].
Proof. destruct l as [|a l]; [now left|right]. destruct (@exists_last _ (a :: l)) as (l' & z & E); [discriminate|eauto]. Qed.

Lemma no_lead_space_app_l x y : no_lead_space (x ++ y) -> no_lead_space x.
Proof. destruct x; [exact (fun _ => I)|exact (fun H => H)]. Qed.

Lemma nd_app cm x t d : no_lead_space t ->
  nd cm (x ++ t) d = nd cm x false ++ map (cmap cm) (unescape_ascii t) ++ dollar_txt d.
Proof. intros H. unfold nd. rewrite (unescape_app x t H), map_app. cbn [dollar_txt]. rewrite app_nil_r, app_assoc. reflexivity. Qed.

Lemma nd_snoc_bslash cm b : last_is BSLASH (nd cm (b ++ [BSLASH]) false) = true.
Proof.
  unfold nd. rewrite unescape_app by (cbn; discriminate). cbn [unescape_ascii dollar_txt]. rewrite app_nil_r, map_app.
  cbn [map]. rewrite last_is_snoc, cmap_bslash. reflexivity.
Qed.

Lemma refines_prefix k nO kN v :
  kind_eqb k APostfix || kind_eqb k AExact = false -> nO <> [] -> (kN = k \/ kN = post_kind k) ->
  needle_refines k nO kN (nO ++ v).
Proof.
  intros HK Hne HN. destruct k; try discriminate HK; cbn [needle_refines post_kind kind_eqb] in *.
  - split; [tauto|]. rewrite <- (app_nil_r nO) at 1. apply subseq_app_both; [apply subseq_refl|apply subseq_nil].
  - split; [tauto|eauto].
  - split; [tauto|]. split; [exact Hne|eauto].
Qed.

Lemma esc_dollar_subseq cm b t d :
  subseq (nd cm b true) (nd cm ((b ++ [BSLASH; DOLLAR]) ++ t) d).
Proof.
  unfold nd. rewrite <- app_assoc. rewrite unescape_app by (cbn; discriminate).
  cbn [app]. rewrite unescape_cons2. change (DOLLAR =? SPACE) with false. rewrite andb_false_r.
  rewrite unescape_cons_plain by discriminate. rewrite map_app. cbn [map dollar_txt].
  rewrite cmap_dollar, <- app_assoc. apply subseq_app_both; [apply subseq_refl|].
  cbn [app]. apply subseq_skip, subseq_take, subseq_nil.
Qed.

Lemma parse_extend seg raw s cm nm :
  seg_faithful seg -> good (raw ++ s) -> s <> [] -> no_lead_space s ->
  let aO := atom_parse true seg raw cm nm in
  let aN := atom_parse true seg (raw ++ s) cm nm in
  a_needle aO <> [] -> a_negative aO = false ->
  kind_eqb (a_kind aO) APostfix || kind_eqb (a_kind aO) AExact = false ->
  last_is BSLASH (a_needle aO) = false -> esc_dollar_hazard aO = false ->
  a_negative aN = false /\ needle_refines (a_kind aO) (a_needle aO) (a_kind aN) (a_needle aN).
Proof.
  intros Hs G Hne Hsp. cbv zeta.
  assert (GO : good raw) by (apply (good_mid [] raw s); exact G).
  destruct (strip_invert raw) as [inv a1] eqn:E1. destruct (strip_kind a1) as [k0 a2] eqn:E2.
  destruct (strip_dollar k0 a2) as [[k1 d] a3] eqn:E3.
  destruct (atom_parse_nd seg raw cm nm _ _ _ _ _ _ _ Hs GO E1 E2 E3) as (F1 & F2 & F3).
  unfold esc_dollar_hazard. rewrite F1, F2, F3. intros Nne -> HK HB HD. cbn [andb] in *.
  (* degenerate raw texts have an empty needle or the needle "\" *)
  assert (Small : a1 = [] \/ a1 = [BSLASH] -> False).
  { intros [-> | ->].
    - cbn in E2. injection E2 as <- <-. cbn in E3. injection E3 as <- <- <-. apply Nne. reflexivity.
    - cbv in E2. injection E2 as <- <-. cbv in E3. injection E3 as <- <- <-.
      change [92] with ([] ++ [BSLASH]) in HB. rewrite nd_snoc_bslash in HB. discriminate. }
  destruct (strip_invert_app raw s _ _ E1) as [E1'|[->| ->]].
  2:{ cbn in E1. injection E1 as <-. exfalso. apply Small. now left. }
  2:{ cbv in E1. injection E1 as <-. exfalso. apply Small. now right. }
  destruct (strip_kind_app a1 s _ _ E2) as [E2'|Sm]; [|exfalso; exact (Small Sm)].
  destruct (strip_dollar k0 (a2 ++ s)) as [[k1' d'] a3'] eqn:E3'.
  destruct (atom_parse_nd seg (raw ++ s) cm nm _ _ _ _ _ _ _ Hs G E1' E2' E3') as (F1' & F2' & F3').
  rewrite F1', F2', F3'. cbn [andb]. split; [reflexivity|].
  destruct (exists_last Hne) as (s' & z & ->).
  pose proof (no_lead_space_app_l _ _ Hsp) as Hsp'.
  rewrite app_assoc, strip_dollar_snoc in E3'.
  destruct (strip_dollar_cases k0 a2) as [[H HL]|[(b & Hx & H)|(b & Hx & HLb & H)]]; rewrite H in E3; injection E3 as <- <- <-.
  - (* the old text has no end marker *)
    destruct (N.eqb_spec z DOLLAR) as [->|Hz].
    + destruct (list_snoc_cases s') as [->|(s'' & y & ->)].
      * rewrite app_nil_r in E3'. destruct (list_snoc_cases a2) as [->|(b & y & ->)]; [exfalso; apply Nne; reflexivity|].
        rewrite rev_app_distr in E3'. cbn [rev app] in E3'. destruct (N.eqb_spec y BSLASH) as [->|Hy].
        -- rewrite nd_snoc_bslash in HB. discriminate.
        -- injection E3' as <- <- <-. rewrite <- (app_nil_r (nd cm (b ++ [y]) false)) at 2.
           apply refines_prefix; auto.
      * rewrite app_assoc, rev_app_distr in E3'. cbn [rev app] in E3'.
        pose proof (no_lead_space_app_l _ _ Hsp') as Hsp''.
        destruct (N.eqb_spec y BSLASH) as [->|Hy]; injection E3' as <- <- <-.
        -- rewrite rev_involutive, (nd_app cm a2 s'' true Hsp''). apply refines_prefix; auto.
        -- rewrite <- app_assoc, (nd_app cm a2 (s'' ++ [y]) false Hsp'). apply refines_prefix; auto.
    + injection E3' as <- <- <-. rewrite <- app_assoc, (nd_app cm a2 (s' ++ [z]) false Hsp). apply refines_prefix; auto.
  - (* the old text ends in an escaped dollar: only a fuzzy atom survives the exclusion *)
    assert (k0 = AFuzzy) as ->.
    { unfold nd in HD. cbn [dollar_txt] in HD. rewrite last_is_snoc in HD. change (DOLLAR =? DOLLAR) with true in HD.
      rewrite andb_true_r in HD. destruct k0; try discriminate HD; reflexivity. }
    cbn [needle_refines]. subst a2.
    destruct (N.eqb_spec z DOLLAR) as [->|Hz].
    + destruct (list_snoc_cases s') as [->|(s'' & y & ->)].
      * rewrite app_nil_r, rev_app_distr in E3'. cbn [rev app] in E3'. change (DOLLAR =? BSLASH) with false in E3'.
        injection E3' as <- <- <-. split; [now right|].
        rewrite <- (app_nil_r (b ++ [BSLASH; DOLLAR])). apply esc_dollar_subseq.
      * rewrite app_assoc, rev_app_distr in E3'. cbn [rev app] in E3'.
        destruct (N.eqb_spec y BSLASH) as [->|Hy]; injection E3' as <- <- <-.
        -- rewrite rev_involutive. split; [now left|]. apply esc_dollar_subseq.
        -- split; [now right|]. rewrite <- app_assoc. apply esc_dollar_subseq.
    + injection E3' as <- <- <-. split; [now left|]. rewrite <- app_assoc. apply esc_dollar_subseq.
  - (* the old atom is a postfix / exact atom *)
    exfalso. destruct k0; discriminate HK.
Qed.

(* ---- a raw atom that ends in a backslash has a needle that ends in a backslash ------------------------- *)
Lemma strip_invert_snoc_bslash x : exists i y, strip_invert (x ++ [BSLASH]) = (i, y ++ [BSLASH]).
Proof.
  destruct (strip_invert x) as [i a] eqn:E. destruct (strip_invert_app x [BSLASH] _ _ E) as [H|[->| ->]].
  - eauto.
  - exists false, []. reflexivity.
  - exists false, [BSLASH]. reflexivity.
Qed.
Lemma strip_kind_snoc_bslash x : exists k y, strip_kind (x ++ [BSLASH]) = (k, y ++ [BSLASH]).
Proof.
  destruct (strip_kind x) as [k a] eqn:E. destruct (strip_kind_app x [BSLASH] _ _ E) as [H|[->| ->]].
  - eauto.
  - exists AFuzzy, []. reflexivity.
  - exists AFuzzy, [BSLASH]. reflexivity.
Qed.

Lemma raw_bslash_needle seg raw cm nm :
  seg_faithful seg -> good raw -> last_is BSLASH raw = true ->
  last_is BSLASH (a_needle (atom_parse true seg raw cm nm)) = true.
Proof.
  intros Hs G L. destruct (list_snoc_cases raw) as [->|(x & z & ->)]; [discriminate L|].
  rewrite last_is_snoc in L. apply N.eqb_eq in L. subst z.
  destruct (strip_invert_snoc_bslash x) as (i & y & E1). destruct (strip_kind_snoc_bslash y) as (k & w & E2).
  assert (E3 : strip_dollar k (w ++ [BSLASH]) = (k, false, w ++ [BSLASH])) by (rewrite strip_dollar_snoc; reflexivity).
  destruct (atom_parse_nd seg _ cm nm _ _ _ _ _ _ _ Hs G E1 E2 E3) as (_ & _ & ->). apply nd_snoc_bslash.
Qed.

Lemma needle_refines_nonempty kO nO kN nN : needle_refines kO nO kN nN -> nO <> [] -> nN <> [].
Proof.
  intros R H. destruct nO as [|c nO]; [contradiction|]. pose proof (needle_refines_incl _ _ _ _ R c (or_introl eq_refl)) as I.
  destruct nN; [destruct I|discriminate].
Qed.

Lemma split_atoms_chars p : forall saw x, In x (split_atoms p saw) -> forall c, In c x -> In c p.
Proof.
  induction p as [|a r IH]; intros saw x Hx c Hc; cbn [split_atoms] in Hx.
  - destruct Hx as [<-|[]]. destruct Hc.
  - destruct (std_is_whitespace a && negb saw).
    + destruct Hx as [<-|Hx]; [destruct Hc|]. right. exact (IH _ _ Hx _ Hc).
    + destruct (split_atoms r (a =? BSLASH)) as [|h t] eqn:E.
      * destruct Hx as [<-|[]]. destruct Hc as [<-|[]]. now left.
      * destruct Hx as [<-|Hx].
        -- destruct Hc as [<-|Hc]; [now left|]. right. apply (IH (a =? BSLASH) h); [rewrite E; now left|exact Hc].
        -- right. apply (IH (a =? BSLASH) x); [rewrite E; now right|exact Hc].
Qed.

Lemma pattern_atoms_good p x : seg_simple p = true -> In x (pattern_atoms p) -> good x.
Proof.
  intros Hs Hx. split.
  - unfold seg_simple in *. rewrite forallb_forall in *. intros c Hc. apply Hs. exact (split_atoms_chars p false x Hx c Hc).
  - exact (ws_escaped_weaken _ _ (pattern_atoms_pieces p x Hx)).
Qed.


(* ---- the representation of the stored needle depends on the raw atom only (the markers are ASCII) ------ *)
Lemma strip_invert_suffix_ascii raw inv a1 : strip_invert raw = (inv, a1) -> exists pre, raw = pre ++ a1 /\ is_ascii pre = true.
Proof.
  destruct raw as [|c r]; cbn [strip_invert]; intros E.
  - injection E as <- <-. exists []. auto.
  - destruct (N.eqb_spec c BANG) as [->|_]; [injection E as <- <-; exists [BANG]; auto|].
    destruct r as [|d r']; [injection E as <- <-; exists []; auto|].
    destruct (N.eqb_spec c BSLASH) as [->|_]; cbn [andb] in E.
    + destruct (d =? BANG); injection E as <- <-; [exists [BSLASH]|exists []]; auto.
    + injection E as <- <-. exists []. auto.
Qed.
Lemma strip_kind_suffix_ascii a1 k a2 : strip_kind a1 = (k, a2) -> exists pre, a1 = pre ++ a2 /\ is_ascii pre = true.
Proof.
  destruct a1 as [|c r]; cbn [strip_kind]; intros E.
  - injection E as <- <-. exists []. auto.
  - destruct (N.eqb_spec c CARET) as [->|_]; [injection E as <- <-; exists [CARET]; auto|].
    destruct (N.eqb_spec c QUOTE) as [->|_]; [injection E as <- <-; exists [QUOTE]; auto|].
    destruct r as [|d r']; [injection E as <- <-; exists []; auto|].
    destruct (N.eqb_spec c BSLASH) as [->|_]; cbn [andb] in E.
    + destruct (is_kind_marker d); injection E as <- <-; [exists [BSLASH]|exists []]; auto.
    + injection E as <- <-. exists []. auto.
Qed.
Lemma strip_dollar_prefix_ascii k x k1 d a3 : strip_dollar k x = (k1, d, a3) -> exists post, x = a3 ++ post /\ is_ascii post = true.
Proof.
  intros E. destruct (strip_dollar_cases k x) as [[H _]|[(b & Hx & H)|(b & Hx & _ & H)]]; rewrite H in E; injection E as <- <- <-.
  - exists []. rewrite app_nil_r. auto.
  - eauto.
  - eauto.
Qed.

Lemma atom_parse_repr fx seg raw cm nm :
  a_repr (atom_parse fx seg raw cm nm) = if is_ascii raw then Ascii else Unicode.
Proof.
  unfold atom_parse. destruct (strip_invert raw) as [inv a1] eqn:E1. destruct (strip_kind a1) as [k0 a2] eqn:E2.
  destruct (strip_dollar k0 a2) as [[k1 d] a3] eqn:E3. cbn [set_negative a_repr].
  match goal with |- context [new_inner fx seg a3 cm nm ?k true d] =>
    destruct (new_inner_fields fx seg a3 cm nm k true d) as (_ & _ & -> & _) end.
  destruct (strip_invert_suffix_ascii _ _ _ E1) as (p1 & -> & A1). destruct (strip_kind_suffix_ascii _ _ _ E2) as (p2 & -> & A2).
  destruct (strip_dollar_prefix_ascii _ _ _ _ _ E3) as (p3 & -> & A3).
  rewrite !is_ascii_app, A1, A2, A3, andb_true_r. reflexivity.
Qed.

(* ---------------------------------------------------------------- AppendD *)

(* ==== Part D: the append hint of MultiPattern::reparse is sound (outside the two excluded classes) ===== *)
(* how the last atom of the old pattern and the atom that replaces it are related *)
Definition ext_ok (seg : list N -> list N) (cm : case_matching) (nm : normalization) (rawO rawN : list N) : Prop :=
  let aO := atom_parse true seg rawO cm nm in
  let aN := atom_parse true seg rawN cm nm in
  a_negative aO = false /\ a_negative aN = false /\ a_needle aO <> [] /\
  needle_refines (a_kind aO) (a_needle aO) (a_kind aN) (a_needle aN) /\
  fold_norm_hazard aO = false /\ (exists s, rawN = rawO ++ s) /\ good rawN.

(* the shape of the two atom vectors: a common front; then either nothing on the old side, or the last old
   atom and the (extended) atom that takes its place; the new pattern may have further atoms *)
Lemma append_structure seg cm nm old suffix :
  seg_faithful seg -> seg_simple (old ++ suffix) = true ->
  let P := fun raw => atom_parse true seg raw cm nm in
  let oa := pattern_parse true seg old cm nm in
  let na := pattern_parse true seg (old ++ suffix) cm nm in
  update_allowed_old oa = true -> last_atom_ok oa = true ->
  exists common rest,
    (oa = common /\ na = common ++ rest) \/
    (exists rawO rawN, oa = common ++ [P rawO] /\ na = common ++ P rawN :: rest /\ ext_ok seg cm nm rawO rawN).
Proof.
  intros Hseg Hsimple. cbv zeta.
  pose proof (fun x => pattern_atoms_good (old ++ suffix) x Hsimple) as Good.
  pose proof (pattern_atoms_pieces (old ++ suffix)) as Pieces.
  unfold pattern_parse, pattern_atoms in *.
  destruct (split_app old false suffix) as (init & lst & s1 & rest & E1 & E2). rewrite E1, E2 in *.
  set (P := fun pat => atom_parse true seg pat cm nm).
  rewrite !map_app, !filter_app. cbn [map filter].
  assert (Gn : good (lst ++ s1)) by (apply Good, in_or_app; right; now left).
  assert (Wn : ws_escaped false (lst ++ s1) = true) by (apply Pieces, in_or_app; right; now left).
  clear Good Pieces E1 E2.
  intros UA LA. exists (filter needle_nonempty (map P init)).
  destruct (needle_nonempty (P lst)) eqn:NE.
  2:{ eexists. left. rewrite app_nil_r. split; reflexivity. }
  unfold update_allowed_old in UA. unfold last_atom_ok in LA. rewrite rev_app_distr in UA, LA. cbn [rev app] in UA, LA.
  apply andb_true_iff in UA. destruct UA as [UA U3]. apply andb_true_iff in UA. destruct UA as [U1 U2].
  apply negb_true_iff in U1, U2, U3. apply andb_true_iff in LA. destruct LA as [L1 L2]. apply negb_true_iff in L1, L2.
  assert (Nne : a_needle (P lst) <> []) by (unfold needle_nonempty in NE; destruct (a_needle (P lst)); [discriminate NE|discriminate]).
  destruct s1 as [|c t].
  - rewrite app_nil_r in *. rewrite NE. exists (filter needle_nonempty (map P rest)). right. exists lst, lst.
    split; [reflexivity|]. split; [reflexivity|]. unfold ext_ok. cbv zeta. fold (P lst).
    repeat split; auto.
    + rewrite <- (app_nil_r (a_needle (P lst))) at 2. apply refines_prefix; auto.
    + exists []. now rewrite app_nil_r.
    + apply Gn.
    + apply Gn.
  - assert (Hsp : no_lead_space (c :: t)).
    { cbn. intros ->. pose proof (ws_escaped_boundary lst false SPACE t Wn eq_refl) as B.
      destruct lst as [|a lst']; [discriminate B|].
      assert (Go : good (a :: lst')) by (apply (good_mid [] (a :: lst') (SPACE :: t)); exact Gn).
      pose proof (raw_bslash_needle seg (a :: lst') cm nm Hseg Go B) as Q. fold (P (a :: lst')) in Q. congruence. }
    destruct (parse_extend seg lst (c :: t) cm nm Hseg Gn ltac:(discriminate) Hsp Nne U1 U2 U3 L1) as [Nn R].
    fold (P lst) in R. fold (P (lst ++ c :: t)) in R, Nn.
    pose proof (needle_refines_nonempty _ _ _ _ R Nne) as Nne'.
    assert (NE' : needle_nonempty (P (lst ++ c :: t)) = true) by (unfold needle_nonempty; destruct (a_needle (P (lst ++ c :: t))); [contradiction|reflexivity]).
    rewrite NE'. exists (filter needle_nonempty (map P rest)). right. exists lst, (lst ++ c :: t).
    split; [reflexivity|]. split; [reflexivity|]. unfold ext_ok. cbv zeta. fold (P lst) (P (lst ++ c :: t)).
    repeat split; auto; try apply Gn. eauto.
Qed.

Theorem C07_append_refines : C07_append_refines_stmt.
Proof.
  intros seg cm nm old suffix m hr h Hseg Hsimple. cbv zeta. intros UA0 LA0.
  destruct (update_allowed_split _ UA0 LA0) as [UA LA].
  destruct (append_structure seg cm nm old suffix Hseg Hsimple UA LA) as (common & rest & [[-> ->]|(rawO & rawN & -> & -> & X)]);
    unfold pattern_matches; rewrite !forallb_app; intros PM; apply andb_true_iff in PM; destruct PM as [PM1 PM2].
  - exact PM1.
  - rewrite PM1. cbn [forallb andb] in *. rewrite andb_true_r. apply andb_true_iff in PM2. destruct PM2 as [PM2 _].
    destruct X as (NO & NN & _ & R & Hz & _).
    exact (atom_refines true seg rawO rawN cm nm m hr h NO NN R Hz PM2).
Qed.

(* ---------------------------------------------------------------- AppendE *)

(* ==== witnesses and refutations =========================================================================== *)
Lemma crlf_faithful : seg_faithful crlf.
Proof. intros s _. reflexivity. Qed.

Definition m_default : config := config_of preset_default true true false.

(* the hypotheses of C07_append_refines are satisfiable, non-trivially: old text  'ab  (substring atom ab),
   appended  c  (substring atom abc): the status is Update; the haystack xabcx matches both, xabx only the old *)
Example C07_append_nonvacuous :
  let old := [39; 97; 98] in let suffix := [99] in
  let oa := pattern_parse true crlf old CaseSmart NormSmart in
  let na := pattern_parse true crlf (old ++ suffix) CaseSmart NormSmart in
  seg_simple (old ++ suffix) = true /\ update_allowed oa = true /\ last_fold_norm_ok oa = true /\
  map (fun a => (a_kind a, a_needle a)) oa = [(ASubstring, [97; 98])] /\
  map (fun a => (a_kind a, a_needle a)) na = [(ASubstring, [97; 98; 99])] /\
  pattern_matches m_default Ascii [120; 97; 98; 99; 120] na = true /\
  pattern_matches m_default Ascii [120; 97; 98; 99; 120] oa = true /\
  pattern_matches m_default Ascii [120; 97; 98; 120] na = false /\
  pattern_matches m_default Ascii [120; 97; 98; 120] oa = true.
Proof. vm_compute. repeat split; reflexivity. Qed.

(* (1) the fixed defect: old text  'a\$  (substring atom, needle a$), appended text  b  : the new atom  'a\$b  has
       the needle a\$b ; the haystack  a\$b  matches the new pattern and not the old one; the old condition
       answers Update, the new one Rescore *)
Lemma C07_escaped_dollar_witness :
  let old := [39; 97; 92; 36] in let suffix := [98] in let h := [97; 92; 36; 98] in
  let oa := pattern_parse true crlf old CaseSmart NormSmart in
  let na := pattern_parse true crlf (old ++ suffix) CaseSmart NormSmart in
  seg_simple (old ++ suffix) = true /\ update_allowed_old oa = true /\ last_fold_norm_ok oa = true /\
  update_allowed oa = false /\
  pattern_matches m_default Ascii h na = true /\ pattern_matches m_default Ascii h oa = false /\
  map a_needle oa = [[97; 36]] /\ map a_needle na = [[97; 92; 36; 98]] /\ map a_kind oa = [ASubstring].
Proof. vm_compute. repeat split; reflexivity. Qed.

(* the same with a prefix atom:  ^\$  then  a *)
Lemma C07_escaped_dollar_prefix_witness :
  let old := [94; 92; 36] in let suffix := [97] in let h := [92; 36; 97] in
  let oa := pattern_parse true crlf old CaseSmart NormSmart in
  let na := pattern_parse true crlf (old ++ suffix) CaseSmart NormSmart in
  seg_simple (old ++ suffix) = true /\ update_allowed_old oa = true /\ last_fold_norm_ok oa = true /\
  update_allowed oa = false /\
  pattern_matches m_default Ascii h na = true /\ pattern_matches m_default Ascii h oa = false.
Proof. vm_compute. repeat split; reflexivity. Qed.

(* (2) known finding K3: old text U+0185 (smart case: ignore case; smart normalisation: on), appended text U+00E9
       (switches normalisation off): the haystack U+0184 U+00E9 matches the new pattern (to_lower U+0184 = U+0185)
       and not the old one (normalize U+0184 = b) *)
Lemma C07_fold_norm_witness :
  let old := [389] in let suffix := [233] in let h := [388; 233] in
  let oa := pattern_parse true crlf old CaseSmart NormSmart in
  let na := pattern_parse true crlf (old ++ suffix) CaseSmart NormSmart in
  seg_simple (old ++ suffix) = true /\ update_allowed oa = true /\ last_fold_norm_ok oa = false /\
  pattern_matches m_default Unicode h na = true /\ pattern_matches m_default Unicode h oa = false /\
  map (fun a => (a_ignore_case a, a_normalize a)) oa = [(true, true)] /\
  map (fun a => (a_ignore_case a, a_normalize a)) na = [(true, false)].
Proof. vm_compute. repeat split; reflexivity. Qed.

(* with CaseMatching::Ignore plain Latin text is enough: old text U+023A, appended U+00E9, haystack the new text *)
Lemma C07_fold_norm_ignore_witness :
  let old := [570] in let suffix := [233] in let h := [570; 233] in
  let oa := pattern_parse true crlf old CaseIgnore NormSmart in
  let na := pattern_parse true crlf (old ++ suffix) CaseIgnore NormSmart in
  seg_simple (old ++ suffix) = true /\ update_allowed oa = true /\
  pattern_matches m_default Unicode h na = true /\ pattern_matches m_default Unicode h oa = false.
Proof. vm_compute. repeat split; reflexivity. Qed.

Theorem C07_append_K3_refuted : ~ C07_append_known_K3_stmt.
Proof.
  intros H.
  specialize (H crlf CaseSmart NormSmart [389] [233] m_default Unicode [388; 233] crlf_faithful eq_refl).
  cbv zeta in H. destruct C07_fold_norm_witness as (_ & U & _ & Mn & Mo & _). cbv zeta in U, Mn, Mo.
  rewrite (H U Mn) in Mo. discriminate.
Qed.

Theorem C07_append_old_condition_refuted : ~ C07_append_prefix_dollar_old_stmt.
Proof.
  intros H.
  specialize (H crlf CaseSmart NormSmart [39; 97; 92; 36] [98] m_default Ascii [97; 92; 36; 98] crlf_faithful eq_refl).
  cbv zeta in H. destruct C07_escaped_dollar_witness as (_ & U & F & _ & Mn & Mo & _). cbv zeta in U, F, Mn, Mo.
  rewrite (H U F Mn) in Mo. discriminate.
Qed.

(* (3) before the fix of finding #15 (fx = false: the non-ASCII branch of new_inner doubles backslashes) the
       statement fails in a third way: old text  'a\b  (ASCII branch, needle a\b), appended U+00E9
       (non-ASCII branch, needle a\\b U+00E9) *)
Lemma C07_needs_fix15_witness :
  let old := [39; 97; 92; 98] in let suffix := [233] in let h := [97; 92; 92; 98; 233] in
  let oa := pattern_parse false crlf old CaseSmart NormSmart in
  let na := pattern_parse false crlf (old ++ suffix) CaseSmart NormSmart in
  seg_simple (old ++ suffix) = true /\ update_allowed oa = true /\ last_fold_norm_ok oa = true /\
  pattern_matches m_default Unicode h na = true /\ pattern_matches m_default Unicode h oa = false.
Proof. vm_compute. repeat split; reflexivity. Qed.

Print Assumptions C07_append_refines.
Print Assumptions C07_append_K3_refuted.
Print Assumptions C07_append_old_condition_refuted.
Print Assumptions C07_append_nonvacuous.
Print Assumptions C07_needs_fix15_witness.
