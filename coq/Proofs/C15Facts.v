(* Lemmas behind Props/C15.v: the state-threading loops of Model/PatternScore.v compute the pure
   specification of Spec/PatternSpec.v; sort_desc meets (and is determined by) the stable-sort contract. *)
From Coq Require Import NArith List Bool Lia ZifyBool ZifyNat ZifyN Sorting.Permutation.
From NV Require Import Model.PatternScore Spec.PatternSpec.
Import ListNotations.
Local Open Scope N_scope.

(* ---- the overwritten configuration fields ------------------------------------------------------- *)
Lemma same_base_refl m : same_base m m.
Proof. repeat split. Qed.
Lemma same_base_sym m m' : same_base m m' -> same_base m' m.
Proof. intros (A & B & C & D & E). repeat split; congruence. Qed.
Lemma same_base_trans m1 m2 m3 : same_base m1 m2 -> same_base m2 m3 -> same_base m1 m3.
Proof. intros (A & B & C & D & E) (A' & B' & C' & D' & E'). repeat split; congruence. Qed.

Lemma set_flags_same m m' a : same_base m m' -> set_flags m a = set_flags m' a.
Proof. intros (A & B & C & D & E). unfold set_flags. rewrite A, B, C, D, E. reflexivity. Qed.
Lemma same_base_set m a : same_base m (set_flags m a).
Proof. repeat split. Qed.
(* an atom's flags replace whatever an earlier atom left *)
Lemma set_flags_absorb m b a : set_flags (set_flags m b) a = set_flags m a.
Proof. reflexivity. Qed.

Lemma inner_same m m' a h : same_base m m' -> inner m a h = inner m' a h.
Proof. intros H. unfold inner. rewrite (set_flags_same m m' a H). reflexivity. Qed.

Lemma atom_passes_same m m' a h : same_base m m' -> atom_passes m a h = atom_passes m' a h.
Proof. intros H. unfold atom_passes. rewrite (inner_same m m' a h H). reflexivity. Qed.
Lemma atom_points_same m m' a h : same_base m m' -> atom_points m a h = atom_points m' a h.
Proof. intros H. unfold atom_points. rewrite (inner_same m m' a h H). reflexivity. Qed.

(* ---- one atom ------------------------------------------------------------------------------------ *)
(* the verdict of an atom as a function of the inner outcome *)
Definition verdict (neg : bool) (o : outcome) : result (option N) :=
  match o with
  | Panicked k => Panic k
  | Match s _ => if neg then RDone None else RDone (Some s)
  | NoMatch => if neg then RDone (Some 0) else RDone None
  end.

Lemma atom_score_unfold a h m : atom_score a h m = (verdict (negative a) (inner m a h), set_flags m a).
Proof. reflexivity. Qed.

Lemma atom_indices_unfold a h m idx :
  atom_indices a h m idx =
  (verdict (negative a) (inner m a h), set_flags m a,
   idx ++ (if matched (inner m a h) then atom_appends m a h else [])).
Proof.
  unfold atom_indices, atom_appends. fold (inner m a h).
  destruct (inner m a h) as [|s i|k]; destruct (negative a); cbn [verdict matched indices_of];
    rewrite ?app_nil_r; reflexivity.
Qed.

Lemma verdict_value m a h :
  no_panic m a h -> verdict (negative a) (inner m a h) = RDone (atom_value m a h).
Proof.
  intros NP. unfold atom_value, atom_passes, atom_points. unfold no_panic in NP.
  destruct (inner m a h) as [|s i|k]; [| |exfalso; exact (NP k eq_refl)];
    destruct (negative a); reflexivity.
Qed.

(* ---- Pattern::score ------------------------------------------------------------------------------ *)
Lemma add32_ok a b : a + b <= U32MAX -> add32 a b = Some (a + b).
Proof. intros H. unfold add32. destruct (N.leb_spec (a + b) U32MAX); [reflexivity|lia]. Qed.

Lemma atom_points_le m a h : score_u16 m a h -> atom_points m a h <= 65535.
Proof. unfold score_u16, atom_points. destruct (negative a); lia. Qed.

Lemma pattern_points_cons m a atoms h :
  pattern_points m (a :: atoms) h = atom_points m a h + pattern_points m atoms h.
Proof. reflexivity. Qed.
Lemma pattern_passes_cons m a atoms h :
  pattern_passes m (a :: atoms) h = atom_passes m a h && pattern_passes m atoms h.
Proof. reflexivity. Qed.

Lemma pattern_points_bound m atoms h :
  (forall a, In a atoms -> score_u16 m a h) ->
  pattern_points m atoms h <= 65535 * N.of_nat (length atoms).
Proof.
  induction atoms as [|a atoms IH]; intros U.
  - cbn. lia.
  - rewrite pattern_points_cons. cbn [length].
    pose proof (atom_points_le m a h (U a (or_introl eq_refl))).
    specialize (IH (fun b Hb => U b (or_intror Hb))). lia.
Qed.

Lemma pattern_score_loop_spec atoms : forall h m m1 acc,
  same_base m m1 ->
  (forall a, In a atoms -> no_panic m a h) ->
  (forall a, In a atoms -> score_u16 m a h) ->
  acc + 65535 * N.of_nat (length atoms) <= U32MAX ->
  fst (pattern_score_loop atoms h m1 acc)
    = RDone (if pattern_passes m atoms h then Some (acc + pattern_points m atoms h) else None)
  /\ same_base m (snd (pattern_score_loop atoms h m1 acc)).
Proof.
  induction atoms as [|a atoms IH]; intros h m m1 acc SB NP U B.
  - cbn. rewrite N.add_0_r. split; [reflexivity|exact SB].
  - cbn [pattern_score_loop]. rewrite atom_score_unfold.
    rewrite <- (inner_same m m1 a h SB), <- (set_flags_same m m1 a SB).
    rewrite (verdict_value m a h (NP a (or_introl eq_refl))).
    rewrite pattern_passes_cons, pattern_points_cons. unfold atom_value.
    pose proof (atom_points_le m a h (U a (or_introl eq_refl))) as Hle.
    cbn [length] in B.
    destruct (atom_passes m a h); cbn [andb].
    + rewrite add32_ok by lia.
      destruct (IH h m (set_flags m a) (acc + atom_points m a h) (same_base_set m a)
                  (fun b Hb => NP b (or_intror Hb)) (fun b Hb => U b (or_intror Hb)) ltac:(lia)) as [E1 E2].
      rewrite E1. split; [|exact E2]. rewrite N.add_assoc. reflexivity.
    + cbn [fst snd]. split; [reflexivity|apply same_base_set].
Qed.

Lemma pattern_score_spec atoms h m m1 :
  same_base m m1 ->
  (forall a, In a atoms -> no_panic m a h) ->
  (forall a, In a atoms -> score_u16 m a h) ->
  lenN atoms <= 65537 ->
  fst (pattern_score atoms h m1) = RDone (pattern_value m atoms h)
  /\ same_base m (snd (pattern_score atoms h m1)).
Proof.
  intros SB NP U L. unfold pattern_value. destruct atoms as [|a atoms].
  - cbn. split; [reflexivity|exact SB].
  - change (pattern_score (a :: atoms) h m1) with (pattern_score_loop (a :: atoms) h m1 0).
    destruct (pattern_score_loop_spec (a :: atoms) h m m1 0 SB NP U) as [E1 E2].
    + unfold lenN in L. unfold U32MAX. lia.
    + rewrite E1. split; [|exact E2]. rewrite N.add_0_l. reflexivity.
Qed.

(* ---- Pattern::indices ---------------------------------------------------------------------------- *)
Lemma pattern_appends_cons m a atoms h :
  pattern_appends m (a :: atoms) h =
  if atom_passes m a h then atom_appends m a h ++ pattern_appends m atoms h else [].
Proof. unfold pattern_appends. cbn [take_while]. destruct (atom_passes m a h); reflexivity. Qed.

(* a failing atom appends nothing; a passing one appends atom_appends *)
Lemma appended_when m a h :
  no_panic m a h ->
  (if matched (inner m a h) then atom_appends m a h else []) =
  (if atom_passes m a h then atom_appends m a h else []).
Proof.
  intros NP. unfold atom_passes, atom_appends.
  destruct (inner m a h) as [|s i|k]; destruct (negative a); reflexivity.
Qed.

Lemma pattern_indices_loop_spec atoms : forall h m m1 idx acc,
  same_base m m1 ->
  (forall a, In a atoms -> no_panic m a h) ->
  (forall a, In a atoms -> score_u16 m a h) ->
  acc + 65535 * N.of_nat (length atoms) <= U32MAX ->
  pattern_indices_loop atoms h m1 idx acc
    = (fst (pattern_score_loop atoms h m1 acc), snd (pattern_score_loop atoms h m1 acc),
       idx ++ pattern_appends m atoms h).
Proof.
  induction atoms as [|a atoms IH]; intros h m m1 idx acc SB NP U B.
  - cbn. rewrite app_nil_r. reflexivity.
  - cbn [pattern_indices_loop pattern_score_loop]. rewrite atom_indices_unfold, atom_score_unfold.
    rewrite <- (inner_same m m1 a h SB), <- (set_flags_same m m1 a SB).
    assert (EA : atom_appends m1 a h = atom_appends m a h).
    { unfold atom_appends. rewrite (inner_same m m1 a h SB). reflexivity. }
    rewrite EA, (appended_when m a h (NP a (or_introl eq_refl))).
    rewrite (verdict_value m a h (NP a (or_introl eq_refl))).
    rewrite pattern_appends_cons. unfold atom_value.
    pose proof (atom_points_le m a h (U a (or_introl eq_refl))) as Hle.
    cbn [length] in B.
    destruct (atom_passes m a h).
    + rewrite add32_ok by lia.
      rewrite (IH h m (set_flags m a) (idx ++ atom_appends m a h) (acc + atom_points m a h)
                 (same_base_set m a) (fun b Hb => NP b (or_intror Hb)) (fun b Hb => U b (or_intror Hb))
                 ltac:(lia)).
      rewrite app_assoc. reflexivity.
    + cbn [fst snd]. rewrite app_nil_r. reflexivity.
Qed.

Lemma pattern_indices_spec atoms h m m1 idx :
  same_base m m1 ->
  (forall a, In a atoms -> no_panic m a h) ->
  (forall a, In a atoms -> score_u16 m a h) ->
  lenN atoms <= 65537 ->
  pattern_indices atoms h m1 idx
    = (fst (pattern_score atoms h m1), snd (pattern_score atoms h m1), idx ++ pattern_appends m atoms h).
Proof.
  intros SB NP U L. destruct atoms as [|a atoms].
  - cbn. rewrite app_nil_r. reflexivity.
  - change (pattern_indices (a :: atoms) h m1 idx) with (pattern_indices_loop (a :: atoms) h m1 idx 0).
    change (pattern_score (a :: atoms) h m1) with (pattern_score_loop (a :: atoms) h m1 0).
    apply pattern_indices_loop_spec; try assumption. unfold lenN in L. unfold U32MAX. lia.
Qed.

Lemma take_while_all {A} (p : A -> bool) l : forallb p l = true -> take_while p l = l.
Proof.
  induction l as [|x l IH]; cbn [forallb take_while]; [reflexivity|].
  destruct (p x); cbn [andb]; [intros H; rewrite (IH H); reflexivity|discriminate].
Qed.

(* ---- MultiPattern::score ------------------------------------------------------------------------- *)
Definition total_atoms (z : list (list atom * ustr)) : nat := length (concat (map fst z)).

Lemma multi_score_loop_spec cols : forall hs m m1 acc,
  same_base m m1 ->
  (forall p h a, In (p, h) (combine cols hs) -> In a p -> no_panic m a h) ->
  (forall p h a, In (p, h) (combine cols hs) -> In a p -> score_u16 m a h) ->
  acc + 65535 * N.of_nat (total_atoms (combine cols hs)) <= U32MAX ->
  fst (multi_score_loop cols hs m1 acc)
    = RDone (if forallb (fun ph => pattern_passes m (fst ph) (snd ph)) (combine cols hs)
            then Some (acc + sumN (map (fun ph => pattern_points m (fst ph) (snd ph)) (combine cols hs)))
            else None).
Proof.
  induction cols as [|p cols IH]; intros hs m m1 acc SB NP U B.
  - cbn. rewrite N.add_0_r. reflexivity.
  - destruct hs as [|h hs].
    + cbn. rewrite N.add_0_r. reflexivity.
    + cbn [multi_score_loop combine forallb map fst snd].
      unfold total_atoms in B. cbn [combine map fst concat] in B. rewrite app_length, Nat2N.inj_add in B.
      assert (L : lenN p <= 65537) by (unfold lenN; unfold U32MAX in B; lia).
      destruct (pattern_score_spec p h m m1 SB
                  (fun a Ha => NP p h a (or_introl eq_refl) Ha)
                  (fun a Ha => U p h a (or_introl eq_refl) Ha) L) as [E1 E2].
      destruct (pattern_score p h m1) as [r m2]. cbn [fst snd] in E1, E2. subst r.
      pose proof (pattern_points_bound m p h (fun a Ha => U p h a (or_introl eq_refl) Ha)) as PB.
      unfold pattern_value. destruct (pattern_passes m p h); cbn [andb].
      * rewrite add32_ok by lia.
        rewrite (IH hs m m2 (acc + pattern_points m p h) E2
                   (fun p' h' a Hin Ha => NP p' h' a (or_intror Hin) Ha)
                   (fun p' h' a Hin Ha => U p' h' a (or_intror Hin) Ha)).
        -- cbn [sumN fold_right]. fold (sumN (map (fun ph => pattern_points m (fst ph) (snd ph)) (combine cols hs))).
           rewrite N.add_assoc. reflexivity.
        -- unfold total_atoms. lia.
      * reflexivity.
Qed.

Lemma multi_score_spec cols hs m m1 :
  same_base m m1 ->
  (forall p h a, In (p, h) (combine cols hs) -> In a p -> no_panic m a h) ->
  (forall p h a, In (p, h) (combine cols hs) -> In a p -> score_u16 m a h) ->
  N.of_nat (total_atoms (combine cols hs)) <= 65537 ->
  fst (multi_score cols hs m1) = RDone (multi_value m cols hs).
Proof.
  intros SB NP U L. unfold multi_score, multi_value.
  rewrite (multi_score_loop_spec cols hs m m1 0 SB NP U).
  - cbv zeta. rewrite N.add_0_l. reflexivity.
  - unfold U32MAX. lia.
Qed.

(* ---- the stable sort ----------------------------------------------------------------------------- *)
Section Sort.
Context {T : Type}.
Implicit Types (l : list (T * N)) (x y : T * N).

Lemma insert_desc_perm x l : Permutation (insert_desc x l) (x :: l).
Proof.
  induction l as [|y l IH]; cbn [insert_desc]; [apply Permutation_refl|].
  destruct (snd x <? snd y).
  - eapply Permutation_trans; [apply perm_skip, IH|apply perm_swap].
  - apply Permutation_refl.
Qed.

Lemma sort_desc_perm l : Permutation (sort_desc l) l.
Proof.
  induction l as [|x l IH]; cbn; [apply perm_nil|].
  eapply Permutation_trans; [apply insert_desc_perm|apply perm_skip, IH].
Qed.

Lemma insert_desc_sorted x l : sorted_desc l -> sorted_desc (insert_desc x l).
Proof.
  induction l as [|y l IH]; cbn [insert_desc sorted_desc].
  - intros _. split; [intros z []|exact I].
  - intros [Hy Hl]. destruct (N.ltb_spec (snd x) (snd y)) as [Hlt|Hge]; cbn [sorted_desc].
    + split; [|exact (IH Hl)].
      intros z Hz. apply (Permutation_in _ (insert_desc_perm x l)) in Hz.
      destruct Hz as [<-|Hz]; [lia|exact (Hy z Hz)].
    + split; [|split; assumption].
      intros z [<-|Hz]; [exact Hge|]. specialize (Hy z Hz). lia.
Qed.

Lemma sort_desc_sorted l : sorted_desc (sort_desc l).
Proof. induction l as [|x l IH]; cbn; [exact I|apply insert_desc_sorted, IH]. Qed.

(* stability: the elements of one score keep their input order *)
Lemma insert_desc_stable s x l :
  sorted_desc l -> with_score s (insert_desc x l) = with_score s (x :: l).
Proof.
  induction l as [|y l IH]; [reflexivity|].
  intros [Hy Hl]. cbn [insert_desc]. destruct (N.ltb_spec (snd x) (snd y)) as [Hlt|Hge]; [|reflexivity].
  unfold with_score in *. cbn [filter] in *. rewrite (IH Hl).
  destruct (N.eqb_spec (snd y) s) as [Ey|Ny]; destruct (N.eqb_spec (snd x) s) as [Ex|Nx]; try reflexivity.
  exfalso. lia.
Qed.

Lemma sort_desc_stable s l : with_score s (sort_desc l) = with_score s l.
Proof.
  induction l as [|x l IH]; [reflexivity|].
  cbn [sort_desc fold_right]. fold (sort_desc l).
  rewrite (insert_desc_stable s x (sort_desc l) (sort_desc_sorted l)).
  unfold with_score in *. cbn [filter]. rewrite IH. reflexivity.
Qed.

Lemma sort_desc_contract l : stable_sort_desc_of l (sort_desc l).
Proof. split; [apply sort_desc_perm|split; [apply sort_desc_sorted|intros s; apply sort_desc_stable]]. Qed.

Lemma with_score_in s x l : In x (with_score s l) <-> In x l /\ snd x = s.
Proof. unfold with_score. rewrite filter_In, N.eqb_eq. reflexivity. Qed.

(* the contract determines the output: two descending lists with the same per-score subsequences are equal *)
Lemma sorted_desc_unique l1 : forall l2,
  sorted_desc l1 -> sorted_desc l2 -> (forall s, with_score s l1 = with_score s l2) -> l1 = l2.
Proof.
  induction l1 as [|x l1 IH]; intros l2 S1 S2 E.
  - destruct l2 as [|y l2]; [reflexivity|].
    specialize (E (snd y)). unfold with_score in E. cbn [filter] in E. rewrite N.eqb_refl in E. discriminate.
  - destruct l2 as [|y l2].
    + specialize (E (snd x)). unfold with_score in E. cbn [filter] in E. rewrite N.eqb_refl in E. discriminate.
    + destruct S1 as [Hx S1], S2 as [Hy S2].
      assert (Exy : snd x = snd y).
      { assert (In x (y :: l2)) as Hin.
        { apply (with_score_in (snd x)). rewrite <- E. apply with_score_in. split; [now left|reflexivity]. }
        assert (In y (x :: l1)) as Hin'.
        { apply (with_score_in (snd y)). rewrite E. apply with_score_in. split; [now left|reflexivity]. }
        destruct Hin as [<-|Hin]; [reflexivity|]. destruct Hin' as [<-|Hin']; [reflexivity|].
        specialize (Hy x Hin). specialize (Hx y Hin'). lia. }
      assert (x = y).
      { pose proof (E (snd x)) as E0. unfold with_score in E0. cbn [filter] in E0.
        rewrite N.eqb_refl in E0. rewrite <- Exy, N.eqb_refl in E0. injection E0 as E0 _. exact E0. }
      subst y. f_equal. apply IH; try assumption.
      intros s. specialize (E s). unfold with_score in *. cbn [filter] in E.
      destruct (snd x =? s); [injection E as E; exact E|exact E].
Qed.

Lemma stable_sort_unique l out : stable_sort_desc_of l out -> out = sort_desc l.
Proof.
  intros (_ & S & St). apply sorted_desc_unique; [exact S|apply sort_desc_sorted|].
  intros s. rewrite St, sort_desc_stable. reflexivity.
Qed.

(* equal scores: nothing moves *)
Lemma insert_desc_const x l c : snd x = c -> (forall y, In y l -> snd y = c) -> insert_desc x l = x :: l.
Proof.
  intros Hx Hl. destruct l as [|y l]; [reflexivity|]. cbn [insert_desc].
  rewrite Hx, (Hl y (or_introl eq_refl)), N.ltb_irrefl. reflexivity.
Qed.
Lemma sort_desc_const l c : (forall y, In y l -> snd y = c) -> sort_desc l = l.
Proof.
  induction l as [|x l IH]; intros H; [reflexivity|].
  cbn [sort_desc fold_right]. fold (sort_desc l). rewrite (IH (fun y Hy => H y (or_intror Hy))).
  apply (insert_desc_const x l c); [apply H; now left|intros y Hy; apply H; now right].
Qed.
End Sort.

Lemma sort_desc_all_zero {T} (items : list T) : sort_desc (all_zero items) = all_zero items.
Proof.
  apply (sort_desc_const _ 0). intros y Hy. unfold all_zero in Hy. apply in_map_iff in Hy.
  destruct Hy as (x & <- & _). reflexivity.
Qed.

(* ---- match_list ---------------------------------------------------------------------------------- *)
(* filter_scores with a score function that behaves like a pure `value` whatever state it is started in *)
Lemma filter_scores_spec {T} (score : ustr -> config -> result (option N) * config)
  (value : ustr -> option N) (conv : T -> ustr) (m : config) (items : list T) : forall m1,
  same_base m m1 ->
  (forall x m2, In x items -> same_base m m2 ->
     fst (score (conv x) m2) = RDone (value (conv x)) /\ same_base m (snd (score (conv x) m2))) ->
  fst (filter_scores score conv items m1) = RDone (matching value conv items)
  /\ same_base m (snd (filter_scores score conv items m1)).
Proof.
  induction items as [|x items IH]; intros m1 SB H.
  - cbn. split; [reflexivity|exact SB].
  - cbn [filter_scores matching flat_map].
    destruct (H x m1 (or_introl eq_refl) SB) as [E1 E2].
    destruct (score (conv x) m1) as [r m2]. cbn [fst snd] in E1, E2. subst r.
    destruct (IH m2 E2 (fun y m3 Hy => H y m3 (or_intror Hy))) as [F1 F2].
    fold (matching value conv items).
    destruct (value (conv x)) as [s|].
    + destruct (filter_scores score conv items m2) as [r m3]. cbn [fst snd] in F1, F2. subst r.
      cbn [fst snd app]. split; [reflexivity|exact F2].
    + cbn [app]. split; assumption.
Qed.

Lemma atom_score_spec a h m m1 :
  same_base m m1 -> no_panic m a h ->
  fst (atom_score a h m1) = RDone (atom_value m a h) /\ same_base m (snd (atom_score a h m1)).
Proof.
  intros SB NP. rewrite atom_score_unfold. cbn [fst snd].
  rewrite <- (inner_same m m1 a h SB), <- (set_flags_same m m1 a SB).
  split; [apply verdict_value, NP|apply same_base_set].
Qed.

(* every Matcher entry point answers Some(0) / no indices for an empty needle *)
Lemma run_empty_needle cfg k h n : cs n = [] -> run cfg (algo_of_kind k) h n = Match 0 [].
Proof.
  intros E. destruct k; cbn [algo_of_kind run];
    unfold fuzzy_impl, substring_impl, prefix_entry, postfix_entry, exact_entry; rewrite E; try reflexivity.
  - cbn [lenN length N.of_nat]. destruct (N.ltb_spec (lenN (cs h)) 0); [lia|reflexivity].
  - cbn [lenN length N.of_nat]. destruct (N.ltb_spec (lenN (cs h)) 0); [lia|reflexivity].
Qed.

Lemma atom_value_empty_positive m a h :
  cs (needle a) = [] -> negative a = false -> atom_value m a h = Some 0.
Proof.
  intros E Hn. unfold atom_value, atom_passes, atom_points, inner.
  rewrite (run_empty_needle _ _ _ _ E), Hn. reflexivity.
Qed.

Lemma matching_all {T} value (conv : T -> ustr) items :
  (forall x, In x items -> value (conv x) = Some 0) -> matching value conv items = all_zero items.
Proof.
  induction items as [|x items IH]; intros H; [reflexivity|].
  cbn [matching flat_map all_zero map]. rewrite (H x (or_introl eq_refl)).
  fold (matching value conv items). rewrite (IH (fun y Hy => H y (or_intror Hy))). reflexivity.
Qed.

Lemma atom_match_list_spec {T} a (conv : T -> ustr) items m m1 :
  same_base m m1 ->
  (forall x, In x items -> no_panic m a (conv x)) ->
  fst (atom_match_list a conv items m1) = RDone (sort_desc (matching (atom_value m a) conv items)).
Proof.
  intros SB NP. unfold atom_match_list, is_empty_str.
  destruct (cs (needle a)) eqn:E; [destruct (negative a) eqn:Hn|]; cbn [andb negb].
  - destruct (filter_scores_spec (atom_score a) (atom_value m a) conv m items m1 SB) as [F1 _].
    { intros x m2 Hx SB2. apply atom_score_spec; [exact SB2|exact (NP x Hx)]. }
    destruct (filter_scores (atom_score a) conv items m1) as [r m2]. cbn [fst] in F1. subst r. reflexivity.
  - cbn [fst]. rewrite matching_all, sort_desc_all_zero; [reflexivity|].
    intros x _. apply atom_value_empty_positive; assumption.
  - destruct (filter_scores_spec (atom_score a) (atom_value m a) conv m items m1 SB) as [F1 _].
    { intros x m2 Hx SB2. apply atom_score_spec; [exact SB2|exact (NP x Hx)]. }
    destruct (filter_scores (atom_score a) conv items m1) as [r m2]. cbn [fst] in F1. subst r. reflexivity.
Qed.

Lemma pattern_match_list_spec {T} atoms (conv : T -> ustr) items m m1 :
  same_base m m1 ->
  (forall x a, In x items -> In a atoms -> no_panic m a (conv x)) ->
  (forall x a, In x items -> In a atoms -> score_u16 m a (conv x)) ->
  lenN atoms <= 65537 ->
  fst (pattern_match_list atoms conv items m1) = RDone (sort_desc (matching (pattern_value m atoms) conv items)).
Proof.
  intros SB NP U L. unfold pattern_match_list. destruct atoms as [|a atoms].
  - cbn [fst]. rewrite matching_all, sort_desc_all_zero; reflexivity.
  - remember (a :: atoms) as p.
    destruct (filter_scores_spec (pattern_score p) (pattern_value m p) conv m items m1 SB) as [F1 _].
    { intros x m2 Hx SB2. apply pattern_score_spec; [exact SB2| | |exact L].
      - intros b Hb. exact (NP x b Hx Hb).
      - intros b Hb. exact (U x b Hx Hb). }
    destruct (filter_scores (pattern_score p) conv items m1) as [r m2]. cbn [fst] in F1. subst r. reflexivity.
Qed.

(* each matching input occurs exactly once in `matching`: it is the input list with the non-matching
   elements removed and the score attached *)
Lemma matching_fst {T} value (conv : T -> ustr) items :
  map fst (matching value conv items)
  = filter (fun x => match value (conv x) with Some _ => true | None => false end) items.
Proof.
  induction items as [|x items IH]; [reflexivity|].
  cbn [matching flat_map filter]. fold (matching value conv items).
  destruct (value (conv x)); cbn [app map fst]; rewrite IH; reflexivity.
Qed.
Lemma matching_snd {T} value (conv : T -> ustr) items x s :
  In (x, s) (matching value conv items) -> value (conv x) = Some s.
Proof.
  induction items as [|y items IH]; [intros []|].
  cbn [matching flat_map]. fold (matching value conv items). intros H. apply in_app_or in H.
  destruct H as [H|H]; [|exact (IH H)].
  destruct (value (conv y)) eqn:E; [|destruct H]. destruct H as [H|[]]. injection H as -> ->. exact E.
Qed.

(* ---- independence of the incoming ignore_case / normalize, without any side condition ------------- *)
Lemma atom_score_indep a h m m' : same_base m m' -> atom_score a h m = atom_score a h m'.
Proof.
  intros H. rewrite !atom_score_unfold, (inner_same m m' a h H), (set_flags_same m m' a H). reflexivity.
Qed.

Lemma atom_indices_indep a h m m' idx : same_base m m' -> atom_indices a h m idx = atom_indices a h m' idx.
Proof.
  intros H. unfold atom_indices. rewrite (set_flags_same m m' a H). reflexivity.
Qed.

Lemma pattern_score_loop_indep atoms h m m' acc : same_base m m' ->
  fst (pattern_score_loop atoms h m acc) = fst (pattern_score_loop atoms h m' acc) /\
  same_base (snd (pattern_score_loop atoms h m acc)) (snd (pattern_score_loop atoms h m' acc)).
Proof.
  intros H. destruct atoms as [|a atoms].
  - cbn. split; [reflexivity|exact H].
  - cbn [pattern_score_loop]. rewrite (atom_score_indep a h m m' H). split; [reflexivity|apply same_base_refl].
Qed.

Lemma pattern_score_indep atoms h m m' : same_base m m' ->
  fst (pattern_score atoms h m) = fst (pattern_score atoms h m') /\
  same_base (snd (pattern_score atoms h m)) (snd (pattern_score atoms h m')).
Proof.
  intros H. destruct atoms as [|a atoms].
  - cbn. split; [reflexivity|exact H].
  - apply (pattern_score_loop_indep (a :: atoms) h m m' 0 H).
Qed.

Lemma pattern_indices_indep atoms h m m' idx : same_base m m' ->
  fst (fst (pattern_indices atoms h m idx)) = fst (fst (pattern_indices atoms h m' idx)) /\
  snd (pattern_indices atoms h m idx) = snd (pattern_indices atoms h m' idx).
Proof.
  intros H. destruct atoms as [|a atoms].
  - cbn. split; reflexivity.
  - unfold pattern_indices. cbn [pattern_indices_loop]. rewrite (atom_indices_indep a h m m' idx H).
    split; reflexivity.
Qed.

Lemma multi_score_loop_indep cols : forall hs m m' acc, same_base m m' ->
  fst (multi_score_loop cols hs m acc) = fst (multi_score_loop cols hs m' acc).
Proof.
  induction cols as [|p cols IH]; intros hs m m' acc H; [reflexivity|].
  destruct hs as [|h hs]; [reflexivity|]. cbn [multi_score_loop].
  destruct (pattern_score_indep p h m m' H) as [E1 E2].
  destruct (pattern_score p h m) as [r1 c1], (pattern_score p h m') as [r2 c2]. cbn [fst snd] in E1, E2.
  subst r2. destruct r1 as [[s|]|k]; try reflexivity.
  destruct (add32 acc s); [apply IH; exact E2|reflexivity].
Qed.

Lemma filter_scores_indep {T} (score : ustr -> config -> result (option N) * config) (conv : T -> ustr) items :
  (forall h m m', same_base m m' ->
     fst (score h m) = fst (score h m') /\ same_base (snd (score h m)) (snd (score h m'))) ->
  forall m m', same_base m m' ->
  fst (filter_scores score conv items m) = fst (filter_scores score conv items m').
Proof.
  intros R. induction items as [|x items IH]; intros m m' H; [reflexivity|].
  cbn [filter_scores]. destruct (R (conv x) m m' H) as [E1 E2].
  destruct (score (conv x) m) as [r1 c1], (score (conv x) m') as [r2 c2]. cbn [fst snd] in E1, E2. subst r2.
  destruct r1 as [[s|]|k]; [|exact (IH c1 c2 E2)|reflexivity].
  specialize (IH c1 c2 E2).
  destruct (filter_scores score conv items c1) as [q1 d1], (filter_scores score conv items c2) as [q2 d2].
  cbn [fst] in IH. subst q2. destruct q1; reflexivity.
Qed.

Lemma atom_score_respects a h m m' : same_base m m' ->
  fst (atom_score a h m) = fst (atom_score a h m') /\ same_base (snd (atom_score a h m)) (snd (atom_score a h m')).
Proof. intros H. rewrite (atom_score_indep a h m m' H). split; [reflexivity|apply same_base_refl]. Qed.

Lemma atom_match_list_indep {T} a (conv : T -> ustr) items m m' : same_base m m' ->
  fst (atom_match_list a conv items m) = fst (atom_match_list a conv items m').
Proof.
  intros H. unfold atom_match_list. destruct (is_empty_str (needle a) && negb (negative a)); [reflexivity|].
  pose proof (filter_scores_indep (atom_score a) conv items (atom_score_respects a) m m' H) as E.
  destruct (filter_scores (atom_score a) conv items m) as [q1 d1],
           (filter_scores (atom_score a) conv items m') as [q2 d2]. cbn [fst] in E. subst q2.
  destruct q1; reflexivity.
Qed.

Lemma pattern_match_list_indep {T} atoms (conv : T -> ustr) items m m' : same_base m m' ->
  fst (pattern_match_list atoms conv items m) = fst (pattern_match_list atoms conv items m').
Proof.
  intros H. unfold pattern_match_list. destruct atoms as [|a atoms]; [reflexivity|].
  pose proof (filter_scores_indep (pattern_score (a :: atoms)) conv items
                (pattern_score_indep (a :: atoms)) m m' H) as E.
  destruct (filter_scores (pattern_score (a :: atoms)) conv items m) as [q1 d1],
           (filter_scores (pattern_score (a :: atoms)) conv items m') as [q2 d2]. cbn [fst] in E. subst q2.
  destruct q1; reflexivity.
Qed.

(* ---- what a call may change in the matcher configuration: the two overwritten fields, nothing else -- *)
Lemma pattern_score_loop_base atoms : forall h m m1 acc, same_base m m1 ->
  same_base m (snd (pattern_score_loop atoms h m1 acc)).
Proof.
  induction atoms as [|a atoms IH]; intros h m m1 acc SB; [exact SB|].
  cbn [pattern_score_loop]. rewrite atom_score_unfold.
  assert (SB' : same_base m (set_flags m1 a)).
  { apply (same_base_trans _ m1); [exact SB|apply same_base_set]. }
  destruct (verdict (negative a) (inner m1 a h)) as [[s|]|k]; cbn [snd]; try exact SB'.
  destruct (add32 acc s); [apply IH; exact SB'|exact SB'].
Qed.

Lemma pattern_score_base atoms h m : same_base m (snd (pattern_score atoms h m)).
Proof.
  destruct atoms as [|a atoms]; [apply same_base_refl|].
  apply (pattern_score_loop_base (a :: atoms) h m m 0 (same_base_refl m)).
Qed.
