(* C07 (text half), model level: the append hint against the MODEL of the matcher entry points (`run`,
   Model/Matcher.v) instead of the spec relations.  Built on Proofs/AppendFacts.v (spec level) and the decision
   theorems C01 / C05 / C02 / DP_no_panic. *)
From Coq Require Import NArith PeanoNat List Bool Lia ZifyBool ZifyNat ZifyN.
From NV Require Import Base.Util Model.Chars Model.Matcher Model.PatternParse Spec.Matching Spec.Statements
  Spec.PatternParseSpec Spec.AppendSpec Proofs.CharsFacts Proofs.C01Facts Proofs.C05Facts Proofs.WitnessFacts Proofs.DPFacts
  Proofs.C14Facts Proofs.AppendFacts.
From NV Require Proofs.DPSingle.
Import ListNotations.
Local Open Scope N_scope.

(* ---- K1: a Unicode needle never matches an ASCII haystack ----------------------------------------------- *)
Lemma exact_impl_K1 cfg hs ns st e : known_K1 hs ns -> exact_impl cfg hs ns st e = NoMatch.
Proof. intros [H1 H2]. unfold exact_impl. cbv zeta. rewrite H1, H2. destruct (negb _); reflexivity. Qed.

Lemma K1_no_match cfg k hs ns : known_K1 hs ns -> cs ns <> [] -> is_some_match (run cfg (algo_of k) hs ns) = false.
Proof.
  intros K Hne. pose proof (exact_impl_K1 cfg hs ns) as EX. destruct K as [H1 H2].
  destruct k; cbn [algo_of run].
  - unfold fuzzy_impl. cbv zeta. destruct (_ <? _); [reflexivity|]. destruct (cs ns) as [|n0 nr] eqn:E; [contradiction|].
    destruct (_ =? _); [rewrite EX by (split; assumption); reflexivity|]. rewrite H1, H2. reflexivity.
  - unfold substring_impl. cbv zeta. destruct (_ <? _); [reflexivity|]. destruct (cs ns) as [|n0 nr] eqn:E; [contradiction|].
    destruct (_ =? _); [rewrite EX by (split; assumption); reflexivity|]. rewrite H1, H2. reflexivity.
  - unfold prefix_entry. destruct (cs ns) as [|n0 nr] eqn:E; [contradiction|]. cbv zeta.
    destruct (_ <? _); [reflexivity|]. rewrite EX by (split; assumption). reflexivity.
  - unfold postfix_entry. destruct (cs ns) as [|n0 nr] eqn:E; [contradiction|]. cbv zeta.
    destruct (_ <? _); [reflexivity|]. rewrite EX by (split; assumption). reflexivity.
  - unfold exact_entry. destruct (cs ns) as [|n0 nr] eqn:E; [contradiction|]. cbv zeta.
    destruct (_ =? _); [reflexivity|]. destruct (_ <? _); [reflexivity|]. rewrite EX by (split; assumption). reflexivity.
Qed.

Lemma opt_some_is_some {A} (o : option A) : opt_some o = opt_is_some o.
Proof. destruct o; reflexivity. Qed.

(* ---- a match of the model implies the spec relation of the kind ----------------------------------------- *)
Lemma run_sound cfg k hs ns :
  wf_str hs -> wf_str ns -> needle_ok cfg (rp ns) (cs ns) = true -> cs ns <> [] ->
  is_some_match (run cfg (algo_of k) hs ns) = true ->
  ~ known_K1 hs ns /\ kind_matches cfg (rp hs) (cs hs) (cs ns) k = true.
Proof.
  intros Wh Wn Hok Hne M.
  assert (HK : ~ known_K1 hs ns).
  { intros K. rewrite (K1_no_match cfg k hs ns K Hne) in M. discriminate. }
  split; [exact HK|].
  destruct (C05_exact_kinds cfg hs ns Wh Wn Hok HK Hne) as (Ep & Eo & Ee).
  destruct k; cbn [algo_of kind_matches] in *.
  - pose proof (C01_fuzzy_reject cfg hs ns Wh Wn Hok HK) as [_ R]. unfold normalised_subseq in R.
    destruct (subseq_b (cs ns) (nh cfg (rp hs) (cs hs))); [reflexivity|]. rewrite (R eq_refl) in M. discriminate.
  - destruct (run cfg Substring hs ns) as [|s idx|] eqn:E; try discriminate M.
    destruct (C02_shape cfg Substring hs ns s idx (or_introl eq_refl) Wh Wn Hok Hne E) as (st & _ & _ & O).
    exact (occurs_any_intro _ _ _ _ _ O).
  - rewrite opt_some_is_some, <- Ep. exact M.
  - rewrite opt_some_is_some, <- Eo. exact M.
  - rewrite opt_some_is_some, <- Ee. exact M.
Qed.

(* ---- the spec relation implies a match of the model (fuzzy, prefix, substring with >= 2 characters) ------ *)
Lemma fold_pick_some (f : option N -> N -> option N) l : (forall b p, f (Some b) p <> None) ->
  forall b, fold_left f l (Some b) <> None.
Proof.
  intros Hf. induction l as [|p l IH]; intros b; cbn [fold_left]; [discriminate|].
  destruct (f (Some b) p) as [b'|] eqn:E; [apply IH|]. exfalso. exact (Hf b p E).
Qed.

Lemma substring_pos_none cfg hr h n p : n <> [] ->
  spec_substring_pos cfg hr h n = None -> occurs cfg hr h n p = false.
Proof.
  intros Hne Hs. destruct (occurs cfg hr h n p) eqn:O; [exfalso|reflexivity].
  unfold spec_substring_pos in Hs. cbv zeta in Hs.
  assert (Hin : In p (filter (occurs cfg hr h n) (all_positions h))).
  { apply filter_In. split; [|exact O]. apply occurs_iff in O. destruct O as [Hl _].
    unfold all_positions. apply in_map_iff. exists (N.to_nat p). split; [lia|]. apply in_seq.
    destruct n; [contradiction|]. cbn [length] in Hl. lia. }
  destruct (filter (occurs cfg hr h n) (all_positions h)) as [|q l]; [destruct Hin|].
  cbn [fold_left] in Hs. revert Hs. apply fold_pick_some. intros b x. destruct (_ <? _); discriminate.
Qed.


(* one-character needles: substring_match_1_ascii / substring_match_1_non_ascii find every occurrence *)
Lemma substring_single_complete cfg hs ns c p :
  cs ns = [c] -> needle_ok cfg (rp ns) (cs ns) = true -> ~ known_K1 hs ns -> (1 < length (cs hs))%nat ->
  occurs cfg (rp hs) (cs hs) [c] p = true -> is_some_match (substring_impl cfg hs ns) = true.
Proof.
  intros E Hok HK Hlen O. unfold substring_impl. cbv zeta. rewrite E in *.
  replace (lenN (cs hs) <? lenN [c]) with false by (unfold lenN; cbn [length]; lia).
  replace (lenN [c] =? lenN (cs hs)) with false by (unfold lenN; cbn [length]; lia).
  assert (Hnc : norm cfg (rp ns) c = c) by (eapply WitnessFacts.needle_ok_in; [exact Hok|left; reflexivity]).
  pose proof O as O'. apply DPSingle.occurs_single_iff in O'. destruct O' as [Hpl Hpn].
  destruct (rp hs) eqn:Ehr.
  - destruct (rp ns) eqn:Enr; [|exfalso; apply HK; split; assumption].
    unfold substring_1_ascii. destruct (best_pos _ _ _) as [[i sc]|] eqn:Ebp; [reflexivity|exfalso].
    apply C05Facts.best_pos_none in Ebp.
    rewrite (DPSingle.scan_cands_ext cfg Ascii _ (prefix_match cfg Ascii [c])) in Ebp.
    2:{ intros l. rewrite DPSingle.prefix_match_single. destruct l; cbn [head_is]; [reflexivity|].
        apply WitnessFacts.byte_matches_norm. exact Hnc. }
    pose proof (scan_cands_spec cfg Ascii [c] (cs hs) (cs hs) [] eq_refl) as Sp.
    change (lenN []) with 0 in Sp. change (prev_class cfg Ascii (cs hs) 0) with (init_class cfg) in Sp.
    rewrite Sp in Ebp. apply map_eq_nil in Ebp.
    assert (Hin : In p (filter (occurs cfg Ascii (cs hs) [c]) (map N.of_nat (seq (length (@nil N)) (length (cs hs)))))).
    { apply filter_In. split; [|exact O]. apply in_map_iff. exists (N.to_nat p). split; [lia|]. apply in_seq. cbn [length]. lia. }
    rewrite Ebp in Hin. destruct Hin.
  - unfold prefilter_non_ascii.
    replace (takeN (lenN (cs hs) - lenN [c] + 1) (cs hs)) with (cs hs).
    2:{ unfold takeN, lenN. cbn [length]. replace (N.to_nat (N.of_nat (length (cs hs)) - N.of_nat 1 + 1)) with (length (cs hs)) by lia.
        symmetry. apply firstn_all. }
    destruct (position_le (fun c0 => norm cfg Unicode c0 =? c) 0 (cs hs) (N.to_nat p) Hpl) as (k & Hk & Hkp).
    { unfold nh in Hpn. rewrite (nth_indep _ 0 (norm cfg Unicode 0)) in Hpn by (rewrite map_length; lia).
      rewrite map_nth in Hpn. rewrite Hpn. apply N.eqb_refl. }
    rewrite Hk. replace (lenN (cs hs) - k <? lenN [c]) with false by (unfold lenN; cbn [length]; lia).
    assert (is_some_match (substring_1_non_ascii cfg (cs hs) c k) = true) as Hm.
    { unfold substring_1_non_ascii. destruct (best_pos _ _ _) as [[i sc]|]; reflexivity. }
    destruct (rp ns); exact Hm.
Qed.

Lemma run_complete cfg k hs ns :
  wf_str hs -> wf_str ns -> needle_ok cfg (rp ns) (cs ns) = true -> cs ns <> [] -> ~ known_K1 hs ns ->
  (k = AFuzzy \/ k = APrefix \/ k = ASubstring) ->
  kind_matches cfg (rp hs) (cs hs) (cs ns) k = true ->
  is_some_match (run cfg (algo_of k) hs ns) = true.
Proof.
  intros Wh Wn Hok Hne HK Hk M. destruct Hk as [->|[->| ->]]; cbn [algo_of kind_matches] in *.
  - pose proof (C01_fuzzy_reject cfg hs ns Wh Wn Hok HK) as [R _]. unfold normalised_subseq in R.
    pose proof (DP_no_panic cfg hs ns [] ) as NP. cbn [run] in *.
    destruct (fuzzy_impl cfg hs ns []) as [|s idx|j] eqn:E; [|reflexivity|].
    + rewrite (R eq_refl) in M. discriminate.
    + exfalso. exact (NP j Hok eq_refl).
  - destruct (C05_exact_kinds cfg hs ns Wh Wn Hok HK Hne) as (Ep & _ & _).
    rewrite Ep, <- opt_some_is_some. exact M.
  - apply occurs_any_elim in M. destruct M as (p & O). pose proof O as O'. apply occurs_iff in O'. destruct O' as [Hl _].
    destruct (Nat.eq_dec (length (cs ns)) (length (cs hs))) as [Heq|Hneq].
    + (* needle as long as the haystack: the exact path *)
      assert (p = 0) by lia. subst p. cbn [run]. unfold substring_impl. cbv zeta.
      replace (lenN (cs hs) <? lenN (cs ns)) with false by (unfold lenN; lia).
      replace (lenN (cs ns) =? lenN (cs hs)) with true by (unfold lenN; lia).
      assert (E : exists n0 nr, cs ns = n0 :: nr) by (destruct (cs ns); [contradiction|eauto]).
      destruct E as (n0 & nr & E). rewrite E. cbv iota.
      rewrite (C05Facts.exact_impl_spec cfg hs ns 0 (lenN (cs hs)) Hok HK Hne) by (unfold lenN; lia). exact O.
    + assert (Hlt : (length (cs ns) < length (cs hs))%nat) by (clear - Hl Hneq; lia).
      destruct (Compare_dec.le_lt_dec 2 (length (cs ns))) as [Hlen|Hshort].
      2:{ assert (E : exists c, cs ns = [c]).
          { destruct (cs ns) as [|c [|c2 r]]; [contradiction|eauto|cbn [length] in Hshort; lia]. }
          destruct E as (c & E). cbn [run]. rewrite E in O, Hlt. cbn [length] in Hlt.
          exact (substring_single_complete cfg hs ns c p E Hok HK Hlt O). }
      pose proof (C05_substring cfg hs ns Wh Wn Hok HK Hlen Hlt) as S.
      destruct (run cfg Substring hs ns) as [|s idx|j]; [|reflexivity|destruct S].
      rewrite (substring_pos_none cfg (rp hs) (cs hs) (cs ns) p Hne S) in O. discriminate.
Qed.

(* ---- the stored needle is a well-formed string of its representation -------------------------------------- *)
Lemma fold_values_wf : forallb (fun kv => wf_char Unicode (snd kv)) case_fold_table = true.
Proof. vm_compute. reflexivity. Qed.

Lemma to_lower_wf x : wf_char Unicode x = true -> wf_char Unicode (to_lower x) = true.
Proof.
  intros H. rewrite to_lower_assoc. destruct (assoc x case_fold_table) as [v|] eqn:A; [|exact H].
  apply assoc_in in A. pose proof fold_values_wf as T. rewrite forallb_forall in T. exact (T (x, v) A).
Qed.

Lemma seg_simple_char_wf x : seg_simple_char x = true -> wf_char Unicode x = true.
Proof. unfold seg_simple_char, wf_char, in_range. intros H. lia. Qed.

Lemma nd_chars cm a3 d c : In c (nd cm a3 d) -> exists x, (In x a3 \/ x = SPACE \/ x = DOLLAR) /\ c = cmap cm x.
Proof.
  unfold nd. intros H. apply in_app_or in H. destruct H as [H|H].
  - apply in_map_iff in H. destruct H as (x & <- & Hx). exists x. split; [|reflexivity].
    destruct (unescape_in a3 x Hx); auto.
  - destruct d; [|destruct H]. destruct H as [<-|[]]. exists DOLLAR. split; [auto|]. symmetry. apply cmap_dollar.
Qed.

Lemma atom_parse_wf seg raw cm nm :
  seg_faithful seg -> good raw -> wf_str (needle_str (atom_parse true seg raw cm nm)).
Proof.
  intros Hs G c Hc. cbn [needle_str rp cs] in *. rewrite atom_parse_repr.
  destruct (strip_invert raw) as [inv a1] eqn:E1. destruct (strip_kind a1) as [k0 a2] eqn:E2.
  destruct (strip_dollar k0 a2) as [[k1 d] a3] eqn:E3.
  destruct (atom_parse_nd seg raw cm nm _ _ _ _ _ _ _ Hs G E1 E2 E3) as (_ & _ & F3). rewrite F3 in Hc.
  destruct (nd_chars cm a3 d c Hc) as (x & Hx & ->).
  destruct (strip_invert_suffix _ _ _ E1) as (p1 & R1). destruct (strip_kind_suffix _ _ _ E2) as (p2 & R2).
  destruct (strip_dollar_prefix _ _ _ _ _ E3) as (p3 & R3).
  assert (Hraw : In x raw \/ x = SPACE \/ x = DOLLAR).
  { destruct Hx as [Hx|Hx]; [left|right; exact Hx]. rewrite R1, R2, R3. apply in_or_app. right. apply in_or_app. right.
    apply in_or_app. now left. }
  destruct (is_ascii raw) eqn:A.
  - cbn [wf_char]. assert (x < 128).
    { destruct Hraw as [Hr|[->| ->]]; [exact (is_ascii_forall raw A x Hr)|reflexivity|reflexivity]. }
    destruct cm; cbn [cmap]; try lia. rewrite (to_lower_ascii x H). unfold in_range. destruct (_ && _) eqn:R; lia.
  - assert (W : wf_char Unicode x = true).
    { destruct Hraw as [Hr|[->| ->]]; [|reflexivity|reflexivity]. apply seg_simple_char_wf.
      destruct G as [G _]. unfold seg_simple in G. rewrite forallb_forall in G. exact (G x Hr). }
    destruct cm; cbn [cmap]; try exact W. apply to_lower_wf, W.
Qed.

(* ---- the theorem ---------------------------------------------------------------------------------------------- *)
Lemma needle_ok_atom seg raw cm nm m :
  let a := atom_parse true seg raw cm nm in
  needle_ok (atom_cfg m a) (rp (needle_str a)) (cs (needle_str a)) = true.
Proof. cbv zeta. exact (atom_parse_needle_fixed true seg raw cm nm (atom_cfg m _) eq_refl eq_refl). Qed.

Lemma C07_append_refines_run : C07_append_refines_run_stmt.
Proof.
  intros seg cm nm old suffix m hs Hseg Hsimple Wh. cbv zeta. intros UA0 LA0.
  destruct (update_allowed_split _ UA0 LA0) as [UA LA].
  destruct (append_structure seg cm nm old suffix Hseg Hsimple UA LA) as (common & rest & [[EO EN]|(rawO & rawN & EO & EN & X)]);
    rewrite EO in *; rewrite EN; unfold pattern_runs; rewrite !forallb_app; intros PM; apply andb_true_iff in PM; destruct PM as [PM1 PM2].
  - exact PM1.
  - rewrite PM1. cbn [forallb andb] in *. rewrite andb_true_r. apply andb_true_iff in PM2. destruct PM2 as [PM2 _].
    destruct X as (NO & NN & Nne & R & Hz & (s & Es) & Gn). subst rawN.
    assert (Go : good rawO) by (apply (good_mid [] rawO s); exact Gn).
    set (aO := atom_parse true seg rawO cm nm) in *. set (aN := atom_parse true seg (rawO ++ s) cm nm) in *.
    pose proof (needle_refines_nonempty _ _ _ _ R Nne) as Nne'.
    unfold atom_runs in *. rewrite NO. rewrite NN in PM2. rewrite xorb_false_l in *.
    destruct (run_sound (atom_cfg m aN) (a_kind aN) hs (needle_str aN) Wh (atom_parse_wf seg _ cm nm Hseg Gn)
                (needle_ok_atom seg _ cm nm m) Nne' PM2) as [HKn KM].
    cbn [needle_str rp cs] in KM.
    assert (AM : atom_matches m (rp hs) (cs hs) aN = true) by (unfold atom_matches; rewrite NN, xorb_false_l; exact KM).
    pose proof (atom_refines true seg rawO (rawO ++ s) cm nm m (rp hs) (cs hs) NO NN R Hz AM) as AO.
    unfold atom_matches in AO. fold aO in AO. rewrite NO, xorb_false_l in AO.
    apply (run_complete (atom_cfg m aO) (a_kind aO) hs (needle_str aO) Wh (atom_parse_wf seg _ cm nm Hseg Go)
             (needle_ok_atom seg _ cm nm m) Nne).
    + (* K1 is inherited: an ASCII new raw atom has an ASCII old raw atom *)
      intros [K1 K2]. apply HKn. split; [exact K1|]. cbn [needle_str rp] in *. unfold aO, aN in *.
      rewrite atom_parse_repr in *. rewrite is_ascii_app. destruct (is_ascii rawO); [discriminate K2|reflexivity].
    + destruct (a_kind aO); cbn [needle_refines] in R; try contradiction; auto.
    + exact AO.
Qed.

Print Assumptions C07_append_refines_run.

(* ---- the fixed defect and known finding K3, against the model of the matcher itself ----------------------- *)
Lemma C07_escaped_dollar_run_witness :
  let old := [39; 97; 92; 36] in let suffix := [98] in
  let hs := {| rp := Ascii; cs := [97; 92; 36; 98] |} in
  let oa := pattern_parse true crlf old CaseSmart NormSmart in
  let na := pattern_parse true crlf (old ++ suffix) CaseSmart NormSmart in
  update_allowed_old oa = true /\ update_allowed oa = false /\
  pattern_runs m_default hs na = true /\ pattern_runs m_default hs oa = false.
Proof. vm_compute. repeat split; reflexivity. Qed.

Lemma C07_fold_norm_run_witness :
  let old := [389] in let suffix := [233] in
  let hs := {| rp := Unicode; cs := [120; 388; 233; 120] |} in
  let oa := pattern_parse true crlf old CaseSmart NormSmart in
  let na := pattern_parse true crlf (old ++ suffix) CaseSmart NormSmart in
  update_allowed oa = true /\ pattern_runs m_default hs na = true /\ pattern_runs m_default hs oa = false.
Proof. vm_compute. repeat split; reflexivity. Qed.

Print Assumptions C07_escaped_dollar_run_witness.
Print Assumptions C07_fold_norm_run_witness.
