(* C10, layout part: the views MatrixSlab::alloc hands out lie inside the slab, are disjoint and aligned.
   Depends on the translated element-count expressions (Gen/GenScore.v): layout_count_* from
   MatrixLayout::new and view_count_* from fieds_from_ptr. *)
From Coq Require Import ZArith NArith List Bool Lia ZifyBool ZifyN.
From NV Require Import Model.Matcher Spec.Matching Spec.Statements.
Local Open Scope N_scope.
Ltac Zify.zify_post_hook ::= Z.div_mod_to_equations.

Lemma round_up_ge x a : 0 < a -> x <= round_up x a.
Proof. unfold round_up. intros H. nia. Qed.

Lemma round_up_mod x a : 0 < a -> round_up x a mod a = 0.
Proof. unfold round_up. intros H. apply N.mod_mul. lia. Qed.

(* the reference side hands out exactly as many elements as the allocation side reserved *)
Lemma view_counts_match hl nl :
  view_count_haystack hl nl = layout_count_haystack hl nl /\
  view_count_bonus hl nl = layout_count_bonus hl nl /\
  view_count_rows hl nl = layout_count_rows hl nl /\
  view_count_score hl nl = layout_count_score hl nl /\
  view_count_matrix hl nl = layout_count_matrix hl nl.
Proof. repeat split; reflexivity. Qed.

Lemma layout_views_ok : C10_layout_stmt.
Proof.
  unfold C10_layout_stmt. intros hr hl nl Hle Hok.
  unfold slab_alloc_ok in Hok. apply andb_prop in Hok. destruct Hok as [_ Hsz].
  apply N.leb_le in Hsz. unfold layout_size in Hsz.
  unfold layout_offsets, view_lengths. lazy beta iota zeta.
  destruct (view_counts_match hl nl) as (E1 & E2 & E3 & E4 & E5).
  rewrite E1, E2, E3, E4, E5.
  pose proof (round_up_ge (layout_count_haystack hl nl * char_size hr + layout_count_bonus hl nl) 2 ltac:(lia)) as R2.
  pose proof (round_up_ge (round_up (layout_count_haystack hl nl * char_size hr + layout_count_bonus hl nl) 2
                            + 2 * layout_count_rows hl nl) 8 ltac:(lia)) as R8.
  repeat split; try lia; try (apply round_up_mod; lia); try (apply N.mod_0_l; destruct hr; cbn; lia).
Qed.
