(* C10, layout part: the views MatrixSlab::alloc hands out lie inside the slab, are disjoint and aligned.
   Depends on the translated element-count expressions (Gen/GenScore.v): layout_count_* from
   MatrixLayout::new and view_count_* from fieds_from_ptr. *)
From Coq Require Import ZArith NArith List Bool Lia ZifyBool ZifyN.
From NV Require Import Model.Matcher Spec.Matching Spec.Statements.
Local Open Scope N_scope.
Ltac Zify.zify_post_hook ::= Z.div_mod_to_equations.

Lemma round_up_ge x a : 0 < a -> x <= round_up x a.
Proof. unfold round_up. intros H. nia. Qed.

Lemma round_up_mod x a : 0 < a -> round_up x a mod a = 0.
Proof. unfold round_up. intros H. apply N.mod_mul. lia. Qed.

(* the reference side hands out exactly as many elements as the allocation side reserved.
   Stated under nl <= hl: MatrixLayout::new (the only constructor of the layout fieds_from_ptr reads) begins with
   `assert!(haystack_len >= needle_len)`, so the two sides only ever meet under it.  The hypothesis is needed
   because the count expressions are TRANSLATED from matrix.rs and usize/N subtraction truncates: `hl + 1 - nl` and
   `hl - nl + 1` are equal exactly when nl <= hl, and which spelling each side uses is the library's business.
   The proof is by arithmetic on the unfolded expressions (not by reflexivity), so it does not depend on the
   two sides being written identically. *)
Ltac counts_arith :=
  unfold view_count_haystack, view_count_bonus, view_count_rows, view_count_score, view_count_matrix,
         layout_count_haystack, layout_count_bonus, layout_count_rows, layout_count_score, layout_count_matrix;
  first [ reflexivity | lia | nia | (f_equal; lia) | (f_equal; nia) ].

Lemma view_counts_match hl nl : nl <= hl ->
  view_count_haystack hl nl = layout_count_haystack hl nl /\
  view_count_bonus hl nl = layout_count_bonus hl nl /\
  view_count_rows hl nl = layout_count_rows hl nl /\
  view_count_score hl nl = layout_count_score hl nl /\
  view_count_matrix hl nl = layout_count_matrix hl nl.
Proof. intros Hle. repeat split; counts_arith. Qed.

Lemma layout_views_ok : C10_layout_stmt.
Proof.
  unfold C10_layout_stmt. intros hr hl nl Hle Hok.
  unfold slab_alloc_ok in Hok. apply andb_prop in Hok. destruct Hok as [_ Hsz].
  apply N.leb_le in Hsz. unfold layout_size in Hsz.
  unfold layout_offsets, view_lengths. lazy beta iota zeta.
  destruct (view_counts_match hl nl Hle) as (E1 & E2 & E3 & E4 & E5).
  rewrite E1, E2, E3, E4, E5.
  pose proof (round_up_ge (layout_count_haystack hl nl * char_size hr + layout_count_bonus hl nl) 2 ltac:(lia)) as R2.
  pose proof (round_up_ge (round_up (layout_count_haystack hl nl * char_size hr + layout_count_bonus hl nl) 2
                            + 2 * layout_count_rows hl nl) 8 ltac:(lia)) as R8.
  repeat split; try lia; try (apply round_up_mod; lia); try (apply N.mod_0_l; destruct hr; cbn; lia).
Qed.
