(* The two loops of score_row: local lemmas (L1-L5) used by the row invariant. *)
From Coq Require Import ZArith NArith List Bool Lia ZifyBool ZifyN ZifyNat.
From NV Require Import Base.Util Model.Chars Model.Matcher Spec.Matching Spec.Statements Proofs.CharsFacts
  Proofs.DPBase.
Import ListNotations.
Local Open Scope N_scope.

Definition cells_of {A B C D} (x : A * B * C * D) : D := snd x.
Definition state_of {A B C D} (x : A * B * C * D) : A * B * C := fst x.

(* L1: the back-pointer cells of the second loop are those of the first loop run over the same columns *)
Lemma main_pass_cells first nc nnc : forall hs bs rs pp pm pfx,
  snd (main_pass first nc nnc hs bs rs pp pm pfx) =
  cells_of (skip_pass first nc (removelast hs) (removelast bs) rs pp pm pfx).
Proof.
  induction hs as [|c0 hs IH]; intros bs rs pp pm pfx; [reflexivity|].
  destruct hs as [|c1 hs']; [rewrite main_pass_short1; reflexivity|].
  destruct rs as [|r rs].
  { rewrite main_pass_nil_rs. change (removelast (c0 :: c1 :: hs')) with (c0 :: removelast (c1 :: hs')).
    destruct (removelast bs); reflexivity. }
  destruct bs as [|b0 [|b1 bs']]; [reflexivity|reflexivity|].
  rewrite main_pass_cons.
  change (removelast (c0 :: c1 :: hs')) with (c0 :: removelast (c1 :: hs')).
  change (removelast (b0 :: b1 :: bs')) with (b0 :: removelast (b1 :: bs')).
  rewrite skip_pass_cons. specialize (IH (b1 :: bs') rs (fst (p_score pp pm)) (sc (mcell_of first nc c0 b0 r pfx)) (pfx_next first pfx)).
  destruct (main_pass first nc nnc (c1 :: hs') (b1 :: bs') rs _ _ _) as [t cl].
  destruct (skip_pass first nc (removelast (c1 :: hs')) (removelast (b1 :: bs')) rs _ _ _) as [[[a b] c] d].
  cbn [snd cells_of] in *. rewrite IH. reflexivity.
Qed.

(* L2: the first loop over concatenated ranges *)
Lemma skip_pass_app first nc : forall h1 b1 r1 h2 b2 r2 pp pm pfx,
  length b1 = length h1 -> length r1 = length h1 ->
  skip_pass first nc (h1 ++ h2) (b1 ++ b2) (r1 ++ r2) pp pm pfx =
  let '(pp1, pm1, pfx1, c1) := skip_pass first nc h1 b1 r1 pp pm pfx in
  let '(pp2, pm2, pfx2, c2) := skip_pass first nc h2 b2 r2 pp1 pm1 pfx1 in
  (pp2, pm2, pfx2, c1 ++ c2).
Proof.
  induction h1 as [|c h1 IH]; intros b1 r1 h2 b2 r2 pp pm pfx L1 L2.
  - destruct b1; [|discriminate]. destruct r1; [|discriminate]. cbn [app skip_pass].
    destruct (skip_pass first nc h2 b2 r2 pp pm pfx) as [[[a b] c] d]. reflexivity.
  - destruct b1 as [|b b1]; [discriminate|]. destruct r1 as [|r r1]; [discriminate|].
    cbn [app]. rewrite !skip_pass_cons. rewrite IH by (cbn [length] in *; lia).
    destruct (skip_pass first nc h1 b1 r1 _ _ _) as [[[pp1 pm1] pfx1] c1].
    destruct (skip_pass first nc h2 b2 r2 pp1 pm1 pfx1) as [[[pp2 pm2] pfx2] c2]. reflexivity.
Qed.

Lemma skip_pass_nil_state first nc bs rs pp pm pfx :
  skip_pass first nc [] bs rs pp pm pfx = (pp, pm, pfx, []).
Proof. reflexivity. Qed.

(* number of iterations of the first loop *)
Lemma skip_pass_len first nc : forall hs bs rs pp pm pfx,
  length (cells_of (skip_pass first nc hs bs rs pp pm pfx)) = Nat.min (length hs) (Nat.min (length bs) (length rs)).
Proof.
  induction hs as [|c hs IH]; intros bs rs pp pm pfx; [reflexivity|].
  destruct bs as [|b bs]; [reflexivity|]. destruct rs as [|r rs]; [cbn [skip_pass cells_of snd length]; lia|].
  rewrite skip_pass_cons. specialize (IH bs rs (fst (p_score pp pm)) (sc (mcell_of first nc c b r pfx)) (pfx_next first pfx)).
  destruct (skip_pass first nc hs bs rs _ _ _) as [[[a b'] c'] d]. cbn [cells_of snd length] in *. lia.
Qed.

(* ---- L3: properties of the back-pointer cells ------------------------------------------------------ *)
Lemma p_score_matched pp pm : snd (p_score pp pm) = true -> 4 <= pm.
Proof.
  unfold p_score, PENALTY_GAP_START, PENALTY_GAP_EXTENSION.
  destruct (N.ltb_spec (pp - 1) (pm - 3)); cbn [snd]; [lia|discriminate].
Qed.

Lemma p_score_00 : p_score 0 0 = (0, false).
Proof. reflexivity. Qed.

Lemma p_score_0m pm : 4 <= pm -> snd (p_score 0 pm) = true.
Proof.
  intros H. unfold p_score, PENALTY_GAP_START, PENALTY_GAP_EXTENSION.
  destruct (N.ltb_spec (0 - 1) (pm - 3)); cbn [snd]; [reflexivity|lia].
Qed.

Lemma mcell_of_real first nc c b r pfx :
  (first = false -> 4 <= sc r -> c = nc) -> 4 <= sc (mcell_of first nc c b r pfx) -> c = nc.
Proof.
  unfold mcell_of. destruct first; [|auto]. intros _. destruct (N.eqb_spec c nc); [auto|].
  cbn [sc UNMATCHED]. lia.
Qed.

Lemma skip_cells_fst first nc : forall hs bs rs pp pm pfx,
  (first = false -> forall t, (t < length rs)%nat -> 4 <= sc (nth t rs UNMATCHED) -> nth t hs 0 = nc) ->
  forall t, fst (nth t (cells_of (skip_pass first nc hs bs rs pp pm pfx)) (false, false)) = true ->
    (t = 0%nat /\ 4 <= pm) \/ ((1 <= t)%nat /\ nth (t - 1) hs 0 = nc).
Proof.
  induction hs as [|c hs IH]; intros bs rs pp pm pfx Hok t Ht.
  { cbn [skip_pass cells_of snd] in Ht. destruct t; discriminate. }
  destruct bs as [|b bs]; [destruct t; discriminate|].
  destruct rs as [|r rs]; [destruct t; discriminate|].
  rewrite skip_pass_cons in Ht.
  specialize (IH bs rs (fst (p_score pp pm)) (sc (mcell_of first nc c b r pfx)) (pfx_next first pfx)).
  destruct (skip_pass first nc hs bs rs _ _ _) as [[[a b'] c'] d]. cbn [cells_of snd] in *.
  destruct t as [|t].
  - cbn [nth fst] in Ht. left. split; [reflexivity|]. apply (p_score_matched pp). exact Ht.
  - cbn [nth] in Ht. right. split; [lia|].
    assert (Hok' : first = false -> forall t, (t < length rs)%nat -> 4 <= sc (nth t rs UNMATCHED) -> nth t hs 0 = nc).
    { intros F t' Lt' Hs. apply (Hok F (S t')); [cbn [length]; lia|exact Hs]. }
    destruct (IH Hok' t Ht) as [[-> H4]|[H1 H2]].
    + cbn [Nat.sub nth]. apply (mcell_of_real first nc c b r pfx); [|exact H4].
      intros F Hs. apply (Hok F 0%nat); [cbn [length]; lia|exact Hs].
    + replace (S t - 1)%nat with (S (t - 1)) by lia. cbn [nth]. exact H2.
Qed.

Lemma skip_cells_second first nc c0 c1 hs b0 b1 bs r0 r1 rs pfx :
  4 <= sc (mcell_of first nc c0 b0 r0 pfx) ->
  fst (nth 1 (cells_of (skip_pass first nc (c0 :: c1 :: hs) (b0 :: b1 :: bs) (r0 :: r1 :: rs) 0 0 pfx)) (false, false)) = true.
Proof.
  intros H. rewrite !skip_pass_cons.
  destruct (skip_pass first nc hs bs rs _ _ _) as [[[a b'] c'] d]. cbn [cells_of snd nth fst].
  rewrite p_score_00. cbn [fst]. apply p_score_0m. exact H.
Qed.

Lemma skip_cells_snd nc : forall hs bs rs pp pm pfx t,
  (t < length (cells_of (skip_pass false nc hs bs rs pp pm pfx)))%nat ->
  snd (nth t (cells_of (skip_pass false nc hs bs rs pp pm pfx)) (false, false)) = mt (nth t rs UNMATCHED).
Proof.
  induction hs as [|c hs IH]; intros bs rs pp pm pfx t Ht.
  { cbn [skip_pass cells_of snd length] in Ht. lia. }
  destruct bs as [|b bs]; [cbn [skip_pass cells_of snd length] in Ht; lia|].
  destruct rs as [|r rs]; [cbn [skip_pass cells_of snd length] in Ht; lia|].
  rewrite skip_pass_cons in *.
  specialize (IH bs rs (fst (p_score pp pm)) (sc (mcell_of false nc c b r pfx)) (pfx_next false pfx)).
  destruct (skip_pass false nc hs bs rs _ _ _) as [[[a b'] c'] d]. cbn [cells_of snd length] in *.
  destruct t as [|t]; [reflexivity|]. cbn [nth]. apply IH. lia.
Qed.

(* ---- L4 / L5: the cells the second loop writes ------------------------------------------------------ *)
Lemma next_m_cell_sc p b m : 16 <= sc (next_m_cell p b m).
Proof.
  unfold next_m_cell, SCORE_MATCH. destruct (cell_eqb m UNMATCHED); cbn [sc]; [lia|].
  destruct (_ <? _); cbn [sc]; lia.
Qed.

Lemma next_m_cell_mt p b m : mt (next_m_cell p b m) = true -> m <> UNMATCHED.
Proof.
  unfold next_m_cell. destruct (cell_eqb m UNMATCHED) eqn:E; cbn [mt]; [discriminate|].
  intros _ ->. cbv in E. discriminate.
Qed.

Lemma next_m_cell_first b m : 1 <= sc m -> mt (next_m_cell 0 b m) = true.
Proof.
  intros H. unfold next_m_cell.
  assert (E : cell_eqb m UNMATCHED = false).
  { unfold cell_eqb, UNMATCHED. cbn [sc]. destruct (N.eqb_spec (sc m) 0); [lia|reflexivity]. }
  rewrite E. unfold BONUS_CONSECUTIVE, BONUS_BOUNDARY.
  match goal with |- mt (if ?c then _ else _) = true => destruct c eqn:C end; [reflexivity|].
  exfalso. destruct ((8 <=? b) && (N.max (cb m) 4 <? b)); lia.
Qed.

Lemma mcell_of_unm first nc c b r pfx :
  (first = false -> c <> nc -> r = UNMATCHED) -> c <> nc -> mcell_of first nc c b r pfx = UNMATCHED.
Proof.
  unfold mcell_of. destruct first; [|auto]. intros _ H. destruct (N.eqb_spec c nc); [contradiction|reflexivity].
Qed.

Lemma main_out first nc nnc : forall hs bs rs pp pm pfx, length bs = length hs ->
  (first = false -> forall t, (t < length rs)%nat -> nth t hs 0 <> nc -> nth t rs UNMATCHED = UNMATCHED) ->
  length (fst (main_pass first nc nnc hs bs rs pp pm pfx)) = length rs /\
  forall t, (t < length rs)%nat -> (S t < length hs)%nat ->
    (nth (S t) hs 0 = nnc ->
       16 <= sc (nth t (fst (main_pass first nc nnc hs bs rs pp pm pfx)) UNMATCHED) /\
       (mt (nth t (fst (main_pass first nc nnc hs bs rs pp pm pfx)) UNMATCHED) = true -> nth t hs 0 = nc)) /\
    (nth (S t) hs 0 <> nnc -> nth t (fst (main_pass first nc nnc hs bs rs pp pm pfx)) UNMATCHED = UNMATCHED).
Proof.
  induction hs as [|c0 hs IH]; intros bs rs pp pm pfx L Hok.
  { cbn [main_pass fst length]. split; [reflexivity|]. intros; lia. }
  destruct hs as [|c1 hs'].
  { rewrite main_pass_short1. cbn [fst length]. split; [reflexivity|]. intros; lia. }
  destruct rs as [|r rs].
  { rewrite main_pass_nil_rs. cbn [fst length]. split; [reflexivity|]. intros; lia. }
  destruct bs as [|b0 [|b1 bs']]; try discriminate.
  rewrite main_pass_cons.
  specialize (IH (b1 :: bs') rs (fst (p_score pp pm)) (sc (mcell_of first nc c0 b0 r pfx)) (pfx_next first pfx)
                 ltac:(cbn [length] in *; lia)).
  destruct (main_pass first nc nnc (c1 :: hs') (b1 :: bs') rs _ _ _) as [t' cl]. cbn [fst] in *.
  destruct IH as [IL IP].
  { intros F t Lt Hn. apply (Hok F (S t)); [cbn [length]; lia|exact Hn]. }
  split; [cbn [length]; lia|].
  intros t Lt Lh. destruct t as [|t].
  - cbn [nth]. split.
    + intros E. rewrite (proj2 (N.eqb_eq c1 nnc) E). split; [apply next_m_cell_sc|].
      intros M. apply next_m_cell_mt in M. destruct (N.eq_dec c0 nc) as [|Hne]; [assumption|].
      exfalso. apply M. apply mcell_of_unm; [|exact Hne]. intros F. apply (Hok F 0%nat). cbn [length]. lia.
    + intros E. rewrite (proj2 (N.eqb_neq c1 nnc) E). reflexivity.
  - change (nth (S t) (?x :: t') UNMATCHED) with (nth t t' UNMATCHED).
    change (nth (S t) (c0 :: c1 :: hs') 0) with (nth t (c1 :: hs') 0).
    change (nth (S (S t)) (c0 :: c1 :: hs') 0) with (nth (S t) (c1 :: hs') 0).
    apply IP; cbn [length] in *; lia.
Qed.

Lemma main_out_first first nc nnc c0 c1 hs b0 b1 bs r rs pfx :
  1 <= sc (mcell_of first nc c0 b0 r pfx) -> c1 = nnc ->
  mt (nth 0 (fst (main_pass first nc nnc (c0 :: c1 :: hs) (b0 :: b1 :: bs) (r :: rs) 0 0 pfx)) UNMATCHED) = true.
Proof.
  intros H E. rewrite main_pass_cons.
  destruct (main_pass first nc nnc (c1 :: hs) (b1 :: bs) rs _ _ _) as [t' cl]. cbn [fst nth].
  rewrite (proj2 (N.eqb_eq c1 nnc) E), p_score_00. cbn [fst]. apply next_m_cell_first. exact H.
Qed.

(* ---- score_row as a whole ---------------------------------------------------------------------------- *)
Lemma score_row_some first (row : list cell) (hw bs : list N) off noff idx nc nnc pfx :
  1 <= noff -> idx <= off -> off <= noff - 1 -> noff - 1 < lenN hw -> length bs = length hw ->
  noff - 1 - idx <= lenN row ->
  let nro := noff - 1 in let rel := off - idx in let nrel := nro - idx in
  let st := state_of (skip_pass first nc (sliceN off nro hw) (sliceN off nro bs) (sliceN rel nrel row) 0 0 pfx) in
  score_row first row hw bs off noff idx nc nnc pfx =
  Some (takeN nrel row ++
          fst (main_pass first nc nnc (dropN nro hw) (dropN nro bs) (dropN nrel row) (fst (fst st)) (snd (fst st)) (snd st)),
        cells_of (skip_pass first nc (removelast (dropN off hw)) (removelast (dropN off bs)) (dropN rel row) 0 0 pfx)).
Proof.
  intros H1 H2 H3 H4 H5 H6 nro rel nrel st. unfold score_row.
  replace ((noff =? 0) || (off <? idx) || (noff - 1 <? idx) || (noff - 1 <? off)) with false by lia.
  fold nro. fold rel. fold nrel.
  rewrite (slice_drop_split off nro hw), (slice_drop_split off nro bs), (slice_drop_split rel nrel row) by lia.
  rewrite !removelast_app by (apply dropN_nonnil; unfold lenN in *; lia).
  rewrite skip_pass_app.
  2:{ rewrite !length_sliceN. lia. }
  2:{ rewrite !length_sliceN. unfold lenN in *. lia. }
  subst st.
  destruct (skip_pass first nc (sliceN off nro hw) (sliceN off nro bs) (sliceN rel nrel row) 0 0 pfx)
    as [[[pp pm] pfx'] cells1]. cbn [state_of fst snd].
  pose proof (main_pass_cells first nc nnc (dropN nro hw) (dropN nro bs) (dropN nrel row) pp pm pfx') as MC.
  destruct (main_pass first nc nnc (dropN nro hw) (dropN nro bs) (dropN nrel row) pp pm pfx') as [tail' cells2].
  cbn [snd fst] in *.
  destruct (skip_pass first nc (removelast (dropN nro hw)) (removelast (dropN nro bs)) (dropN nrel row) pp pm pfx')
    as [[[pp2 pm2] pfx2] c2]. cbn [cells_of snd] in *. rewrite MC. reflexivity.
Qed.

Lemma main_out_first' first nc nnc hs bs rs pfx :
  (2 <= length hs)%nat -> length bs = length hs -> (1 <= length rs)%nat ->
  1 <= sc (mcell_of first nc (nth 0 hs 0) (nth 0 bs 0) (nth 0 rs UNMATCHED) pfx) -> nth 1 hs 0 = nnc ->
  mt (nth 0 (fst (main_pass first nc nnc hs bs rs 0 0 pfx)) UNMATCHED) = true.
Proof.
  intros L1 L2 L3 H E. destruct hs as [|c0 [|c1 hs]]; cbn [length] in L1; try lia.
  destruct bs as [|b0 [|b1 bs]]; try discriminate. destruct rs as [|r rs]; [cbn [length] in L3; lia|].
  apply main_out_first; assumption.
Qed.

Lemma skip_cells_second' first nc hs bs rs pfx :
  (2 <= length hs)%nat -> length bs = length hs -> (2 <= length rs)%nat ->
  4 <= sc (mcell_of first nc (nth 0 hs 0) (nth 0 bs 0) (nth 0 rs UNMATCHED) pfx) ->
  fst (nth 1 (cells_of (skip_pass first nc hs bs rs 0 0 pfx)) (false, false)) = true.
Proof.
  intros L1 L2 L3 H. destruct hs as [|c0 [|c1 hs]]; cbn [length] in L1; try lia.
  destruct bs as [|b0 [|b1 bs]]; try discriminate. destruct rs as [|r0 [|r1 rs]]; cbn [length] in L3; try lia.
  apply skip_cells_second; assumption.
Qed.

Lemma mcell_of_first_real nc b r pfx : 16 <= sc (mcell_of true nc nc b r pfx).
Proof. unfold mcell_of. rewrite N.eqb_refl. cbn [sc]. unfold SCORE_MATCH. generalize (b * BONUS_FIRST_CHAR_MULTIPLIER) (pfx / PREFIX_BONUS_SCALE). intros; lia. Qed.
