(* Small shared utilities: N ranges with a lifting lemma for finite checks, association lists. *)
From Coq Require Import NArith List Bool Lia ZifyBool ZifyNat ZifyN.
Import ListNotations.
Local Open Scope N_scope.

(* [lo; lo+1; ...] with n elements *)
Definition Nrange (lo : N) (n : nat) : list N := map (fun k => lo + N.of_nat k) (seq 0 n).

Lemma in_Nrange lo n c : lo <= c -> c < lo + N.of_nat n -> In c (Nrange lo n).
Proof.
  intros H1 H2. unfold Nrange. apply in_map_iff. exists (N.to_nat (c - lo)). split; [lia|].
  apply in_seq. lia.
Qed.

Lemma forallb_Nrange (P : N -> bool) lo n :
  forallb P (Nrange lo n) = true -> forall c, lo <= c -> c < lo + N.of_nat n -> P c = true.
Proof. intros H c H1 H2. rewrite forallb_forall in H. apply H, in_Nrange; assumption. Qed.

(* first value associated with key c *)
Fixpoint assoc (c : N) (l : list (N * N)) : option N :=
  match l with
  | [] => None
  | (k, v) :: l' => if k =? c then Some v else assoc c l'
  end.

Lemma assoc_in c v l : assoc c l = Some v -> In (c, v) l.
Proof.
  induction l as [|[k w] l IH]; cbn [assoc]; [discriminate|].
  destruct (N.eqb_spec k c) as [->|Hne]; intros H.
  - injection H as ->. now left.
  - right. auto.
Qed.

Lemma assoc_none c l : assoc c l = None -> forall v, ~ In (c, v) l.
Proof.
  induction l as [|[k w] l IH]; cbn [assoc]; [intros _ v []|].
  destruct (N.eqb_spec k c) as [->|Hne]; [discriminate|].
  intros H v [Heq|Hin]; [injection Heq as -> ->; congruence | exact (IH H v Hin)].
Qed.

(* strictly ascending *)
Fixpoint strictly_ascending (l : list N) : bool :=
  match l with
  | a :: ((b :: _) as t) => (a <? b) && strictly_ascending t
  | _ => true
  end.
