(* Specification vocabulary for C15 (pattern scores compose as a conjunction of atoms with negation).
   Everything here is a pure function of (matcher configuration, atoms, haystack): no state threading,
   no early exits, no accumulators.  Props/C15.v states that the model of the code (Model/PatternScore.v,
   which threads the mutated matcher configuration and has the code's loops) computes these. *)
From Coq Require Import NArith List Bool Sorting.Permutation.
From NV Require Import Model.PatternScore.
Import ListNotations.
Local Open Scope N_scope.

(* two matcher configurations that differ at most in the two fields an atom overwrites *)
Definition same_base (m m' : config) : Prop :=
  prefer_prefix m = prefer_prefix m' /\ delims m = delims m' /\ bonus_white m = bonus_white m' /\
  bonus_delim m = bonus_delim m' /\ init_class m = init_class m'.

(* the one Matcher call an atom makes: its own case/normalisation flags, the matcher's other settings *)
Definition inner (m : config) (a : atom) (h : ustr) : outcome :=
  run (set_flags m a) (algo_of_kind (kind a)) h (needle a).

Definition matched (o : outcome) : bool := match o with Match _ _ => true | _ => false end.
Definition score_of (o : outcome) : N := match o with Match s _ => s | _ => 0 end.
Definition indices_of (o : outcome) : list N := match o with Match _ idx => idx | _ => [] end.

Definition no_panic (m : config) (a : atom) (h : ustr) : Prop := forall k, inner m a h <> Panicked k.
(* Option<u16>: the Rust return type of every Matcher entry point *)
Definition score_u16 (m : config) (a : atom) (h : ustr) : Prop := score_of (inner m a h) <= 65535.

(* an atom accepts a haystack: positive and the inner match succeeds, or negative and it does not *)
Definition atom_passes (m : config) (a : atom) (h : ustr) : bool := xorb (negative a) (matched (inner m a h)).
(* what an accepting atom contributes to the score / to the indices *)
Definition atom_points (m : config) (a : atom) (h : ustr) : N :=
  if negative a then 0 else score_of (inner m a h).
Definition atom_appends (m : config) (a : atom) (h : ustr) : list N :=
  if negative a then [] else indices_of (inner m a h).
Definition atom_value (m : config) (a : atom) (h : ustr) : option N :=
  if atom_passes m a h then Some (atom_points m a h) else None.

Definition sumN (l : list N) : N := fold_right N.add 0 l.

(* a pattern = conjunction of its atoms; score = sum of the atoms' contributions *)
Definition pattern_passes (m : config) (atoms : list atom) (h : ustr) : bool :=
  forallb (fun a => atom_passes m a h) atoms.
Definition pattern_points (m : config) (atoms : list atom) (h : ustr) : N :=
  sumN (map (fun a => atom_points m a h) atoms).
Definition pattern_value (m : config) (atoms : list atom) (h : ustr) : option N :=
  if pattern_passes m atoms h then Some (pattern_points m atoms h) else None.

(* longest prefix whose elements satisfy p *)
Fixpoint take_while {A} (p : A -> bool) (l : list A) : list A :=
  match l with
  | [] => []
  | x :: l' => if p x then x :: take_while p l' else []
  end.

(* what Pattern::indices leaves appended: the indices of the positive atoms, in atom order, of the longest
   accepting prefix of the atom list (= all atoms when the pattern matches) *)
Definition pattern_appends (m : config) (atoms : list atom) (h : ustr) : list N :=
  concat (map (fun a => atom_appends m a h) (take_while (fun a => atom_passes m a h) atoms)).

(* multi-column: conjunction over the zipped (column pattern, column haystack) pairs *)
Definition multi_value (m : config) (cols : list (list atom)) (hs : list ustr) : option N :=
  let z := combine cols hs in
  if forallb (fun ph => pattern_passes m (fst ph) (snd ph)) z
  then Some (sumN (map (fun ph => pattern_points m (fst ph) (snd ph)) z)) else None.

(* the matching inputs with their scores, in input order, each once *)
Definition matching {T} (value : ustr -> option N) (conv : T -> ustr) (items : list T) : list (T * N) :=
  flat_map (fun x => match value (conv x) with Some s => [(x, s)] | None => [] end) items.

(* the contract of a stable sort by descending score *)
Fixpoint sorted_desc {T} (l : list (T * N)) : Prop :=
  match l with
  | [] => True
  | x :: l' => (forall y, In y l' -> snd y <= snd x) /\ sorted_desc l'
  end.
Definition with_score {T} (s : N) (l : list (T * N)) : list (T * N) := filter (fun x => snd x =? s) l.
Definition stable_sort_desc_of {T} (l out : list (T * N)) : Prop :=
  Permutation out l /\ sorted_desc out /\ (forall s, with_score s out = with_score s l).
