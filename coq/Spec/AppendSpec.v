(* Specification vocabulary and statements for C07 (text half): the `append` hint of MultiPattern::reparse
   (src/pattern.rs).  Definitions only, all computable (extracted and used as the property oracle).

   When the caller passes append = true, the previous status is not Rescore and the last atom of the PREVIOUS
   pattern passes the condition below, the status becomes Update and the worker rescores only the items that
   matched the previous pattern.  That is sound iff every haystack matched by the new pattern was matched by the
   old one: pattern_matches new -> pattern_matches old, where pattern_matches is the conjunction over the atoms
   of the spec-level relation of the atom's kind (Spec/Matching.v) under the atom's own ignore_case / normalize
   flags, negated for negative atoms. *)
From Coq Require Import NArith List Bool.
From NV Require Import Model.Chars Model.Matcher Model.PatternParse Spec.Matching Spec.Statements.
Import ListNotations.
Local Open Scope N_scope.

(* ---- the condition of MultiPattern::reparse on the last atom of the PREVIOUS pattern ----------------- *)
(* s.chars().next_back() == Some(c) *)
Definition last_is (c : N) (l : list N) : bool := match rev l with x :: _ => x =? c | [] => false end.

(* !last.negative && !matches!(last.kind, Postfix | Exact)
   && !matches!(last.needle_text().chars().next_back(), Some('\\' | '$'))      (atoms.last().map_or(true, ..)) *)
Definition update_allowed (atoms : list atom) : bool :=
  match rev atoms with
  | [] => true
  | a :: _ =>
    negb (a_negative a)
    && negb (kind_eqb (a_kind a) APostfix || kind_eqb (a_kind a) AExact)
    && negb (last_is BSLASH (a_needle a))
    && negb (last_is DOLLAR (a_needle a))
  end.

(* the condition before the fix: no test for a trailing '$' of the needle *)
Definition update_allowed_old (atoms : list atom) : bool :=
  match rev atoms with
  | [] => true
  | a :: _ =>
    negb (a_negative a)
    && negb (kind_eqb (a_kind a) APostfix || kind_eqb (a_kind a) AExact)
    && negb (last_is BSLASH (a_needle a))
  end.

(* ---- spec-level matching of a parsed pattern ---------------------------------------------------------- *)
(* the configuration Atom::score installs: the atom's own two flags, everything else from the matcher *)
Definition atom_cfg (m : config) (a : atom) : config :=
  {| ignore_case := a_ignore_case a; normalize_on := a_normalize a; prefer_prefix := prefer_prefix m;
     delims := delims m; bonus_white := bonus_white m; bonus_delim := bonus_delim m;
     init_class := init_class m |}.

Definition opt_some {A} (o : option A) : bool := match o with Some _ => true | None => false end.

(* the needle occurs contiguously somewhere *)
Definition occurs_any (cfg : config) (hr : repr) (h n : list N) : bool :=
  existsb (occurs cfg hr h n) (map N.of_nat (seq 0 (S (length h)))).

Definition kind_matches (cfg : config) (hr : repr) (h n : list N) (k : atom_kind) : bool :=
  match k with
  | AFuzzy => subseq_b n (nh cfg hr h)
  | ASubstring => occurs_any cfg hr h n
  | APrefix => opt_some (spec_prefix cfg hr h n)
  | APostfix => opt_some (spec_postfix cfg hr h n)
  | AExact => opt_some (spec_exact cfg hr h n)
  end.

Definition atom_matches (m : config) (hr : repr) (h : list N) (a : atom) : bool :=
  xorb (a_negative a) (kind_matches (atom_cfg m a) hr h (a_needle a) (a_kind a)).

Definition pattern_matches (m : config) (hr : repr) (h : list N) (atoms : list atom) : bool :=
  forallb (atom_matches m hr h) atoms.

(* ---- known finding K3 ------------------------------------------------------------------------------------ *)
(* U+0185, U+2C65, U+2C66 are fixed points of chars::normalize and of to_lower_case whose upper-case forms
   U+0184, U+023A, U+023E are normalised to b, A, T: with normalisation on, the ignore-case needle U+0185 does
   not match the haystack U+0184; with normalisation off (appended text switches smart normalisation off) it
   does *)
Definition fold_norm_chars : list N := [389; 11365; 11366].
Definition fold_norm_hazard (a : atom) : bool :=
  existsb (fun c => existsb (N.eqb c) fold_norm_chars) (a_needle a).
Definition last_fold_norm_ok (atoms : list atom) : bool :=
  match rev atoms with
  | [] => true
  | a :: _ => negb (fold_norm_hazard a)
  end.

(* ---- statements (parser after fix #15: fx = true) -------------------------------------------------------- *)
(* the append hint is sound: outside K3, whatever the new pattern matches the old one matched *)
Definition C07_append_refines_stmt : Prop :=
  forall (seg : list N -> list N) (cm : case_matching) (nm : normalization) (old suffix : list N)
         (m : config) (hr : repr) (h : list N),
    seg_faithful seg -> seg_simple (old ++ suffix) = true ->
    let old_atoms := pattern_parse true seg old cm nm in
    let new_atoms := pattern_parse true seg (old ++ suffix) cm nm in
    update_allowed old_atoms = true -> last_fold_norm_ok old_atoms = true ->
    pattern_matches m hr h new_atoms = true -> pattern_matches m hr h old_atoms = true.

(* FALSE (known finding K3): the same without the exclusion of the three characters *)
Definition C07_append_known_K3_stmt : Prop :=
  forall (seg : list N -> list N) (cm : case_matching) (nm : normalization) (old suffix : list N)
         (m : config) (hr : repr) (h : list N),
    seg_faithful seg -> seg_simple (old ++ suffix) = true ->
    let old_atoms := pattern_parse true seg old cm nm in
    let new_atoms := pattern_parse true seg (old ++ suffix) cm nm in
    update_allowed old_atoms = true ->
    pattern_matches m hr h new_atoms = true -> pattern_matches m hr h old_atoms = true.

(* FALSE (the defect that was fixed): the same as C07_append_refines_stmt with the condition before the fix; an
   escaped trailing dollar of a substring / prefix atom ('a\$ has the needle a$, 'a\$b the needle a\$b) *)
Definition C07_append_prefix_dollar_old_stmt : Prop :=
  forall (seg : list N -> list N) (cm : case_matching) (nm : normalization) (old suffix : list N)
         (m : config) (hr : repr) (h : list N),
    seg_faithful seg -> seg_simple (old ++ suffix) = true ->
    let old_atoms := pattern_parse true seg old cm nm in
    let new_atoms := pattern_parse true seg (old ++ suffix) cm nm in
    update_allowed_old old_atoms = true -> last_fold_norm_ok old_atoms = true ->
    pattern_matches m hr h new_atoms = true -> pattern_matches m hr h old_atoms = true.

(* ---- the same statement against the MODEL of the matcher entry points (`run`, Model/Matcher.v): what
   Pattern::score actually computes, all atom kinds (proved in Proofs/AppendRun.v) ------------------------- *)
Definition algo_of (k : atom_kind) : algo :=
  match k with AFuzzy => Fuzzy | ASubstring => Substring | APrefix => Prefix | APostfix => Postfix | AExact => Exact end.
Definition needle_str (a : atom) : ustr := {| rp := a_repr a; cs := a_needle a |}.
(* Atom::score(haystack).is_some() *)
Definition atom_runs (m : config) (hs : ustr) (a : atom) : bool :=
  xorb (a_negative a) (is_some_match (run (atom_cfg m a) (algo_of (a_kind a)) hs (needle_str a))).
(* Pattern::score(haystack).is_some() (C15: the conjunction of the atoms) *)
Definition pattern_runs (m : config) (hs : ustr) (atoms : list atom) : bool := forallb (atom_runs m hs) atoms.

Definition C07_append_refines_run_stmt : Prop :=
  forall (seg : list N -> list N) (cm : case_matching) (nm : normalization) (old suffix : list N)
         (m : config) (hs : ustr),
    seg_faithful seg -> seg_simple (old ++ suffix) = true -> wf_str hs ->
    let old_atoms := pattern_parse true seg old cm nm in
    let new_atoms := pattern_parse true seg (old ++ suffix) cm nm in
    update_allowed old_atoms = true -> last_fold_norm_ok old_atoms = true ->
    pattern_runs m hs new_atoms = true -> pattern_runs m hs old_atoms = true.
