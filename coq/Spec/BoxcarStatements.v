(* Statements of the boxcar-vector theorems (C08, C11) over Model/Boxcar.v. *)
From Coq Require Import NArith List Bool.
From NV Require Import Model.Boxcar.
Import ListNotations.
Local Open Scope N_scope.

(* ---- well-formed histories ------------------------------------------------------------------------ *)
(* values carried by a freshly spawned operation *)
Definition spawn_values (p : pc) : list N :=
  match p with PushStart v _ => [v] | ExtStart _ vals _ => vals | _ => [] end.
Definition is_start (p : pc) : bool :=
  match p with PushStart _ _ | ExtStart _ _ _ => true | _ => false end.
Definition event_values (e : event) : list N := match e with Spawn _ p => spawn_values p | _ => [] end.
Definition all_values (es : list event) : list N := flat_map event_values es.
Definition spawned_tids (es : list event) : list N :=
  flat_map (fun e => match e with Spawn t _ => [t] | _ => [] end) es.

(* a history: operations are spawned in their start state under fresh thread ids, all values are
   distinct (they are distinct objects), the vector is dropped at most once and only as the last event
   (its owner drops it after every writer has finished - see finished below) *)
Definition wf_history (es : list event) : Prop :=
  (forall t p, In (Spawn t p) es -> is_start p = true) /\
  NoDup (spawned_tids es) /\ NoDup (all_values es) /\
  (forall e, In e es -> e <> DropVec).

Definition reachable (s : vstate) : Prop :=
  exists cap es, wf_history es /\ s = fst (run_events (init_state cap) es).

Definition thread_finished (p : pc) : bool := match p with Done _ | TPanicked => true | _ => false end.
Definition all_finished (s : vstate) : Prop := forall t p, In (t, p) (threads s) -> thread_finished p = true.
(* no reservation near the u32 limit (the harness cannot reach it either) *)
Definition small (s : vstate) : Prop := inflight s < MAX_ENTRIES.

(* ---- Location::of --------------------------------------------------------------------------------- *)
Definition C08_location_stmt : Prop :=
  forall i, index_ok i = true ->
    let l := location_of i in
    l_bucket l < BUCKETS /\ l_len l = bucket_len (l_bucket l) /\ l_entry l < l_len l /\
    (* buckets tile the index space in order: index = (sum of earlier bucket lengths) + entry *)
    i + SKIP = l_len l + l_entry l.
Definition C08_location_inj_stmt : Prop :=
  forall i j, index_ok i = true -> index_ok j = true ->
    l_bucket (location_of i) = l_bucket (location_of j) -> l_entry (location_of i) = l_entry (location_of j) -> i = j.

(* ---- C08 ------------------------------------------------------------------------------------------ *)
(* a reservation hands out exactly the next free indices: distinct and gap-free *)
Definition C08_reserve_stmt : Prop :=
  forall s t s' site a, reachable s ->
    step_thread s t = (s', OYield site a) -> (site = 1 \/ site = 4) ->
    a = inflight s /\ inflight s < inflight s' /\
    (* nobody owns an index at or above the old counter *)
    (forall i e, In (i, e) (ents s) -> i < inflight s).
(* the counter never decreases *)
Definition C08_count_mono_stmt : Prop :=
  forall s e, inflight s <= inflight (fst (do_event s e)).
(* a lookup returns nothing or a completely written item of an assigned index, with the columns its fill produced *)
Definition C08_no_phantom_stmt : Prop :=
  forall s i v c, reachable s -> get s i = Some (v, c) -> i < inflight s /\ c = cols_of v.
(* once visible, forever visible with the same content at the same index *)
Definition C08_stable_stmt : Prop :=
  forall s es i x, reachable s -> (forall t p, In (Spawn t p) es -> is_start p = true /\ ~ In t (map fst (threads s))) ->
    NoDup (spawned_tids es) ->
    get s i = Some x -> get (fst (run_events s es)) i = Some x.
(* when push returns index idx, a lookup of idx yields the pushed value and its columns *)
Definition C08_push_visible_stmt : Prop :=
  forall s t s' idx, reachable s -> step_thread s t = (s', OReturn (Some idx)) ->
    exists v, lookup t (threads s) = Some (PushPublish v idx) /\ get s' idx = Some (v, cols_of v).
(* two different live operations never own the same index *)
Definition owns (p : pc) (i : N) : bool :=
  match p with
  | PushReserved _ _ idx | PushEagerCas _ _ idx | PushOwnCas _ _ idx | PushPublish _ idx => i =? idx
  | ExtReserved st c _ _ | ExtEagerCas st c _ _ => (st <=? i) && (i <? st + c)
  | ExtBucketCas st c k _ _ => (st + k <=? i) && (i <? st + c)
  | ExtPublish st c k _ _ _ => (st + k <=? i) && (i <? st + c)
  | _ => false
  end.
Definition C08_exclusive_stmt : Prop :=
  forall s t1 p1 t2 p2 i, reachable s -> In (t1, p1) (threads s) -> In (t2, p2) (threads s) ->
    owns p1 i = true -> owns p2 i = true -> t1 = t2.
(* ... and an index owned by a live operation is not visible yet *)
Definition C08_owned_invisible_stmt : Prop :=
  forall s t p i, reachable s -> In (t, p) (threads s) -> owns p i = true -> get s i = None.

(* ---- C11 ------------------------------------------------------------------------------------------ *)
(* after every writer has finished and the vector has been dropped, every value handed to push or
   yielded by / left inside an extend iterator has been dropped exactly once *)
Definition C11_exactly_once_stmt : Prop :=
  forall cap es s, wf_history es -> s = fst (run_events (init_state cap) es) -> all_finished s -> small s ->
    drop_stops_at_null = false ->
    let s' := fst (drop_vec s) in
    forall v, In v (all_values es) -> count_occ N.eq_dec (drops s') v = 1%nat.
(* nothing is ever dropped twice, at any point of any history; and nothing that is reachable through
   the vector is dropped before the vector itself *)
Definition C11_never_twice_stmt : Prop :=
  forall s v, reachable s -> (count_occ N.eq_dec (drops s) v <= 1)%nat.
Definition C11_not_early_stmt : Prop :=
  forall s i v c, reachable s -> get s i = Some (v, c) -> ~ In v (drops s).
(* with the pinned tree's `break` the walk stops at the first null bucket: refutation witness *)
Definition C11_break_leaks_stmt : Prop :=
  exists cap es v, wf_history es /\ all_finished (fst (run_events (init_state cap) es)) /\
    In v (all_values es) /\
    let s := fst (run_events (init_state cap) es) in
    let vis := visited_buckets true (is_alloc s) (map N.of_nat (seq 0 (N.to_nat BUCKETS))) in
    (exists i e, In (i, e) (ents s) /\ e_active e = true /\ e_val e = v /\
                 existsb (N.eqb (l_bucket (location_of i))) vis = false).
