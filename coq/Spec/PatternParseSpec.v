(* Specification side of C14: the escaped form of a literal text, the marker table, the positional
   definition of "unescaped whitespace".  Nothing here looks at the parser's code. *)
From Coq Require Import NArith List Bool.
From NV Require Import Model.PatternParse.
Import ListNotations.
Local Open Scope N_scope.

Module PPS.


Definition is_nil {A} (l : list A) : bool := match l with [] => true | _ => false end.

(* the three prefix markers *)
Definition is_marker (c : N) : bool := (c =? BANG) || (c =? CARET) || (c =? QUOTE).

(* ---- escaping a literal text ----------------------------------------------------------------------- *)
(* "\ " for every space *)
Fixpoint esc_spaces (t : list N) : list N :=
  match t with
  | [] => []
  | c :: r => if c =? SPACE then BSLASH :: SPACE :: esc_spaces r else c :: esc_spaces r
  end.

(* t without a trailing '$', and whether there was one *)
Definition split_trailing_dollar (t : list N) : list N * bool :=
  match rev t with
  | c :: r => if c =? DOLLAR then (rev r, true) else (t, false)
  | [] => (t, false)
  end.

(* the escaped form: "\" before a leading ! ^ ' ; "\ " for every space ; "\$" for a trailing $ *)
Definition escape (t : list N) : list N :=
  let '(body, d) := split_trailing_dollar t in
  (match t with c :: _ => if is_marker c then [BSLASH] else [] | [] => [] end)
  ++ esc_spaces body ++ (if d then [BSLASH; DOLLAR] else []).

(* the literal texts that have an escaped form at all: not empty (an empty needle is no atom), no
   whitespace other than U+0020 (only the space has an escape), and not starting with a backslash that
   is followed by ! ^ ' (there is no escape for a backslash, so that text cannot be written) *)
Definition escapable (t : list N) : bool :=
  negb (is_nil t)
  && forallb (fun c => negb (std_is_whitespace c) || (c =? SPACE)) t
  && negb (match t with c :: d :: _ => (c =? BSLASH) && is_marker d | _ => false end).

(* the needle stored for literal text t *)
Definition fold_if (cm : case_matching) (t : list N) : list N :=
  match cm with CaseIgnore => map to_lower t | _ => t end.

(* smart case / smart normalization as the documentation states them, on a stored needle *)
Definition spec_ignore_case (cm : case_matching) (needle : list N) : bool :=
  match cm with
  | CaseIgnore => true
  | CaseRespect => false
  | CaseSmart => negb (existsb is_upper needle)
  end.
Definition spec_normalize (nm : normalization) (needle : list N) : bool :=
  match nm with
  | NormNever => false
  | NormSmart => forallb (fun c => normalize c =? c) needle
  end.

(* the one atom a literal text round-trips to *)
Definition literal_atom (t : list N) (cm : case_matching) (nm : normalization) : atom :=
  {| a_negative := false; a_kind := AFuzzy; a_needle := fold_if cm t;
     a_repr := if is_ascii t then Ascii else Unicode;
     a_ignore_case := spec_ignore_case cm (fold_if cm t);
     a_normalize := spec_normalize nm (fold_if cm t) |}.

(* ---- the marker table ------------------------------------------------------------------------------ *)
Inductive neg_m := NegNone | NegBang | NegEsc.                                 (*  ""  "!"  "\!"            *)
Inductive kind_m := KmNone | KmCaret | KmQuote | KmEscCaret | KmEscQuote.      (*  ""  "^"  "'"  "\^"  "\'"  *)
Inductive end_m := EmNone | EmDollar | EmEscDollar.                            (*  ""  "$"  "\$"            *)

Definition neg_txt (n : neg_m) : list N :=
  match n with NegNone => [] | NegBang => [BANG] | NegEsc => [BSLASH; BANG] end.
Definition kind_txt (k : kind_m) : list N :=
  match k with
  | KmNone => [] | KmCaret => [CARET] | KmQuote => [QUOTE]
  | KmEscCaret => [BSLASH; CARET] | KmEscQuote => [BSLASH; QUOTE]
  end.
Definition end_txt (e : end_m) : list N :=
  match e with EmNone => [] | EmDollar => [DOLLAR] | EmEscDollar => [BSLASH; DOLLAR] end.

(* a word: optional negation marker, optional kind marker, body, optional end marker *)
Definition marker_text (n : neg_m) (k : kind_m) (e : end_m) (b : list N) : list N :=
  neg_txt n ++ kind_txt k ++ b ++ end_txt e.

Definition tbl_negative (n : neg_m) : bool := match n with NegBang => true | _ => false end.

(* AtomKind's documentation: 'foo / !foo substring, ^foo prefix, foo$ postfix, ^foo$ exact, no negated
   fuzzy atom; an escaped marker is text, and after an escaped "!" the word's body has begun *)
Definition tbl_kind (n : neg_m) (k : kind_m) (e : end_m) : atom_kind :=
  let k0 := match n, k with
            | NegEsc, _ => AFuzzy
            | _, KmCaret => APrefix
            | _, KmQuote => ASubstring
            | _, _ => AFuzzy
            end in
  let k1 := match e with
            | EmDollar => if kind_eqb k0 AFuzzy then APostfix else AExact
            | _ => k0
            end in
  if tbl_negative n && kind_eqb k1 AFuzzy then ASubstring else k1.

(* the literal text the needle is built from (escaped spaces in it still to be resolved) *)
Definition tbl_source (n : neg_m) (k : kind_m) (b : list N) : list N :=
  match n with
  | NegEsc => BANG :: kind_txt k ++ b
  | _ => match k with KmEscCaret => CARET :: b | KmEscQuote => QUOTE :: b | _ => b end
  end.
Definition tbl_dollar (e : end_m) : bool := match e with EmEscDollar => true | _ => false end.

(* the body must not itself begin with something the grammar reads as the (absent) marker, nor end
   with something that changes the reading of the end marker *)
Definition starts_with_marker (m : N -> bool) (b : list N) : bool :=
  match b with
  | c :: r => m c || ((c =? BSLASH) && match r with d :: _ => m d | [] => false end)
  | [] => false
  end.
Definition lead_ok (n : neg_m) (k : kind_m) (b : list N) : bool :=
  match n, k with
  | NegNone, KmNone => negb (starts_with_marker is_marker b)
  | NegBang, KmNone => negb (starts_with_marker is_kind_marker b)
  | _, _ => true
  end.
Definition tail_ok (e : end_m) (b : list N) : bool :=
  match e, rev b with
  | EmNone, c :: _ => negb (c =? DOLLAR)
  | EmDollar, c :: _ => negb (c =? BSLASH)
  | _, _ => true
  end.

(* ---- splitting: positional definition -------------------------------------------------------------- *)
(* position i of p holds a whitespace character that is not immediately preceded by a backslash *)
Definition unescaped_ws_at (p : list N) (i : nat) : bool :=
  std_is_whitespace (nth i p 0)
  && negb (match i with O => false | S j => nth j p 0 =? BSLASH end).

(* cut a list at the positions (counted from i) selected by f; the cut characters disappear *)
Fixpoint split_where (f : nat -> bool) (i : nat) (p : list N) : list (list N) :=
  match p with
  | [] => [[]]
  | c :: r =>
    if f i then [] :: split_where f (S i) r
    else match split_where f (S i) r with
         | h :: t => (c :: h) :: t
         | [] => [[c]]
         end
  end.

(* the maximal runs between unescaped whitespace *)
Definition spec_atoms (p : list N) : list (list N) := split_where (unescaped_ws_at p) 0 p.

(* pieces joined again with the separators that were cut out *)
Fixpoint rejoin (pieces : list (list N)) (seps : list N) : list N :=
  match pieces, seps with
  | h :: t, s :: seps' => h ++ s :: rejoin t seps'
  | h :: _, [] => h
  | [], _ => []
  end.
Definition unescaped_ws_chars (p : list N) : list N :=
  map (fun i => nth i p 0) (filter (unescaped_ws_at p) (seq 0 (length p))).

End PPS.
Export PPS.
