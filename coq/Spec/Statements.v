(* Statements of the matcher-side property theorems (C01-C05, C10), kept apart from their proofs so that
   a statement cannot be weakened silently: Props/Cxx.v proves `Cxx_..._stmt` by `exact <lemma>`. *)
From Coq Require Import NArith List Bool.
From NV Require Import Model.Matcher Spec.Matching.
Import ListNotations.
Local Open Scope N_scope.

Definition wf_str (s : ustr) : Prop := forall c, In c (cs s) -> wf_char (rp s) c = true.

(* known finding K1: a needle held as code points is never matched against a haystack held as bytes *)
Definition known_K1 (hs ns : ustr) : Prop := rp hs = Ascii /\ rp ns = Unicode.

Definition is_some_match (o : outcome) : bool := match o with Match _ _ => true | _ => false end.

Definition normalised_subseq (cfg : config) (hs ns : ustr) : bool :=
  subseq_b (cs ns) (nh cfg (rp hs) (cs hs)).

(* ---- C01 ----------------------------------------------------------------------------------------- *)
(* the greedy entry point decides exactly the normalised-subsequence relation and never panics *)
Definition C01_greedy_decision_stmt : Prop :=
  forall cfg hs ns, wf_str hs -> wf_str ns -> needle_ok cfg (rp ns) (cs ns) = true -> ~ known_K1 hs ns ->
    match run cfg FuzzyGreedy hs ns with
    | Match _ _ => normalised_subseq cfg hs ns = true
    | NoMatch => normalised_subseq cfg hs ns = false
    | Panicked _ => False
    end.

(* the optimal entry point rejects exactly the non-subsequences (its three deciders - prefilter,
   row-offset setup, greedy fallback - agree with the relation); that it never panics is C10's claim *)
Definition C01_fuzzy_reject_stmt : Prop :=
  forall cfg hs ns, wf_str hs -> wf_str ns -> needle_ok cfg (rp ns) (cs ns) = true -> ~ known_K1 hs ns ->
    (run cfg Fuzzy hs ns = NoMatch <-> normalised_subseq cfg hs ns = false).

(* the decision does not depend on the representation (outside K1) *)
Definition C01_repr_indep_stmt : Prop :=
  forall cfg hs ns hs' ns', wf_str hs -> wf_str ns -> wf_str hs' -> wf_str ns' ->
    cs hs = cs hs' -> cs ns = cs ns' -> needle_ok cfg (rp ns) (cs ns) = true ->
    needle_ok cfg (rp ns') (cs ns') = true -> ~ known_K1 hs ns -> ~ known_K1 hs' ns' ->
    (run cfg FuzzyGreedy hs ns = NoMatch <-> run cfg FuzzyGreedy hs' ns' = NoMatch).

(* spec sanity: the boolean test is the inductive subsequence relation *)
Definition subseq_b_spec_stmt : Prop := forall n h, subseq_b n h = true <-> subseq n h.

(* ---- C02 ----------------------------------------------------------------------------------------- *)
(* every algorithm that scores through calculate_score (all but the DP) reports a valid witness *)
Definition C02_linear_witness_stmt : Prop :=
  forall cfg a hs ns s idx, a <> Fuzzy -> wf_str hs -> wf_str ns -> needle_ok cfg (rp ns) (cs ns) = true ->
    run cfg a hs ns = Match s idx ->
    embedding_b idx (cs ns) (nh cfg (rp hs) (cs hs)) 0 = true.

(* substring / prefix / postfix / exact: contiguous, and anchored as the kind requires *)
Definition C02_shape_stmt : Prop :=
  forall cfg a hs ns s idx, (a = Substring \/ a = Prefix \/ a = Postfix \/ a = Exact) ->
    wf_str hs -> wf_str ns -> needle_ok cfg (rp ns) (cs ns) = true -> cs ns <> [] ->
    run cfg a hs ns = Match s idx ->
    exists st, contiguous_from idx st = true /\ lenN idx = lenN (cs ns) /\
      match a with
      | Prefix => spec_prefix cfg (rp hs) (cs hs) (cs ns) = Some st
      | Postfix => spec_postfix cfg (rp hs) (cs hs) (cs ns) = Some st
      | Exact => spec_exact cfg (rp hs) (cs hs) (cs ns) = Some st
      | _ => occurs cfg (rp hs) (cs hs) (cs ns) st = true
      end.

(* ---- C03 ----------------------------------------------------------------------------------------- *)
(* the bonus rule is the documented table, for every configuration *)
Definition C03_bonus_table_stmt : Prop :=
  forall cfg prev cur, bonus_for cfg prev cur = spec_bonus (bonus_white cfg) (bonus_delim cfg) prev cur.
Definition C03_presets_stmt : Prop :=
  (p_white preset_default, p_delim preset_default) = (10, 9) /\
  (p_white preset_match_paths, p_delim preset_match_paths) = (8, 9) /\
  (p_white preset_set_match_paths, p_delim preset_set_match_paths) = (8, 9).

(* calculate_score evaluates the fzf scheme on the alignment it reports.  The bound on the needle
   length keeps the u16 accumulation from saturating (26 per character at most). *)
Definition bonus_bounded (cfg : config) : Prop := bonus_white cfg <= 10 /\ bonus_delim cfg <= 10.
Definition C03_linear_score_stmt : Prop :=
  forall cfg a hs ns s idx, a <> Fuzzy -> prefer_prefix cfg = false -> bonus_bounded cfg ->
    lenN (cs ns) <= 2500 -> needle_ok cfg (rp ns) (cs ns) = true ->
    run cfg a hs ns = Match s idx -> s = fzf_score cfg (rp hs) (cs hs) idx.

(* whatever the length, the linear scorers never exceed u16::MAX (saturation, no wrap-around).
   The configured boundary bonuses are private fields that only the presets set (at most 10). *)
Definition C03_no_wrap_stmt : Prop :=
  forall cfg a hs ns s idx, a <> Fuzzy -> bonus_bounded cfg -> run cfg a hs ns = Match s idx -> s <= 65535.

(* first formulations, kept because they are refuted (Proofs/ScoreFacts.v): without `needle_ok` an
   un-normalised needle is accepted by exact_impl and then mis-scored; without a bound on the configured
   bonuses the unsaturated first-character term 16 + 2 * bonus can exceed u16::MAX *)
Definition C03_linear_score_naive_stmt : Prop :=
  forall cfg a hs ns s idx, a <> Fuzzy -> prefer_prefix cfg = false -> bonus_bounded cfg ->
    lenN (cs ns) <= 2500 ->
    run cfg a hs ns = Match s idx -> s = fzf_score cfg (rp hs) (cs hs) idx.
Definition C03_no_wrap_naive_stmt : Prop :=
  forall cfg a hs ns s idx, a <> Fuzzy -> run cfg a hs ns = Match s idx -> s <= 65535.

(* ---- C04 ----------------------------------------------------------------------------------------- *)
(* the candidate search returns the leftmost candidate with the maximal bonus *)
Definition C04_best_pos_stmt : Prop :=
  forall cfg cands i s,
    (forall p b, In (p, b) cands -> b <= max_bonus cfg) ->
    best_pos cfg cands None = Some (i, s) ->
    exists pre post b, cands = pre ++ (i, b) :: post /\ s = b * 2 + 16 /\
      (forall p' b', In (p', b') pre -> b' < b) /\
      (forall p' b', In (p', b') post -> b' <= b).
Definition C04_max_bonus_stmt : Prop :=
  forall cfg prev cur, bonus_for cfg prev cur <= max_bonus cfg.

(* prefix preference adds between 0 and 8 to a linear score *)
Definition C04_prefix_linear_stmt : Prop := forall start, prefix_bonus_linear start <= 8.

(* ---- C05 ----------------------------------------------------------------------------------------- *)
Definition opt_is_some {A} (o : option A) : bool := match o with Some _ => true | None => false end.

(* prefix / postfix / exact succeed exactly when the documented (trimmed) relation holds *)
Definition C05_exact_kinds_stmt : Prop :=
  forall cfg hs ns, wf_str hs -> wf_str ns -> needle_ok cfg (rp ns) (cs ns) = true -> ~ known_K1 hs ns ->
    cs ns <> [] ->
    is_some_match (run cfg Prefix hs ns) = opt_is_some (spec_prefix cfg (rp hs) (cs hs) (cs ns)) /\
    is_some_match (run cfg Postfix hs ns) = opt_is_some (spec_postfix cfg (rp hs) (cs hs) (cs ns)) /\
    is_some_match (run cfg Exact hs ns) = opt_is_some (spec_exact cfg (rp hs) (cs hs) (cs ns)).

(* substring: succeeds exactly when the needle occurs contiguously in the normalised haystack, and
   reports the leftmost occurrence whose first character earns the highest bonus *)
Definition C05_substring_stmt : Prop :=
  forall cfg hs ns, wf_str hs -> wf_str ns -> needle_ok cfg (rp ns) (cs ns) = true -> ~ known_K1 hs ns ->
    (2 <= length (cs ns))%nat -> (length (cs ns) < length (cs hs))%nat ->
    match run cfg Substring hs ns with
    | Match _ idx => exists st, hd_error idx = Some st /\
                     spec_substring_pos cfg (rp hs) (cs hs) (cs ns) = Some st
    | NoMatch => spec_substring_pos cfg (rp hs) (cs hs) (cs ns) = None
    | Panicked _ => False
    end.

(* ---- C10 (layout part) --------------------------------------------------------------------------- *)
(* byte offsets of the five views as MatrixLayout::new computes them (allocation side) *)
Definition layout_offsets (hr : repr) (hl nl : N) : N * N * N * N * N :=
  let s1 := layout_count_haystack hl nl * char_size hr in
  let s2 := s1 + layout_count_bonus hl nl in
  let o_r := round_up s2 2 in
  let s3 := o_r + 2 * layout_count_rows hl nl in
  let o_s := round_up s3 8 in
  let s4 := o_s + 8 * layout_count_score hl nl in
  (0, s1, o_r, o_s, s4).
(* byte lengths of the slices fieds_from_ptr hands out (reference side) *)
Definition view_lengths (hr : repr) (hl nl : N) : N * N * N * N * N :=
  (view_count_haystack hl nl * char_size hr, view_count_bonus hl nl, 2 * view_count_rows hl nl,
   8 * view_count_score hl nl, view_count_matrix hl nl).

(* whenever MatrixSlab::alloc hands out views they lie inside the slab allocation, do not overlap,
   and are aligned for their element type *)
Definition C10_layout_stmt : Prop :=
  forall hr hl nl, nl <= hl -> slab_alloc_ok hr hl nl = true ->
    let '(oh, ob, orow, os, om) := layout_offsets hr hl nl in
    let '(lh, lb, lr, ls, lm) := view_lengths hr hl nl in
    oh + lh <= ob /\ ob + lb <= orow /\ orow + lr <= os /\ os + ls <= om /\ om + lm <= SLAB_SIZE /\
    oh mod char_size hr = 0 /\ orow mod 2 = 0 /\ os mod 8 = 0.

(* ---- the DP (fuzzy_optimal): C02 / C03 / C04 / C10 for the optimal entry point ------------------- *)
(* C10, model level: the optimal entry point never panics (no u16 underflow in the row-offset
   arithmetic, no out-of-range index in score_row / reconstruct, the "caught by prefilter" assert never
   fires, max_by_key is never over an empty range) *)
Definition DP_no_panic_stmt : Prop :=
  forall cfg hs ns init_row k, needle_ok cfg (rp ns) (cs ns) = true ->
    fuzzy_impl cfg hs ns init_row <> Panicked k.

(* C10, history independence: the result does not depend on what earlier calls left in the scratch row *)
Definition C10_history_stmt : Prop :=
  forall cfg hs ns row1 row2, needle_ok cfg (rp ns) (cs ns) = true ->
    fuzzy_impl cfg hs ns row1 = fuzzy_impl cfg hs ns row2.

(* C02 for the DP: reconstruct_optimal_path reports a valid embedding *)
Definition DP_witness_stmt : Prop :=
  forall cfg hs ns s idx, needle_ok cfg (rp ns) (cs ns) = true ->
    run cfg Fuzzy hs ns = Match s idx ->
    embedding_b idx (cs ns) (nh cfg (rp hs) (cs hs)) 0 = true.

(* C03 for the DP: the reported score is the fzf scheme on the reported alignment.  needle <= 2048 is
   enforced by the slab guard on the DP path; on the fallback paths the bound 2500 is needed as in
   C03_linear_score *)
Definition DP_score_stmt : Prop :=
  forall cfg hs ns s idx, prefer_prefix cfg = false -> bonus_bounded cfg -> lenN (cs ns) <= 2500 ->
    needle_ok cfg (rp ns) (cs ns) = true ->
    run cfg Fuzzy hs ns = Match s idx -> s = fzf_score cfg (rp hs) (cs hs) idx.

(* C04: never above the maximum over all alignments *)
Definition C04_upper_stmt : Prop :=
  forall cfg hs ns s idx b, prefer_prefix cfg = false -> bonus_bounded cfg -> lenN (cs ns) <= 2500 ->
    needle_ok cfg (rp ns) (cs ns) = true -> cs ns <> [] ->
    run cfg Fuzzy hs ns = Match s idx -> best_score cfg (rp hs) (cs hs) (cs ns) = Some b -> s <= b.

(* C04: for a one-character needle the best-placed occurrence wins: the score is the maximum of
   16 + 2 * bonus over all occurrences *)
Definition C04_single_stmt : Prop :=
  forall cfg hs c nr s idx, prefer_prefix cfg = false -> ~ known_K1 hs {| rp := nr; cs := [c] |} ->
    needle_ok cfg nr [c] = true -> (1 < length (cs hs))%nat ->
    run cfg Fuzzy hs {| rp := nr; cs := [c] |} = Match s idx ->
    (exists i, idx = [i] /\ nth (N.to_nat i) (nh cfg (rp hs) (cs hs)) 0 = c /\ (N.to_nat i < length (cs hs))%nat /\
               s = 16 + 2 * spec_bonus_at cfg (rp hs) (cs hs) i) /\
    (forall j, (N.to_nat j < length (cs hs))%nat -> nth (N.to_nat j) (nh cfg (rp hs) (cs hs)) 0 = c ->
               16 + 2 * spec_bonus_at cfg (rp hs) (cs hs) j <= s).

(* ---- further statements (second round) ------------------------------------------------------------ *)
(* C10: every entry point is total on well-formed input (no Panicked outcome), for every algorithm *)
Definition C10_total_stmt : Prop :=
  forall cfg a hs ns k, needle_ok cfg (rp ns) (cs ns) = true -> run cfg a hs ns <> Panicked k.

(* C04: the optimal matcher's score is never below (in fact equals) the documented two-matrix
   recurrence evaluated naively on the full matrix, whenever the matrix path is taken *)
Definition C04_recurrence_stmt : Prop :=
  forall cfg hs ns s idx r, prefer_prefix cfg = false -> bonus_bounded cfg ->
    needle_ok cfg (rp ns) (cs ns) = true -> ~ known_K1 hs ns ->
    (2 <= length (cs ns))%nat -> (length (cs ns) < length (cs hs))%nat ->
    slab_alloc_ok (rp hs) (lenN (cs hs)) (lenN (cs ns)) = true ->
    run cfg Fuzzy hs ns = Match s idx ->
    naive_score cfg (rp hs) (cs hs) (cs ns) = Some r -> r <= s.

(* C04: prefix preference never lowers a score and raises it by at most the prefix bonus (8) *)
Definition with_prefix (cfg : config) (b : bool) : config :=
  {| ignore_case := ignore_case cfg; normalize_on := normalize_on cfg; prefer_prefix := b; delims := delims cfg;
     bonus_white := bonus_white cfg; bonus_delim := bonus_delim cfg; init_class := init_class cfg |}.
Definition C04_prefix_stmt : Prop :=
  forall cfg a hs ns s0 i0 s1 i1, bonus_bounded cfg -> lenN (cs ns) <= 2400 ->
    needle_ok cfg (rp ns) (cs ns) = true ->
    run (with_prefix cfg false) a hs ns = Match s0 i0 -> run (with_prefix cfg true) a hs ns = Match s1 i1 ->
    s0 <= s1 /\ s1 <= s0 + 8.

(* ---- the executable predicate of known finding K2: the score matrix is used ---------------------- *)
(* does the optimal entry point reach the score matrix?  (mirrors the dispatch of fuzzy_impl and the
   slab guard of fuzzy_optimal; independent of prefer_prefix) *)
Definition dp_window (cfg : config) (hs ns : ustr) : option (N * N) :=
  let h := cs hs in let n := cs ns in
  if lenN h <? lenN n then None else
  match n with
  | [] => None
  | _ :: nrest =>
    if lenN n =? lenN h then None else
    match nrest with
    | [] => None
    | _ =>
      match rp hs, rp ns with
      | Ascii, Ascii =>
        match prefilter_ascii cfg h n false with
        | None => None
        | Some (start, _, end_) => if lenN n =? end_ - start then None else Some (start, end_)
        end
      | Ascii, Unicode => None
      | Unicode, _ =>
        match prefilter_non_ascii cfg h n false with
        | None => None
        | Some (start, end_) => if lenN n =? end_ - start then None else Some (start, end_)
        end
      end
    end
  end.
Definition dp_taken (cfg : config) (hs ns : ustr) : bool :=
  match dp_window cfg hs ns with
  | Some (start, end_) => slab_alloc_ok (rp hs) (lenN (sliceN start end_ (cs hs))) (lenN (cs ns))
  | None => false
  end.
