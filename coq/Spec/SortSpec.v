(* Specification vocabulary of C18: what "sorted", "strict weak order" and the contract assumed of
   partition_in_blocks mean.  Definitions only. *)
From Coq Require Import List Bool Permutation Sorted.
From NV Require Import Model.ParSort.
Import ListNotations.

(* trace events that stand for a Rust panic (index out of range) or for the model running out of fuel *)
Definition ev_ok (e : ev) : bool := match e with EvPanic | EvFuel => false | _ => true end.

Section SortSpec.
Context {A : Type}.
Variable less : A -> A -> bool.

(* a strict weak order given as a boolean function: irreflexive, transitive, and incomparability is
   transitive (stated as negative transitivity) *)
Definition strict_weak_order : Prop :=
  (forall a, less a a = false) /\
  (forall a b c, less a b = true -> less b c = true -> less a c = true) /\
  (forall a b c, less a b = false -> less b c = false -> less a c = false).

(* total on a set of elements: incomparable elements are equal *)
Definition total_on (v : list A) : Prop :=
  forall a b, In a v -> In b v -> less a b = false -> less b a = false -> a = b.

(* non-decreasing: no element is less than an element before it (every pair, not only adjacent ones) *)
Definition sorted (v : list A) : Prop := StronglySorted (fun a b => less b a = false) v.

(* what <[T]>::is_sorted_by checks: adjacent pairs only *)
Definition sorted_adjacent (v : list A) : Prop := Sorted (fun a b => less b a = false) v.

(* contract of partition_in_blocks(v, pivot) = (v', mid), permutation part *)
Definition pib_perm (pib : list A -> A -> list A * nat) : Prop :=
  forall v p, Permutation (fst (pib v p)) v.

(* full contract: v' is a permutation of v, mid <= len, its first mid elements are less than the pivot,
   the others are not *)
Definition pib_ok (pib : list A -> A -> list A * nat) : Prop :=
  forall v p, Permutation (fst (pib v p)) v /\
              snd (pib v p) <= length v /\
              Forall (fun x => less x p = true) (firstn (snd (pib v p)) (fst (pib v p))) /\
              Forall (fun x => less x p = false) (skipn (snd (pib v p)) (fst (pib v p))).
End SortSpec.
