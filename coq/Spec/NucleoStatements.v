(* Statements of the worker / tick protocol theorems (C06, C07, C12, C13, C19, C20) over Model/Nucleo.v. *)
From Coq Require Import NArith List Bool Sorting.Sorted.
From NV Require Import Model.Nucleo.
Import ListNotations.
Import Nucleo.
Local Open Scope N_scope.

Section Protocol.
Variable sc : N -> N -> N -> option N.   (* pattern, stream, index -> score (None = the item does not match) *)
Variable ln : N -> N -> N.               (* stream, index -> total length of the matcher columns *)

(* the empty pattern (id 0) matches everything with score 0 *)
Definition score_of (p sid i : N) : option N := if pat_is_empty p then Some 0 else sc p sid i.

(* ---- well-formed histories ------------------------------------------------------------------------ *)
(* injector handles are fresh when created; reservations / publications refer to existing streams and,
   for publications, to a reserved index *)
Fixpoint wf_events (s : nstate) (es : list event) : Prop :=
  match es with
  | [] => True
  | e :: es' =>
    (match e with
     | ENewInjector h => ~ In h (map fst (injectors s))
     | ECloneInjector h h' => In h (map fst (injectors s)) /\ ~ In h' (map fst (injectors s))
     | EReserve sid => sid < next_sid s
     | EPublish sid i => sid < next_sid s /\ i < count_of s sid
     | _ => True
     end) /\ wf_events (do_event sc ln s e) es'
  end.

Definition reachable (s : nstate) : Prop :=
  exists es, wf_events init_nstate es /\ s = run_events sc ln init_nstate es.

(* truthful append hints: whenever an edit is flagged `append` the new pattern refines the old one on
   every item (the text-level justification is C07_append_refines / C14); an edit that is not flagged may
   be anything *)
Definition refines (p' p : N) : Prop := forall sid i, score_of p' sid i <> None -> score_of p sid i <> None.
Fixpoint truthful (s : nstate) (es : list event) : Prop :=
  match es with
  | [] => True
  | e :: es' =>
    (match e with EEdit p true _ => refines p (ui_pat s) | _ => True end) /\ truthful (do_event sc ln s e) es'
  end.
Definition reachable_truthful (s : nstate) : Prop :=
  exists es, wf_events init_nstate es /\ truthful init_nstate es /\ s = run_events sc ln init_nstate es.

Definition ui_idle (s : nstate) : Prop := tpc s = TIdle.

(* ---- C20 ------------------------------------------------------------------------------------------ *)
Definition live_injectors (s : nstate) : N := lenN (filter (fun p => snd p =? cur s) (injectors s)).
(* the reported number is the number of live injector handles of the current stream, and the usize
   subtraction in active_injectors never underflows *)
Definition C20_count_stmt : Prop :=
  forall s, reachable s -> ui_idle s ->
    active_injectors s = live_injectors s /\
    (match ui_state s with SCleared => 1 | _ => 2 end) + (if sn_sid (snap s) =? cur s then 1 else 0) <= strong_count_cur s.

(* ---- C12 ------------------------------------------------------------------------------------------ *)
(* restart(true) empties the snapshot immediately and re-targets it; restart(false) leaves it untouched *)
Definition C12_restart_stmt : Prop :=
  forall s clear, reachable s -> ui_idle s ->
    let s' := do_event sc ln s (ERestart clear) in
    cur s' = next_sid s /\ (forall sid, sid < next_sid s -> cur s' <> sid) /\
    (if clear then snap s' = {| sn_count := 0; sn_matches := []; sn_pat := sn_pat (snap s); sn_sid := cur s' |}
     else snap s' = snap s).
(* the snapshot changes only when a tick picks up a finished, uncancelled run - never by injector
   activity (on any stream, in particular old injectors), edits, or the run itself *)
Definition C12_snapshot_stable_stmt : Prop :=
  forall s e, reachable s -> (match e with ETick | ERestart _ => False | _ => True end) ->
    snap (do_event sc ln s e) = snap s.
(* every index in the snapshot is an initialised item of the snapshot's own stream (never an index
   computed against another stream), so items of two streams are never mixed *)
Definition C12_no_mix_stmt : Prop :=
  forall s m, reachable s -> In m (sn_matches (snap s)) ->
    sn_sid (snap s) < next_sid s /\ m_idx m < count_of s (sn_sid (snap s)) /\
    published s (sn_sid (snap s)) (m_idx m) = true.
(* after a restart, the snapshot refers to the new stream only once a run over the new stream was picked up:
   while the snapshot's stream is not the current one, it is exactly the snapshot from before the restart
   - stated as: a tick step never installs a snapshot of a stream other than the current one *)
Definition C12_pickup_current_stmt : Prop :=
  forall s, reachable s -> snap (do_event sc ln s ETick) <> snap s ->
    sn_sid (snap (do_event sc ln s ETick)) = cur s.

(* ---- C19 ------------------------------------------------------------------------------------------ *)
(* at the moment a tick returns *)
Definition tick_returns (s s' : nstate) (st : bool * bool) : Prop :=
  tpc s <> TIdle /\ s' = do_event sc ln s ETick /\ tpc s' = TIdle /\ last_tick s' = Some st.
Definition C19_unchanged_stmt : Prop :=
  forall s s' r, reachable s -> tick_returns s s' (false, r) -> snap s' = g_snap_begin s'.
Definition C19_idle_stmt : Prop :=
  forall s s' c, reachable s -> tick_returns s s' (c, false) ->
    g_pub_begin s' <= sn_count (snap s') /\ sn_pat (snap s') = ui_pat s' /\ sn_sid (snap s') = cur s'.

(* ---- C13 ------------------------------------------------------------------------------------------ *)
(* no lost wake-up: while a notification is owed (a tick answered `running` and neither a worker
   notification nor a later tick / restart happened since) the system is never quiescent - a run still
   holds the lock, or its closure has not finished looking at the flag, or a tick is in progress *)
Definition C13_no_lost_wakeup_stmt : Prop :=
  forall s, reachable s -> g_owed s = true ->
    ~ (lock s = Free /\ post s = PNone /\ tpc s = TIdle).
(* ... and the closure that is about to look at the flag will notify: when the obligation is pending and
   the closure has released the lock, it completed (was not cancelled) and the flag is armed *)
Definition C13_will_notify_stmt : Prop :=
  forall s completed, reachable s -> g_owed s = true -> tpc s = TIdle -> post s = PUnlocked completed ->
    (match lock s with HeldRun _ _ _ => False | _ => True end) ->
    completed = true /\ should_notify s = true.
(* the worker never notifies while it still holds the lock: a notification is issued only from the
   post-unlock phase *)
Definition C13_notify_after_unlock_stmt : Prop :=
  forall s e, reachable s -> notifies (do_event sc ln s e) <> notifies s -> post s = PNotify.

(* ---- C06 ------------------------------------------------------------------------------------------ *)
(* the worker's comparison as a sort key: score descending, then length ascending, then index ascending *)
Definition key_le (sid : N) (a b : mtch) : Prop :=
  m_score b < m_score a \/
  (m_score a = m_score b /\ (ln sid (m_idx a) < ln sid (m_idx b) \/
                             (ln sid (m_idx a) = ln sid (m_idx b) /\ m_idx a <= m_idx b))).

Definition C06_snapshot_stmt : Prop :=
  forall s, reachable_truthful s ->
    let sn := snap s in
    NoDup (map m_idx (sn_matches sn)) /\
    (forall m, In m (sn_matches sn) ->
       m_idx m <> PLACEHOLDER /\ published s (sn_sid sn) (m_idx m) = true /\
       score_of (sn_pat sn) (sn_sid sn) (m_idx m) = Some (m_score m)) /\
    (exists proc : list N,
       NoDup proc /\ lenN proc = sn_count sn /\
       (forall i, In i proc -> published s (sn_sid sn) i = true) /\
       (forall m, In m (sn_matches sn) -> In (m_idx m) proc) /\
       (forall i, In i proc -> score_of (sn_pat sn) (sn_sid sn) i <> None -> In i (map m_idx (sn_matches sn)))) /\
    (if pat_is_empty (sn_pat sn) then StronglySorted (fun a b => m_idx a <= m_idx b) (sn_matches sn)
     else StronglySorted (key_le (sn_sid sn)) (sn_matches sn)).

(* ---- C07 ------------------------------------------------------------------------------------------ *)
(* what a fresh matcher computes from scratch: all items of the stream, in index order, that match *)
Definition from_scratch_idx (s : nstate) (p sid : N) : list N :=
  filter (fun i => match score_of p sid i with Some _ => true | None => false end)
         (map N.of_nat (seq 0 (length (stream_of sid (streams s))))).
Definition quiescent (s : nstate) : Prop :=
  ui_idle s /\ lock s = Free /\ (exists c, last_tick s = Some (c, false)) /\
  ui_state s = SFresh /\ ui_status s = Unchanged /\
  (* every item of the current stream had been published before the last tick began, none was added since *)
  g_pub_begin s = count_of s (cur s).
(* quiescent: no injector activity on the current stream since the last tick began, that tick reported
   `not running`, and no edit / restart happened since.  Then the snapshot is the from-scratch result: same count, same pattern, same
   set of matches with the right scores, in the specified order (C06 gives the order) *)
Definition C07_converges_stmt : Prop :=
  forall s, reachable_truthful s -> quiescent s ->
    let sn := snap s in
    sn_sid sn = cur s /\ sn_pat sn = ui_pat s /\ sn_count sn = count_of s (cur s) /\
    (forall i, In i (map m_idx (sn_matches sn)) <-> In i (from_scratch_idx s (ui_pat s) (cur s))).

(* ---- C06 / C07 with the capacity hypothesis ----------------------------------------------------------
   The protocol model's streams are unbounded lists; the real item vector never hands out an index above
   MAX_ENTRIES = u32::MAX - 32 (boxcar.rs: index > MAX_ENTRIES panics; constant translated in
   Gen/GenBoxcar.v, C11), so an item index can never equal the worker's placeholder value u32::MAX.  The
   two statements above are FALSE for the unbounded model (Proofs/SnapshotFacts.v: C06_snapshot_false,
   C07_converges_false - after 2^32 reservations the item with index u32::MAX is mistaken for a
   placeholder); the claimed statements add exactly the capacity hypothesis and nothing else. *)
Definition within_capacity (s : nstate) : Prop := forall sid, count_of s sid <= PLACEHOLDER.

Definition C06_snapshot_weak_stmt : Prop :=
  forall s, reachable_truthful s -> within_capacity s ->
    let sn := snap s in
    NoDup (map m_idx (sn_matches sn)) /\
    (forall m, In m (sn_matches sn) ->
       m_idx m <> PLACEHOLDER /\ published s (sn_sid sn) (m_idx m) = true /\
       score_of (sn_pat sn) (sn_sid sn) (m_idx m) = Some (m_score m)) /\
    (exists proc : list N,
       NoDup proc /\ lenN proc = sn_count sn /\
       (forall i, In i proc -> published s (sn_sid sn) i = true) /\
       (forall m, In m (sn_matches sn) -> In (m_idx m) proc) /\
       (forall i, In i proc -> score_of (sn_pat sn) (sn_sid sn) i <> None -> In i (map m_idx (sn_matches sn)))) /\
    (if pat_is_empty (sn_pat sn) then StronglySorted (fun a b => m_idx a <= m_idx b) (sn_matches sn)
     else StronglySorted (key_le (sn_sid sn)) (sn_matches sn)).

Definition C07_converges_weak_stmt : Prop :=
  forall s, reachable_truthful s -> within_capacity s -> quiescent s ->
    let sn := snap s in
    sn_sid sn = cur s /\ sn_pat sn = ui_pat s /\ sn_count sn = count_of s (cur s) /\
    (forall i, In i (map m_idx (sn_matches sn)) <-> In i (from_scratch_idx s (ui_pat s) (cur s))).

End Protocol.
