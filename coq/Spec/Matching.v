(* Specification side of C01..C05: the relations and the scoring scheme the properties talk about,
   written independently of the algorithms (constants are literals from the property text, not taken
   from the generated files).  All definitions are executable; they are also extracted and used as the
   property oracle on the implementation's outputs. *)
From Coq Require Import NArith List Bool.
From NV Require Import Model.Chars.
Import ListNotations.
Local Open Scope N_scope.

(* the normalised haystack *)
Definition nh (cfg : config) (hr : repr) (h : list N) : list N := map (norm cfg hr) h.

(* n occurs in order in h *)
Fixpoint subseq_b (n h : list N) : bool :=
  match n with
  | [] => true
  | x :: n' =>
    (fix go (h : list N) : bool :=
       match h with
       | [] => false
       | y :: h' => if y =? x then subseq_b n' h' else go h'
       end) h
  end.

Inductive subseq : list N -> list N -> Prop :=
| subseq_nil : forall h, subseq [] h
| subseq_skip : forall n y h, subseq n h -> subseq n (y :: h)
| subseq_take : forall x n h, subseq n h -> subseq (x :: n) (x :: h).

(* idxs is a valid witness: one strictly increasing in-range index per needle char, chars agree *)
Fixpoint embedding_b (idxs n h' : list N) (lo : N) : bool :=
  (* lo: smallest index still allowed *)
  match idxs, n with
  | [], [] => true
  | i :: idxs', x :: n' =>
    (lo <=? i) && (i <? N.of_nat (length h')) && (nth (N.to_nat i) h' 0 =? x) && embedding_b idxs' n' h' (i + 1)
  | _, _ => false
  end.

Fixpoint contiguous_from (idxs : list N) (i : N) : bool :=
  match idxs with
  | [] => true
  | j :: idxs' => (j =? i) && contiguous_from idxs' (i + 1)
  end.

(* ---- the fzf scoring scheme (C03) ---------------------------------------------------------------- *)
(* literal bonus table: boundary bonuses w / d / 8 (w,d = 10,9 by default; 8,9 for paths), 5 for
   camelCase / number transitions, whitespace w, non-word 8 *)
Definition spec_bonus (w d : N) (prev cur : cls) : N :=
  let is_word := match cur with CLower | CUpper | CLetter | CNumber => true | _ => false end in
  match is_word, prev with
  | true, CWhitespace => w
  | true, CDelimiter => d
  | true, CNonWord => 8
  | _, _ =>
    match prev, cur with
    | CLower, CUpper => 5
    | CNumber, CNumber => 0
    | _, CNumber => 5
    | _, CWhitespace => w
    | _, CNonWord => 8
    | _, _ => 0
    end
  end.

Definition spec_bonus_cfg (cfg : config) : cls -> cls -> N := spec_bonus (bonus_white cfg) (bonus_delim cfg).

Definition class_before (cfg : config) (hr : repr) (h : list N) (i : N) : cls :=
  if i =? 0 then init_class cfg else class cfg hr (nth (N.to_nat (i - 1)) h 0).

Definition spec_bonus_at (cfg : config) (hr : repr) (h : list N) (i : N) : N :=
  spec_bonus_cfg cfg (class_before cfg hr h i) (class cfg hr (nth (N.to_nat i) h 0)).

(* running evaluation over the remaining indices: prev = previous matched index, rf = first bonus of the
   current consecutive run *)
Fixpoint fzf_rest (cfg : config) (hr : repr) (h : list N) (idxs : list N) (prev rf score : N) : N :=
  match idxs with
  | [] => score
  | i :: idxs' =>
    let b := spec_bonus_at cfg hr h i in
    if i =? prev + 1 then
      let rf' := if (8 <=? b) && (rf <? b) then b else rf in
      fzf_rest cfg hr h idxs' i rf' (score + 16 + N.max (N.max b rf') 4)
    else
      let gap := i - prev - 1 in       (* skipped characters: 3 for the first, 1 for each further one *)
      fzf_rest cfg hr h idxs' i b ((score - (3 + (gap - 1))) + 16 + b)
  end.

Definition fzf_score (cfg : config) (hr : repr) (h : list N) (idxs : list N) : N :=
  match idxs with
  | [] => 0
  | i0 :: idxs' =>
    let b := spec_bonus_at cfg hr h i0 in
    fzf_rest cfg hr h idxs' i0 b (16 + 2 * b)
  end.

(* ---- C05 relations ------------------------------------------------------------------------------- *)
Definition occurs (cfg : config) (hr : repr) (h n : list N) (p : N) : bool :=
  (p + N.of_nat (length n) <=? N.of_nat (length h)) &&
  forallb (fun q => fst q =? snd q) (combine (firstn (length n) (skipn (N.to_nat p) (nh cfg hr h))) n).

Definition all_positions (h : list N) : list N := map N.of_nat (seq 0 (length h)).

(* leftmost occurrence whose first character earns the highest bonus *)
Definition spec_substring_pos (cfg : config) (hr : repr) (h n : list N) : option N :=
  let occ := filter (occurs cfg hr h n) (all_positions h) in
  fold_left (fun best p =>
               match best with
               | None => Some p
               | Some q => if spec_bonus_at cfg hr h q <? spec_bonus_at cfg hr h p then Some p else best
               end) occ None.

(* whitespace as the code's trimming predicate for that representation *)
Definition spec_is_ws (r : repr) (c : N) : bool :=
  match r with Ascii => std_is_ascii_whitespace c | Unicode => std_is_whitespace c end.
Fixpoint count_leading (p : N -> bool) (l : list N) : N :=
  match l with x :: l' => if p x then 1 + count_leading p l' else 0 | [] => 0 end.
(* number of leading / trailing whitespace characters, 0 for an all-whitespace haystack
   (the code's unwrap_or(0)) *)
Definition spec_lead (hr : repr) (h : list N) : N :=
  let k := count_leading (spec_is_ws hr) h in if k =? N.of_nat (length h) then 0 else k.
Definition spec_trail (hr : repr) (h : list N) : N := spec_lead hr (frev h).

(* ---- C04: brute force over all alignments -------------------------------------------------------- *)
(* all strictly increasing index lists embedding n into h' starting at index >= lo *)
Fixpoint embeddings (fuel : nat) (n h' : list N) (lo : N) : list (list N) :=
  match n with
  | [] => [[]]
  | x :: n' =>
    match fuel with
    | O => []
    | S fuel' =>
      flat_map (fun i => if (lo <=? i) && (nth (N.to_nat i) h' 0 =? x)
                         then map (cons i) (embeddings fuel' n' h' (i + 1)) else [])
               (all_positions h')
    end
  end.

Definition best_score (cfg : config) (hr : repr) (h n : list N) : option N :=
  fold_left (fun best idxs =>
               let s := fzf_score cfg hr h idxs in
               match best with Some b => Some (N.max b s) | None => Some s end)
            (embeddings (S (length n)) n (nh cfg hr h) 0) None.

(* prefix / postfix / exact: the needle equals the normalised haystack text at the start, at the end,
   or as a whole; leading (trailing) haystack whitespace is ignored unless the needle itself starts
   (ends) with whitespace.  Each returns the start index of the match. *)
Definition needle_ok (cfg : config) (nr : repr) (n : list N) : bool :=
  forallb (fun c => norm cfg nr c =? c) n.
Definition lead_for (hr : repr) (h n : list N) : N :=
  match n with c :: _ => if std_is_whitespace c then 0 else spec_lead hr h | [] => 0 end.
Definition trail_for (hr : repr) (h n : list N) : N :=
  if std_is_whitespace (last n 0) then 0 else spec_trail hr h.
Definition spec_prefix (cfg : config) (hr : repr) (h n : list N) : option N :=
  let l := lead_for hr h n in if occurs cfg hr h n l then Some l else None.
Definition spec_postfix (cfg : config) (hr : repr) (h n : list N) : option N :=
  let t := trail_for hr h n in
  let hl := N.of_nat (length h) in let nl := N.of_nat (length n) in
  if (nl + t <=? hl) && occurs cfg hr h n (hl - nl - t) then Some (hl - nl - t) else None.
Definition spec_exact (cfg : config) (hr : repr) (h n : list N) : option N :=
  let l := lead_for hr h n in let t := trail_for hr h n in
  if (l + N.of_nat (length n) + t =? N.of_nat (length h)) && occurs cfg hr h n l then Some l else None.

(* ---- C04: the documented two-matrix affine-gap recurrence, evaluated naively ---------------------- *)
(* Full |needle| x |haystack| matrices with option cells (None = unreachable), no window, no row
   offsets, no single-row compression.  M cell = (score, bonus carried by the consecutive run);
   P cell = best score of an alignment of the row's prefix that ends in a gap before this column.
   Literal constants: match 16, gap start 3, gap extension 1, consecutive minimum 4, boundary 8. *)
Definition naive_p (m_prev : option (N * N)) (p_prev : option N) : option N :=
  match m_prev, p_prev with
  | None, None => None
  | Some (m, _), None => Some (m - 3)
  | None, Some p => Some (p - 1)
  | Some (m, _), Some p => Some (if p - 1 <? m - 3 then m - 3 else p - 1)
  end.
Definition naive_m (m_diag : option (N * N)) (p_diag : option N) (b : N) : option (N * N) :=
  match m_diag with
  | None => match p_diag with None => None | Some p => Some (p + b + 16, b) end
  | Some (m, cbm) =>
    let cb0 := N.max cbm 4 in
    let cb1 := if (8 <=? b) && (cb0 <? b) then b else cb0 in
    let sm := m + N.max cb1 b in
    match p_diag with
    | None => Some (sm + 16, cb1)
    | Some p => if p + b <? sm then Some (sm + 16, cb1) else Some (p + b + 16, b)
    end
  end.
(* P row from an M row: P[j] depends on M[j-1], P[j-1] *)
Fixpoint naive_p_row (ms : list (option (N * N))) (m_prev : option (N * N)) (p_prev : option N) : list (option N) :=
  match ms with
  | [] => []
  | m :: ms' => let p := naive_p m_prev p_prev in p :: naive_p_row ms' m p
  end.
(* next M row: M'[j] from M[j-1], P[j-1] where the haystack character matches *)
Fixpoint naive_next_row (x : N) (hs bs : list N) (ms : list (option (N * N))) (ps : list (option N))
         (m_diag : option (N * N)) (p_diag : option N) : list (option (N * N)) :=
  match hs, bs, ms, ps with
  | c :: hs', b :: bs', m :: ms', p :: ps' =>
    (if c =? x then naive_m m_diag p_diag b else None) :: naive_next_row x hs' bs' ms' ps' m p
  | _, _, _, _ => []
  end.
Fixpoint naive_rows (n : list N) (hs bs : list N) (ms : list (option (N * N))) : list (option (N * N)) :=
  match n with
  | [] => ms
  | x :: n' => naive_rows n' hs bs (naive_next_row x hs bs ms (naive_p_row ms None None) None None)
  end.
Definition naive_score (cfg : config) (hr : repr) (h n : list N) : option N :=
  match n with
  | [] => Some 0
  | x :: n' =>
    let hs := nh cfg hr h in
    let bs := map (fun i => spec_bonus_at cfg hr h (N.of_nat i)) (seq 0 (length h)) in
    let row0 := map (fun cb => if fst cb =? x then Some (16 + 2 * snd cb, snd cb) else None) (combine hs bs) in
    fold_left (fun best c => match c, best with
                             | Some (s, _), Some b => Some (N.max s b)
                             | Some (s, _), None => Some s
                             | None, _ => best
                             end) (naive_rows n' hs bs row0) None
  end.

(* the documented limits of the matrix path (property text: 100 KiB cells, needle 2048, haystack 65535) *)
Definition spec_matrix_refuses (hl nl : N) : bool := (102400 <? hl * nl) || (65535 <? hl) || (2048 <? nl).
