(* Model of src/par_sort.rs (the cancellable, parallel copy of std's pattern-defeating quicksort) and of
   the comparator closure of Worker::run in src/worker.rs.  Definitions only.

   Conventions.  A slice `&mut [T]` is a `list A`; a function that mutates its slice returns the new
   list.  `is_less` is an arbitrary boolean function `less : A -> A -> bool` (nothing is assumed about
   it here: the real code is memory-safe and permutation-preserving for every deterministic
   comparator, and so is the model).  Indices and lengths are `nat` (they are consumed by the
   structural list functions firstn / skipn / nth_error); the xorshift generator of `break_patterns`
   is computed in `N` with explicit 32-bit truncation.  Raw-pointer moves (ptr::copy_nonoverlapping
   through a `CopyOnDrop` hole, ptr::swap, the cyclic permutation of partition_in_blocks) are modelled
   by their net effect on the slice, one Gallina function per Rust function, performing the same
   comparisons in the same order.  Panic paths that the Rust code has (`v[pivot]`, `v.swap`,
   `split_at_mut` out of range) are reported as the ghost trace event `EvPanic`; they are unreachable.

   The cancel flag (`canceled: &AtomicBool`, read with Relaxed loads at exactly two program points) is
   an oracle `nat -> bool`: the value seen by the k-th load.  `rayon::join(a, b)` is sequentialised as
   "a, then b": the two closures work on the disjoint halves of `split_at_mut` and share only the
   (read-only) comparator and the flag, so every parallel execution computes the same two halves.
   The order in which the loads of the flag are numbered is the only thing the sequentialisation
   fixes, and no theorem depends on it beyond "some load saw `true`".

   Ghost output: every `recurse` activation appends the branch it took to a trace (`list ev`), so the
   correspondence run can measure which branches a case exercised.

   External: `rayon::join` (fork-join, modelled as above), `AtomicBool::load(Relaxed)` (the oracle).
   `mem::size_of::<T>() == 0` (zero-sized element types) is outside the model. *)
From Coq Require Import NArith List Bool Arith.
Import ListNotations.

Module PS.


(* reverse in linear time (List.rev is quadratic once extracted); equal to List.rev by List.rev_alt *)
Definition lrev {A} (l : list A) : list A := rev_append l [].

(* longest prefix on which f holds, and the rest *)
Fixpoint span {A} (f : A -> bool) (l : list A) : list A * list A :=
  match l with
  | [] => ([], [])
  | x :: t => if f x then let (a, b) := span f t in (x :: a, b) else ([], l)
  end.

(* v[i] = x  (no effect when i is out of range) *)
Fixpoint upd {A} (i : nat) (x : A) (l : list A) : list A :=
  match l, i with
  | [], _ => []
  | _ :: t, O => x :: t
  | y :: t, S i' => y :: upd i' x t
  end.

(* <[T]>::swap(i, j); out of range (a panic in Rust) leaves the list unchanged *)
Definition swap {A} (i j : nat) (l : list A) : list A :=
  match nth_error l i, nth_error l j with
  | Some x, Some y => upd j x (upd i y l)
  | _, _ => l
  end.

Definition idx_ok {A} (i : nat) (l : list A) : bool := i <? length l.

(* ghost trace of recurse *)
Inductive ev :=
| EvInsertion      (* len <= MAX_INSERTION: insertion_sort *)
| EvHeapsort       (* limit == 0: heapsort *)
| EvBreak          (* !was_balanced: break_patterns, limit -= 1 *)
| EvReversed       (* choose_pivot reversed the slice *)
| EvPartialTry     (* partial_insertion_sort was called *)
| EvPartialSorted  (* ... and returned true *)
| EvPartEqual      (* pred is not less than the pivot: partition_equal *)
| EvSeqLeft        (* sequential: recurse(left), continue with right *)
| EvSeqRight       (* sequential: recurse(right), continue with left *)
| EvCancel         (* canceled.load() returned true: break true *)
| EvJoin           (* rayon::join of the two halves *)
| EvFuel           (* the model ran out of fuel (unreachable: fuel = len + 1) *)
| EvPanic.         (* an index was out of range (unreachable) *)

Section Sort.
Context {A : Type}.
Variable less : A -> A -> bool.

Definition lessi (v : list A) (i j : nat) : bool :=
  match nth_error v i, nth_error v j with
  | Some x, Some y => less x y
  | _, _ => false
  end.

(* ---- shift_head / shift_tail ------------------------------------------------------------------------ *)
(* the loop of shift_head: `tmp` travels right while v[i] < tmp *)
Fixpoint ins_head (x : A) (r : list A) : list A :=
  match r with
  | [] => [x]
  | z :: r' => if less z x then z :: ins_head x r' else x :: r
  end.

(* fn shift_head: if len >= 2 && is_less(v[1], v[0]) { move v[0] right past the smaller elements } *)
Definition shift_head (v : list A) : list A :=
  match v with
  | x :: y :: r => if less y x then y :: ins_head x r else v
  | _ => v
  end.

(* the loop of shift_tail on the reversed prefix: `tmp` travels left while tmp < v[i] *)
Fixpoint ins_tail (x : A) (r : list A) : list A :=
  match r with
  | [] => [x]
  | z :: r' => if less x z then z :: ins_tail x r' else x :: r
  end.

(* fn shift_tail: if len >= 2 && is_less(v[len-1], v[len-2]) { move v[len-1] left past the greater ones } *)
Definition shift_tail (v : list A) : list A :=
  match lrev v with
  | x :: y :: r => if less x y then lrev (y :: ins_tail x r) else v
  | _ => v
  end.

(* ---- insertion_sort --------------------------------------------------------------------------------- *)
(* for i in 1..len { shift_tail(&mut v[..i + 1]) };  `done` is v[..i], `todo` is v[i..] *)
Fixpoint insertion_sort_loop (done todo : list A) : list A :=
  match todo with
  | [] => done
  | x :: t => insertion_sort_loop (shift_tail (done ++ [x])) t
  end.

Definition insertion_sort (v : list A) : list A :=
  match v with
  | [] => []
  | x :: t => insertion_sort_loop [x] t
  end.

(* ---- partial_insertion_sort ------------------------------------------------------------------------- *)
Definition MAX_STEPS : nat := 5.
Definition SHORTEST_SHIFTING : nat := 50.

(* while i < len && !is_less(v[i], v[i-1]) { i += 1 }   with prev = v[i-1], rest = v[i..] *)
Fixpoint find_descent (prev : A) (rest : list A) (i : nat) : nat :=
  match rest with
  | [] => i
  | b :: t => if less b prev then i else find_descent b t (S i)
  end.

Definition scan_from (v : list A) (i : nat) : nat :=
  match skipn (i - 1) v with
  | prev :: rest => find_descent prev rest i
  | [] => i
  end.

(* one iteration of `for _ in 0..MAX_STEPS`; i is carried over between iterations *)
Fixpoint pis_loop (steps : nat) (i : nat) (v : list A) : bool * list A :=
  match steps with
  | O => (false, v)
  | S s =>
    let i := scan_from v i in
    if i =? length v then (true, v)
    else if length v <? SHORTEST_SHIFTING then (false, v)
    else
      let v1 := swap (i - 1) i v in
      let v2 := shift_tail (firstn i v1) ++ shift_head (skipn i v1) in
      pis_loop s i v2
  end.

(* fn partial_insertion_sort(v) -> bool *)
Definition partial_insertion_sort (v : list A) : bool * list A := pis_loop MAX_STEPS 1 v.

(* ---- heapsort --------------------------------------------------------------------------------------- *)
(* the closure sift_down(v, node); fuel bounds the loop (node strictly increases and stays < len) *)
Fixpoint sift_down (fuel : nat) (v : list A) (node : nat) : list A :=
  match fuel with
  | O => v
  | S f =>
    let child := 2 * node + 1 in
    if length v <=? child then v
    else
      let child := if (child + 1 <? length v) && lessi v child (child + 1) then child + 1 else child in
      if negb (lessi v node child) then v
      else sift_down f (swap node child v) child
  end.

(* for i in (0..len/2).rev() { sift_down(v, i) }   -- n counts down from len/2 *)
Fixpoint heap_build (n : nat) (v : list A) : list A :=
  match n with
  | O => v
  | S i => heap_build i (sift_down (length v) v i)
  end.

(* for i in (1..len).rev() { v.swap(0, i); sift_down(&mut v[..i], 0) }   -- n counts down from len-1 *)
Fixpoint heap_pop (n : nat) (v : list A) : list A :=
  match n with
  | O => v
  | S i' =>
    let i := n in
    let v1 := swap 0 i v in
    heap_pop i' (sift_down i (firstn i v1) 0 ++ skipn i v1)
  end.

(* fn heapsort(v) *)
Definition heapsort (v : list A) : list A :=
  heap_pop (length v - 1) (heap_build (length v / 2) v).

(* ---- partition_in_blocks ---------------------------------------------------------------------------- *)
(* BlockQuicksort partitioning of v around `pivot`: the most intricate part of the file (raw pointers
   l, r into the slice, two offset buffers, a cyclic permutation through a temporary).
   State of the model: the slice is kept as  rev ldone ++ w ++ rdone  where w = v[l..r] is the part
   between the two pointers; offsets are relative to l (left block) and to r (right block: offset i is
   the element r-1-i) exactly as in the Rust code, so no absolute index arithmetic is needed.
   `offs_l` / `offs_r` are the not yet consumed parts start_l..end_l / start_r..end_r of the buffers
   (empty = `start == end`; the initial null pointers are the empty buffers). *)
Definition BLOCK : nat := 128.

(* `for i in 0..block { *end = i; end += f(elem) }`: the offsets i of the block elements satisfying f *)
Fixpoint trace_block (f : A -> bool) (blk : list A) (i : nat) : list nat :=
  match blk with
  | [] => []
  | x :: t => if f x then i :: trace_block f t (S i) else trace_block f t (S i)
  end.

Fixpoint upd_all (ps : list (nat * A)) (l : list A) : list A :=
  match ps with
  | [] => l
  | (i, x) :: t => upd_all t (upd i x l)
  end.

(* the cyclic permutation  tmp = L0; L0 = R0; (R(k-1) = Lk; Lk = Rk)*; R(count-1) = tmp
   on the left block lb (offsets ol) and the reversed right block rb (offsets or) *)
Definition cyclic (d : A) (lb rb : list A) (ol or : list nat) : list A * list A :=
  let lvals := map (fun i => nth i lb d) ol in
  let rvals := map (fun i => nth i rb d) or in
  let lrot := match lvals with [] => [] | x :: t => t ++ [x] end in
  (upd_all (combine ol rvals) lb, upd_all (combine or lrot) rb).

Definition is_nil {B} (l : list B) : bool := match l with [] => true | _ => false end.

(* "the left block remains": while start_l < end_l { end_l -= 1; swap(l + *end_l, r - 1); r -= 1 } *)
Fixpoint finish_left (roffs : list nat) (w rdone : list A) : list A * list A :=
  match roffs with
  | [] => (w, rdone)
  | e :: t =>
    let w1 := swap e (length w - 1) w in
    finish_left t (firstn (length w - 1) w1) (skipn (length w - 1) w1 ++ rdone)
  end.

(* "the right block remains": while start_r < end_r { end_r -= 1; swap(l, r - *end_r - 1); l += 1 };
   r is fixed, so offset e is the element length w - 1 - e of the current w *)
Fixpoint finish_right (roffs : list nat) (ldone w : list A) : list A * list A :=
  match roffs with
  | [] => (ldone, w)
  | e :: t =>
    let w1 := swap 0 (length w - 1 - e) w in
    match w1 with
    | [] => (ldone, w1)
    | x :: w2 => finish_right t (x :: ldone) w2
    end
  end.

Fixpoint pib_loop (fuel : nat) (pivot : A) (ldone w rdone : list A) (block_l block_r : nat)
         (offs_l offs_r : list nat) : list A * nat :=
  match fuel with
  | O => (lrev ldone ++ w ++ rdone, length ldone)
  | S f =>
    let width := length w in
    let is_done := width <=? 2 * BLOCK in
    let '(block_l, block_r) :=
      if is_done then
        let rem := if negb (is_nil offs_l) || negb (is_nil offs_r) then width - BLOCK else width in
        if negb (is_nil offs_l) then (block_l, rem)
        else if negb (is_nil offs_r) then (rem, block_r)
        else (rem / 2, rem - rem / 2)
      else (block_l, block_r) in
    let lb := firstn block_l w in
    let rest := skipn block_l w in
    let mid := firstn (length rest - block_r) rest in
    let rb := lrev (skipn (length rest - block_r) rest) in     (* rb[i] is the element at r-1-i *)
    let offs_l := if is_nil offs_l then trace_block (fun x => negb (less x pivot)) lb 0 else offs_l in
    let offs_r := if is_nil offs_r then trace_block (fun x => less x pivot) rb 0 else offs_r in
    let count := Nat.min (length offs_l) (length offs_r) in
    let '(lb, rb) := if 0 <? count then cyclic pivot lb rb (firstn count offs_l) (firstn count offs_r)
                     else (lb, rb) in
    let offs_l := skipn count offs_l in
    let offs_r := skipn count offs_r in
    (* l += block_l / r -= block_r when the block is used up *)
    let '(ldone, wl) := if is_nil offs_l then (rev_append lb ldone, []) else (ldone, lb) in
    let '(rdone, wr) := if is_nil offs_r then (lrev rb ++ rdone, []) else (rdone, lrev rb) in
    let w := wl ++ mid ++ wr in
    if is_done then
      if negb (is_nil offs_l) then
        let '(w', rdone') := finish_left (lrev offs_l) w rdone in
        (lrev ldone ++ w' ++ rdone', length ldone + length w')
      else if negb (is_nil offs_r) then
        let '(ldone', w') := finish_right (lrev offs_r) ldone w in
        (lrev ldone' ++ w' ++ rdone, length ldone')
      else (lrev ldone ++ w ++ rdone, length ldone)
    else pib_loop f pivot ldone w rdone block_l block_r offs_l offs_r
  end.

(* fn partition_in_blocks(v, pivot) -> usize *)
Definition partition_in_blocks (v : list A) (pivot : A) : list A * nat :=
  pib_loop (S (length v)) pivot [] v [] BLOCK BLOCK [] [].

(* a reference implementation of the same contract (stable partition), used to show that the contract
   the theorems assume of partition_in_blocks is satisfiable; NOT what the code does *)
Definition pib_spec (v : list A) (pivot : A) : list A * nat :=
  let a := filter (fun x => less x pivot) v in
  (a ++ filter (fun x => negb (less x pivot)) v, length a).

Section WithPib.
(* partition_in_blocks as a parameter: the theorems of Props/C18.v hold for every function that
   satisfies the contract `pib_ok` (Proofs/C18Facts.v); the executable model instantiates it with
   `partition_in_blocks` above *)
Variable pib : list A -> A -> list A * nat.

(* ---- partition -------------------------------------------------------------------------------------- *)
(* fn partition(v, pivot) -> (mid, was_partitioned) *)
Definition partition (v : list A) (pivot : nat) : list A * nat * bool * bool :=
  let ok := idx_ok pivot v in
  match swap 0 pivot v with
  | [] => (v, 0, true, false)                      (* v[0] on an empty slice: panic *)
  | p :: rest =>
    let (a, m1) := span (fun x => less x p) rest in                   (* while l < r && v[l] < p *)
    let (rb, rm2) := span (fun x => negb (less x p)) (lrev m1) in      (* while l < r && !(v[r-1] < p) *)
    let m2 := lrev rm2 in
    let (m2', c) := pib m2 p in
    let mid := length a + c in
    let v' := p :: a ++ m2' ++ lrev rb in
    (swap 0 mid v', mid, is_nil rm2, ok && idx_ok mid v')
  end.

(* ---- partition_equal -------------------------------------------------------------------------------- *)
(* the loop of partition_equal on m = v[l..r]; returns the rearranged m and how many of its elements
   ended up on the left *)
Fixpoint pe_loop (fuel : nat) (p : A) (m : list A) : list A * nat :=
  match fuel with
  | O => (m, 0)
  | S f =>
    let (a, m1) := span (fun x => negb (less p x)) m in                (* while l < r && !(p < v[l]) *)
    let (rb, rm2) := span (fun x => less p x) (lrev m1) in              (* while l < r && p < v[r-1] *)
    match rm2 with
    | [] => (a ++ lrev rb, length a)                                   (* l >= r: break *)
    | y :: rmid =>
      match lrev rmid with
      | [] => (a ++ y :: lrev rb, length a + 1)      (* l == r-1 (cannot happen for a function less) *)
      | x :: mid =>                                  (* r -= 1; swap(l, r); l += 1 *)
        let (r, c) := pe_loop f p mid in
        (a ++ y :: r ++ x :: lrev rb, length a + 1 + c)
      end
    end
  end.

(* fn partition_equal(v, pivot) -> usize *)
Definition partition_equal (v : list A) (pivot : nat) : list A * nat * bool :=
  match swap 0 pivot v with
  | [] => (v, 0, false)
  | p :: rest => let (r, c) := pe_loop (S (length rest)) p rest in (p :: r, c + 1, idx_ok pivot v)
  end.

(* ---- break_patterns --------------------------------------------------------------------------------- *)
Definition u32 (x : N) : N := N.land x 4294967295.
(* random ^= random << 13; random ^= random >> 17; random ^= random << 5  (u32, shifts truncate) *)
Definition xorshift32 (r : N) : N :=
  let r := N.lxor r (u32 (N.shiftl r 13)) in
  let r := N.lxor r (N.shiftr r 17) in
  N.lxor r (u32 (N.shiftl r 5)).
(* usize::next_power_of_two *)
Definition next_power_of_two (n : N) : N := if (n <=? 1)%N then 1%N else N.pow 2 (N.log2_up n).

(* for i in 0..3 { other = gen_usize() & (modulus-1); if other >= len { other -= len };
   v.swap(pos - 1 + i, other) }   with usize::BITS = 64: gen_usize = (gen_u32() << 32) | gen_u32() *)
Fixpoint break_loop (n : nat) (i : nat) (random : N) (len modulus : N) (pos : nat) (v : list A) : list A :=
  match n with
  | O => v
  | S n' =>
    let r1 := xorshift32 random in
    let r2 := xorshift32 r1 in
    let g := N.lor (N.shiftl r1 32) r2 in
    let other := N.land g (modulus - 1) in
    let other := if (len <=? other)%N then (other - len)%N else other in
    break_loop n' (S i) r2 len modulus pos (swap (pos - 1 + i) (N.to_nat other) v)
  end.

(* fn break_patterns(v) *)
Definition break_patterns (v : list A) : list A :=
  let len := length v in
  if 8 <=? len then
    let lenN := N.of_nat len in
    break_loop 3 0 (u32 lenN) lenN (next_power_of_two lenN) (len / 4 * 2) v
  else v.

(* ---- choose_pivot ----------------------------------------------------------------------------------- *)
Definition SHORTEST_MEDIAN_OF_MEDIANS : nat := 50.
Definition MAX_SWAPS : nat := 12.

(* the closure sort2 on indices: if v[b] < v[a] { swap(a, b); swaps += 1 } *)
Definition sort2 (v : list A) (s : nat * nat * nat) : nat * nat * nat :=
  let '(a, b, swaps) := s in
  if lessi v b a then (b, a, S swaps) else (a, b, swaps).

(* sort3(a, b, c) = sort2(a, b); sort2(b, c); sort2(a, b) *)
Definition sort3 (v : list A) (s : nat * nat * nat * nat) : nat * nat * nat * nat :=
  let '(a, b, c, swaps) := s in
  let '(a, b, swaps) := sort2 v (a, b, swaps) in
  let '(b, c, swaps) := sort2 v (b, c, swaps) in
  let '(a, b, swaps) := sort2 v (a, b, swaps) in
  (a, b, c, swaps).

(* sort_adjacent(a): the median index of a-1, a, a+1 *)
Definition sort_adjacent (v : list A) (a swaps : nat) : nat * nat :=
  let '(_, b, _, swaps) := sort3 v (a - 1, a, a + 1, swaps) in (b, swaps).

(* fn choose_pivot(v) -> (pivot, likely_sorted); the third component says whether v was reversed *)
Definition choose_pivot (v : list A) : list A * nat * bool * bool :=
  let len := length v in
  let a := len / 4 * 1 in
  let b := len / 4 * 2 in
  let c := len / 4 * 3 in
  let '(a, b, c, swaps) :=
    if 8 <=? len then
      let '(a, b, c, swaps) :=
        if SHORTEST_MEDIAN_OF_MEDIANS <=? len then
          let '(a, swaps) := sort_adjacent v a 0 in
          let '(b, swaps) := sort_adjacent v b swaps in
          let '(c, swaps) := sort_adjacent v c swaps in
          (a, b, c, swaps)
        else (a, b, c, 0) in
      sort3 v (a, b, c, swaps)
    else (a, b, c, 0) in
  if swaps <? MAX_SWAPS then (v, b, swaps =? 0, false)
  else (lrev v, len - 1 - b, true, true).

(* ---- recurse / par_quicksort ------------------------------------------------------------------------ *)
Definition MAX_INSERTION : nat := 20.
Definition MAX_SEQUENTIAL : nat := 2000.

Variable oracle : nat -> bool.   (* canceled.load(Relaxed) as seen by the k-th load *)

(* result of recurse: returned flag, the slice afterwards, number of flag loads so far, ghost trace *)
Definition rres : Type := bool * list A * nat * list ev.

(* fn recurse(v, is_less, pred, limit, canceled) -> bool.
   One activation of this function is one iteration of the Rust `loop`: `continue` with a sub-slice is
   the tail call on that sub-slice carrying (pred, limit, was_balanced, was_partitioned); a nested
   `recurse(..)` call starts with was_balanced = was_partitioned = true.  Every call is on a strictly
   shorter list, so fuel = len + 1 is never exhausted.  k = number of loads of `canceled` so far. *)
Fixpoint recurse (fuel : nat) (v : list A) (pred : option A) (limit : nat)
         (was_balanced was_partitioned : bool) (k : nat) : rres :=
  match fuel with
  | O => (false, v, k, [EvFuel])
  | S f =>
    let len := length v in
    if len <=? MAX_INSERTION then (false, insertion_sort v, k, [EvInsertion])
    else if limit =? 0 then (false, heapsort v, k, [EvHeapsort])
    else
      let '(v, limit, tr0) :=
        if was_balanced then (v, limit, []) else (break_patterns v, limit - 1, [EvBreak]) in
      let '(v, pivot, likely_sorted, reversed) := choose_pivot v in
      let tr0 := if reversed then tr0 ++ [EvReversed] else tr0 in
      let '(sorted_now, v, tr0) :=
        if was_balanced && was_partitioned && likely_sorted
        then let (b, v') := partial_insertion_sort v in
             (b, v', tr0 ++ [EvPartialTry])
        else (false, v, tr0) in
      if sorted_now then (false, v, k, tr0 ++ [EvPartialSorted])
      else
        let pred_not_less :=        (* if let Some(ref p) = pred { if !is_less(p, &v[pivot]) {..} } *)
          match pred with
          | Some p => match nth_error v pivot with
                      | Some x => Some (negb (less p x))
                      | None => None            (* v[pivot] out of bounds: panic *)
                      end
          | None => Some false
          end in
        match pred_not_less with
        | None => (false, v, k, tr0 ++ [EvPanic])
        | Some true =>
          let '(v, mid, ok) := partition_equal v pivot in
          let '(c, r, k', tr) := recurse f (skipn mid v) pred limit was_balanced was_partitioned k in
          (c, firstn mid v ++ r, k', tr0 ++ EvPartEqual :: (if ok then [] else [EvPanic]) ++ tr)
        | Some false =>
          let '(v, mid, was_p, ok) := partition v pivot in
          let was_b := len / 8 <=? Nat.min mid (len - mid) in
          let lft := firstn mid v in
          match skipn mid v with
          | [] => (false, v, k, tr0 ++ [EvPanic])          (* split_at_mut(1) on an empty slice *)
          | pv :: rgt =>
            let tr0 := if ok then tr0 else tr0 ++ [EvPanic] in
            if Nat.max (length lft) (length rgt) <=? MAX_SEQUENTIAL then
              if length lft <? length rgt then
                (* the flag returned by the nested call is dropped, as in the Rust code *)
                let '(_, l', k1, tr1) := recurse f lft pred limit true true k in
                let '(c, r', k2, tr2) := recurse f rgt (Some pv) limit was_b was_p k1 in
                (c, l' ++ pv :: r', k2, tr0 ++ EvSeqLeft :: tr1 ++ tr2)
              else
                let '(_, r', k1, tr1) := recurse f rgt (Some pv) limit true true k in
                let '(c, l', k2, tr2) := recurse f lft pred limit was_b was_p k1 in
                (c, l' ++ pv :: r', k2, tr0 ++ EvSeqRight :: tr1 ++ tr2)
            else if oracle k then (true, v, S k, tr0 ++ [EvCancel])
            else
              (* if !was_balanced { limit = limit.saturating_sub(1) }: the nested calls start with
                 was_balanced = true, so the imbalance is charged to `limit` here *)
              let limit := if was_b then limit else limit - 1 in
              let '(c1, l', k1, tr1) := recurse f lft pred limit true true (S k) in
              let '(c2, r', k2, tr2) := recurse f rgt (Some pv) limit true true k1 in
              (c1 || c2, l' ++ pv :: r', k2, tr0 ++ EvJoin :: tr1 ++ tr2)
          end
        end
  end.

(* usize::BITS - v.len().leading_zeros(): the number of bits of len *)
Definition bit_length (n : nat) : nat := match n with O => O | _ => S (Nat.log2 n) end.

(* pub(crate) fn par_quicksort(v, is_less, canceled) -> bool *)
Definition par_quicksort (v : list A) : rres :=
  if oracle 0 then (true, v, 1, [EvCancel])
  else recurse (S (length v)) v None (bit_length (length v)) true true 1.

End WithPib.
End Sort.

Definition r_flag {A} (r : bool * list A * nat * list ev) : bool := fst (fst (fst r)).
Definition r_list {A} (r : bool * list A * nat * list ev) : list A := snd (fst (fst r)).
Definition r_loads {A} (r : bool * list A * nat * list ev) : nat := snd (fst r).
Definition r_trace {A} (r : bool * list A * nat * list ev) : list ev := snd r.

(* the executable model: everything concrete *)
Definition par_quicksort_model {A} (less : A -> A -> bool) (oracle : nat -> bool) (v : list A) :=
  par_quicksort less (partition_in_blocks less) oracle v.

(* ---- the comparator of Worker::run (src/worker.rs) ------------------------------------------------------
   A match is (score, idx, len) where len stands for the summed column lengths of item idx (a function
   of idx in the worker: `self.items.get_unchecked(idx).matcher_columns.iter().map(len).sum()`).
   idx = u32::MAX marks a placeholder of an item that no longer matches. *)
Local Open Scope N_scope.
Definition wmatch : Type := N * N * N.
Definition m_score (m : wmatch) : N := fst (fst m).
Definition m_idx (m : wmatch) : N := snd (fst m).
Definition m_len (m : wmatch) : N := snd m.
Definition PLACEHOLDER : N := 4294967295.

Definition worker_less (m1 m2 : wmatch) : bool :=
  if negb (m_score m1 =? m_score m2) then m_score m2 <? m_score m1      (* match1.score > match2.score *)
  else if m_idx m1 =? PLACEHOLDER then false
  else if m_idx m2 =? PLACEHOLDER then true
  else if m_len m1 =? m_len m2 then m_idx m1 <? m_idx m2
  else m_len m1 <? m_len m2.

End PS.
Export PS.
