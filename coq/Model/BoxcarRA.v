(* Model/BoxcarRA.v -- release/acquire model of the atomic protocol of src/boxcar.rs (property C09).
   Definitions only; proofs are in Proofs/C09Facts.v, the property theorems in Props/C09.v.

   WHAT THIS IS.  A hand-written, executable, view-based release/acquire semantics in the style of
   RC11 / the "promising" machine WITHOUT promises (hence no load buffering, no out-of-thin-air), for
   exactly the shared locations of the lock-free vector:
     ptr[b]    AtomicPtr  `buckets[b].entries`          (atomic; history: null, then at most one non-null)
     active[e] AtomicBool `entry.active` of index e     (atomic, but its initial `false` is written
                                                         NON-ATOMICALLY by Bucket::alloc)
     inflight  AtomicU64                                (atomic; one message per fetch_add)
     init[b]   the non-atomic initialisation of bucket b's memory by Bucket::alloc (all `active` flags)
     data[e]   the non-atomic writes of the matcher columns and of the value slot of entry e
   A VIEW records, per location, how much of its history a thread (or a message) happens-after:
   v_init b / v_data e say "happens-after the non-atomic write(s)"; v_ptr b / v_act e say "has already
   observed the (unique) non-initial message of that atomic", v_infl is a timestamp in the inflight
   history.  Every message of an atomic location carries a view: the writer's view if the write is at
   least Release, the empty view otherwise (an RMW on inflight additionally inherits the view of the
   message it reads: release sequences through RMWs; they exist only on `inflight`).  A load may read
   ANY message of its location that is not older than what the thread's view already contains
   (coherence) - this is how a Relaxed, or even an Acquire, load returns a stale value;
   (so the "flags" of the design note - the pointer message of b contains b's initialisation, the active
   message of e contains e's writes - are the components v_init b / v_data e of the message's view; carrying
   whole views also transfers coherence and everything else the writer knew, as the language model does) a load that is at
   least Acquire joins the view of the message it reads into the thread's view.  RMWs (fetch_add,
   compare_exchange that succeeds) read the latest message; a strong compare_exchange whose location is
   already non-null fails and reads the non-null message with its failure ordering.  There are no
   fences in boxcar.rs, so none are modelled.  SeqCst is treated as AcqRel (sound for race detection:
   SC only removes behaviours).
   Threads run operations one after another, each operation being the sequence of shared accesses of
   the corresponding Rust function in PROGRAM ORDER (one access per step); which operation, which thread
   moves next and which permitted message a load reads are chosen by the label of the step, so
   `reachable` quantifies over any number of threads, any interleaving and any permitted stale read.
   The sticky flag `race` is raised by a step that
     (a) accesses (atomically: an `active` flag; or non-atomically: slot/columns) memory of bucket b
         while the thread does not happen-after b's non-atomic initialisation (and is not b's allocator),
     (b) non-atomically reads entry e without happening-after its non-atomic writes (and is not its owner),
     (c) non-atomically writes an entry that the thread does not own or that is already published.
   These are exactly the data races (in the C++/Rust sense: conflicting accesses, one non-atomic, not
   ordered by happens-before) that can involve the vector's own memory.

   ABSTRACTIONS (all over-approximations, i.e. sound for the race-freedom theorem):
     * values are not modelled, only who may access what; index overflow panics are ignored (a panicking
       push simply is a thread that may continue); buckets are not bounded except for the "is there a
       next bucket" test of the eager allocation;
     * Iter::next re-loads the previous bucket's pointer once at a bucket boundary and (debug builds)
       loads `inflight` Relaxed: both only add knowledge to the thread, they are omitted; iteration
       ranges are arbitrary (ParIter splits ranges arbitrarily);
     * get_unchecked's contract ("the entry is initialised", i.e. the calling thread happens-after an
       observation of active == true) is the enabling condition of its label: the thread already sees
       the bucket pointer, the bucket initialisation and the entry's writes;
     * external synchronisation between operations (thread spawn/join, rayon job hand-off, the mutexes
       of nucleo) is the label LSync: the view of an idle thread flows to another idle thread;
     * Bucket::alloc / dealloc of a private (unpublished or losing) allocation touch thread-private
       memory only; they are folded into the step that reaches the compare_exchange; a thread sitting at
       PcCas holds such a private allocation.  Drop for Vec needs &mut self and is not modelled.
   WHAT IT CANNOT SHOW: that rustc/LLVM/the hardware implement the language memory model (compiler and
   hardware conformance); anything about races inside rayon, parking_lot or the allocator; anything
   about memory not listed above.  The orderings are an INPUT (record `ords`), read from the generated
   table Gen/GenOrderings.v by `ords_of_sites`. *)
From Coq Require Import String List Bool Arith PeanoNat.
From NV Require Import Gen.GenOrderings.
Import ListNotations.

(* ---- orderings ------------------------------------------------------------------------------------ *)
Definition is_acq (x : ordering) : bool := match x with Acquire | AcqRel | SeqCst => true | _ => false end.
Definition is_rel (x : ordering) : bool := match x with Release | AcqRel | SeqCst => true | _ => false end.

(* one field per atomic access site of src/boxcar.rs *)
Record ords := mkOrds {
  o_push_faa : ordering;      (* push: inflight.fetch_add *)
  o_push_ptr : ordering;      (* push: bucket.entries.load *)
  o_push_store : ordering;    (* push: active.store(true) *)
  o_ext_faa : ordering;       (* extend: inflight.fetch_add (one site) *)
  o_ext_ptr1 : ordering;      (* extend: entries.load for the first bucket *)
  o_ext_ptr2 : ordering;      (* extend: entries.load when the batch enters a new bucket *)
  o_ext_store : ordering;     (* extend: active.store(true) *)
  o_cas_succ : ordering;      (* get_or_alloc: compare_exchange success ordering *)
  o_cas_fail : ordering;      (* get_or_alloc: compare_exchange failure ordering *)
  o_get_ptr : ordering;       (* get: entries.load *)
  o_get_act : ordering;       (* get: active.load *)
  o_unc_ptr : ordering;       (* get_unchecked: entries.load *)
  o_unc_act : ordering;       (* get_unchecked: active.load *)
  o_next_infl : ordering;     (* Iter::next: inflight.load inside debug_assert (not used by the machine) *)
  o_next_ptr : ordering;      (* Iter::next: entries.load *)
  o_next_act : ordering;      (* Iter::next: active.load *)
  o_count_infl : ordering;    (* count: inflight.load *)
  o_snap_infl : ordering;     (* snapshot: inflight.load *)
  o_psnap_infl : ordering     (* par_snapshot: inflight.load *)
}.

Definition site : Type := (string * string * string * string * nat * list ordering)%type.

Fixpoint find_site (l : list site) (file fn field op : string) (occ : nat) : option (list ordering) :=
  match l with
  | [] => None
  | (f, g, fl, p, n, os) :: l' =>
      if (String.eqb f file && String.eqb g fn && String.eqb fl field && String.eqb p op && Nat.eqb n occ)%bool
      then Some os else find_site l' file fn field op occ
  end.

Definition boxcar_file : string := "src/boxcar.rs"%string.
Definition one (l : list site) (fn field op : string) (occ : nat) : option ordering :=
  match find_site l boxcar_file fn field op occ with Some [x] => Some x | _ => None end.
Definition two (l : list site) (fn field op : string) (occ : nat) : option (ordering * ordering) :=
  match find_site l boxcar_file fn field op occ with Some [x; y] => Some (x, y) | _ => None end.

(* a site that orderings_ok (below) does not constrain: when the table has no row for the key (the access was removed
   from the source - e.g. the debug_assert of Iter::next - or the value is obtained some other way) it is read as d;
   a row of the wrong arity is still an error.  Used with d = Relaxed, the weakest ordering: the machine then gives
   that step no synchronisation, which over-approximates whatever the source does instead *)
Definition one_or (l : list site) (fn field op : string) (occ : nat) (d : ordering) : option ordering :=
  match find_site l boxcar_file fn field op occ with Some [x] => Some x | None => Some d | Some _ => None end.

Definition obind {A B} (x : option A) (f : A -> option B) : option B :=
  match x with Some a => f a | None => None end.
Notation "'do' x <- a ; b" := (obind a (fun x => b)) (at level 200, x name, a at level 100, b at level 200).

Definition ords_of_sites (l : list site) : option ords :=
  (do push_faa <- one l "push" "inflight" "fetch_add" 1;
   do push_ptr <- one l "push" "entries" "load" 1;
   do push_store <- one l "push" "active" "store" 1;
   do ext_faa <- one l "extend" "inflight" "fetch_add" 1;
   do ext_ptr1 <- one l "extend" "entries" "load" 1;
   do ext_ptr2 <- one l "extend" "entries" "load" 2;
   do ext_store <- one l "extend" "active" "store" 1;
   do cas <- two l "get_or_alloc" "entries" "compare_exchange" 1;
   do get_ptr <- one l "get" "entries" "load" 1;
   do get_act <- one l "get" "active" "load" 1;
   do unc_ptr <- one l "get_unchecked" "entries" "load" 1;
   do unc_act <- one l "get_unchecked" "active" "load" 1;
   do next_infl <- one_or l "next" "inflight" "load" 1 Relaxed;
   do next_ptr <- one l "next" "entries" "load" 1;
   do next_act <- one l "next" "active" "load" 1;
   do count_infl <- one_or l "count" "inflight" "load" 1 Relaxed;
   do snap_infl <- one_or l "snapshot" "inflight" "load" 1 Relaxed;
   do psnap_infl <- one_or l "par_snapshot" "inflight" "load" 1 Relaxed;
   Some (mkOrds push_faa push_ptr push_store ext_faa ext_ptr1 ext_ptr2 ext_store (fst cas) (snd cas)
           get_ptr get_act unc_ptr unc_act next_infl next_ptr next_act count_infl snap_infl psnap_infl))%string.

Definition current_ords : option ords := ords_of_sites atomic_sites.

(* the conjunction the race-freedom proof needs; nothing is required of the inflight counter (fetch_add is
   an RMW: uniqueness of indices holds under any ordering), of get_unchecked's loads (contract) and of
   the count/snapshot/par_snapshot loads *)
Definition orderings_ok (o : ords) : bool :=
  is_rel (o_cas_succ o) &&      (* publishing the bucket publishes its initialisation *)
  is_acq (o_cas_fail o) &&      (* the loser of the race writes into the winner's bucket *)
  is_acq (o_push_ptr o) &&      (* push writes into the bucket it found *)
  is_acq (o_ext_ptr1 o) &&
  is_acq (o_ext_ptr2 o) &&
  is_acq (o_get_ptr o) &&       (* get touches `active` of the bucket it found *)
  is_acq (o_next_ptr o) &&      (* Iter::next likewise *)
  is_rel (o_push_store o) &&    (* active.store(true) publishes slot and columns *)
  is_rel (o_ext_store o) &&
  is_acq (o_get_act o) &&       (* active.load before reading slot and columns *)
  is_acq (o_next_act o).

(* weakening / strengthening single sites *)
Inductive site_id :=
| SPushFaa | SPushPtr | SPushStore | SExtFaa | SExtPtr1 | SExtPtr2 | SExtStore | SCasSucc | SCasFail
| SGetPtr | SGetAct | SUncPtr | SUncAct | SNextInfl | SNextPtr | SNextAct | SCountInfl | SSnapInfl | SPsnapInfl.
Definition site_eqb (a b : site_id) : bool :=
  match a, b with
  | SPushFaa, SPushFaa | SPushPtr, SPushPtr | SPushStore, SPushStore | SExtFaa, SExtFaa
  | SExtPtr1, SExtPtr1 | SExtPtr2, SExtPtr2 | SExtStore, SExtStore | SCasSucc, SCasSucc
  | SCasFail, SCasFail | SGetPtr, SGetPtr | SGetAct, SGetAct | SUncPtr, SUncPtr | SUncAct, SUncAct
  | SNextInfl, SNextInfl | SNextPtr, SNextPtr | SNextAct, SNextAct | SCountInfl, SCountInfl
  | SSnapInfl, SSnapInfl | SPsnapInfl, SPsnapInfl => true
  | _, _ => false
  end.
(* set the ordering of site f to x *)
Definition set_site (f : site_id) (x : ordering) (o : ords) : ords :=
  let g (i : site_id) (y : ordering) := if site_eqb f i then x else y in
  mkOrds (g SPushFaa (o_push_faa o)) (g SPushPtr (o_push_ptr o)) (g SPushStore (o_push_store o))
         (g SExtFaa (o_ext_faa o)) (g SExtPtr1 (o_ext_ptr1 o)) (g SExtPtr2 (o_ext_ptr2 o))
         (g SExtStore (o_ext_store o)) (g SCasSucc (o_cas_succ o)) (g SCasFail (o_cas_fail o))
         (g SGetPtr (o_get_ptr o)) (g SGetAct (o_get_act o)) (g SUncPtr (o_unc_ptr o)) (g SUncAct (o_unc_act o))
         (g SNextInfl (o_next_infl o)) (g SNextPtr (o_next_ptr o)) (g SNextAct (o_next_act o))
         (g SCountInfl (o_count_infl o)) (g SSnapInfl (o_snap_infl o)) (g SPsnapInfl (o_psnap_infl o)).
Definition weaken (f : site_id) (o : ords) : ords := set_site f Relaxed o.
(* the orderings of the pinned tree, before get's and Iter::next's bucket-pointer loads were raised to Acquire
   (a literal: independent of the generated table); kept as a refutation, see Props/C09.v *)
Definition pinned_ords : ords :=
  mkOrds Release Acquire Release      (* push: fetch_add, entries.load, active.store *)
         Release Acquire Acquire Release   (* extend: fetch_add, entries.load 1 and 2, active.store *)
         Release Acquire              (* get_or_alloc: compare_exchange success, failure *)
         Relaxed Acquire              (* get: entries.load (the defect), active.load *)
         Relaxed Acquire              (* get_unchecked: entries.load, active.load *)
         Relaxed Relaxed Acquire      (* Iter::next: inflight.load, entries.load (the defect), active.load *)
         Acquire Acquire Acquire.     (* count, snapshot, par_snapshot: inflight.load *)

(* ---- Location::of on nat -------------------------------------------------------------------------- *)
Definition NBUCKETS : nat := 27.
Definition bucket_of (i : nat) : nat := Nat.log2 (i + 32) - 5.
Definition bucket_len (b : nat) : nat := 2 ^ (b + 5).
Definition entry_of (i : nat) : nat := i + 32 - bucket_len (bucket_of i).
Definition alloc_entry (b : nat) : nat := bucket_len b - bucket_len b / 8.
Definition next_bucket (b : nat) : option nat := if S b <? NBUCKETS then Some (S b) else None.
(* push: `if index == bucket_len - (bucket_len >> 3)` then get_or_alloc(next bucket) *)
Definition eager_push (idx : nat) : option nat :=
  if entry_of idx =? alloc_entry (bucket_of idx) then next_bucket (bucket_of idx) else None.
(* extend: end_location = Location::of(start + count) *)
Definition eager_extend (start n : nat) : option nat :=
  let e := start + n in
  if (alloc_entry (bucket_of e) <=? entry_of e) &&
     (negb (bucket_of start =? bucket_of e) || (entry_of start <=? alloc_entry (bucket_of e)))
  then next_bucket (bucket_of e) else None.

(* ---- views ---------------------------------------------------------------------------------------- *)
Record view := mkV {
  v_init : nat -> bool;    (* bucket b: happens-after Bucket::alloc's non-atomic initialisation *)
  v_data : nat -> bool;    (* entry e: happens-after the non-atomic writes of slot and columns *)
  v_ptr : nat -> bool;     (* bucket b: has observed the non-null pointer message *)
  v_act : nat -> bool;     (* entry e: has observed the active == true message *)
  v_infl : nat             (* timestamp in the history of inflight *)
}.
Definition vbot : view := mkV (fun _ => false) (fun _ => false) (fun _ => false) (fun _ => false) 0.
Definition vjoin (a b : view) : view :=
  mkV (fun x => v_init a x || v_init b x) (fun x => v_data a x || v_data b x)
      (fun x => v_ptr a x || v_ptr b x) (fun x => v_act a x || v_act b x) (Nat.max (v_infl a) (v_infl b)).
Definition upd {A} (f : nat -> A) (k : nat) (x : A) : nat -> A := fun y => if Nat.eqb y k then x else f y.
Definition set_init (v : view) (b : nat) := mkV (upd (v_init v) b true) (v_data v) (v_ptr v) (v_act v) (v_infl v).
Definition set_data (v : view) (e : nat) := mkV (v_init v) (upd (v_data v) e true) (v_ptr v) (v_act v) (v_infl v).
Definition set_ptr (v : view) (b : nat) := mkV (v_init v) (v_data v) (upd (v_ptr v) b true) (v_act v) (v_infl v).
Definition set_act (v : view) (e : nat) := mkV (v_init v) (v_data v) (v_ptr v) (upd (v_act v) e true) (v_infl v).
Definition set_infl (v : view) (ts : nat) := mkV (v_init v) (v_data v) (v_ptr v) (v_act v) (Nat.max (v_infl v) ts).
(* a load with ordering x that reads a message with view m *)
Definition acq_join (x : ordering) (v m : view) : view := if is_acq x then vjoin v m else v.
(* the view attached to a message written with ordering x by a thread whose view is v *)
Definition rel_view (x : ordering) (v : view) : view := if is_rel x then v else vbot.

(* ---- program counters ----------------------------------------------------------------------------- *)
Inductive wkind := WPush | WExtend.
(* a writer (push or extend) working on entry w_cur with w_rem further reserved entries after it;
   w_first: the next pointer load is the one before the loop (extend's first load site) *)
Record wctx := mkW { w_kind : wkind; w_first : bool; w_cur : nat; w_rem : nat }.
Inductive akont := KEager (c : wctx) | KOwn (c : wctx).   (* who called get_or_alloc *)
Inductive rkind := RGet | RUnchecked | RNext.
Inductive pc :=
| Idle
| PcCas (b : nat) (k : akont)            (* in get_or_alloc(b), private allocation made, before the CAS *)
| PcLoad (c : wctx)                      (* before bucket.entries.load *)
| PcWrite (c : wctx)                     (* before the non-atomic writes of columns and slot *)
| PcStore (c : wctx)                     (* before active.store(true) *)
| PcRdPtr (k : rkind) (i hi : nat)       (* reader at index i (iteration up to hi), before entries.load *)
| PcRdAct (k : rkind) (i hi : nat)       (* before active.load *)
| PcRdData (k : rkind) (i hi : nat).     (* before Entry::read *)

(* ---- state ---------------------------------------------------------------------------------------- *)
Record pmsg := mkPM { pm_alloc : nat; pm_view : view }.    (* the non-null pointer message *)
Record state := mkS {
  pcs : nat -> pc;                     (* per thread *)
  tv : nat -> view;                    (* per thread *)
  ptr : nat -> option pmsg;            (* per bucket: None = only the null message exists *)
  act : nat -> option view;            (* per entry: None = only the initial false exists *)
  owner : nat -> option nat;           (* per entry: the thread that reserved it *)
  written : nat -> bool;               (* per entry: the owner has done its non-atomic writes *)
  infl_last : nat * view;              (* latest inflight message: value, view *)
  infl_old : list (nat * view);        (* older inflight messages, newest first *)
  race : bool
}.
Definition nxt (s : state) : nat := fst (infl_last s).

(* with_capacity allocates buckets 0..=n before the vector is shared: every thread sees them *)
Definition init_view (n : nat) : view :=
  mkV (fun b => b <=? n) (fun _ => false) (fun b => b <=? n) (fun _ => false) 0.
Definition init (n : nat) : state :=
  mkS (fun _ => Idle) (fun _ => init_view n)
      (fun b => if b <=? n then Some (mkPM 0 (init_view n)) else None)
      (fun _ => None) (fun _ => None) (fun _ => false) (0, vbot) [] false.

(* ---- race conditions ------------------------------------------------------------------------------ *)
Definition owner_is (s : state) (e t : nat) : bool :=
  match owner s e with Some t' => t' =? t | None => false end.
Definition allocator_is (s : state) (b t : nat) : bool :=
  match ptr s b with Some m => pm_alloc m =? t | None => false end.
Definition is_some {A} (x : option A) : bool := match x with Some _ => true | None => false end.
Definition race_a (s : state) (t b : nat) : bool := negb (v_init (tv s t) b) && negb (allocator_is s b t).
Definition race_b (s : state) (t e : nat) : bool := negb (v_data (tv s t) e) && negb (owner_is s e t).
Definition race_c (s : state) (t e : nat) : bool := negb (owner_is s e t) || is_some (act s e).

(* ---- steps ---------------------------------------------------------------------------------------- *)
Inductive isite := ICount | ISnapshot | IParSnapshot.
Inductive label :=
| LPush (t : nat)                     (* push: inflight.fetch_add(1) *)
| LExtend (t n : nat)                 (* extend with n >= 1 values: inflight.fetch_add(n) *)
| LCas (t : nat)                      (* get_or_alloc: compare_exchange *)
| LPtr (t : nat) (nonnull : bool)     (* entries.load reading the non-null / the null message *)
| LWrite (t : nat)                    (* non-atomic writes of columns and slot *)
| LStore (t : nat)                    (* active.store(true) *)
| LStop (t : nat)                     (* extend: the iterator yields fewer values than it reported *)
| LGet (t i : nat)                    (* call get(i) *)
| LGetUnchecked (t i : nat)           (* call get_unchecked(i); enabled when its contract holds *)
| LIter (t lo hi : nat)               (* iterate Iter::next over [lo, hi) *)
| LAct (t : nat) (rd_true : bool)     (* active.load reading the true / the initial false message *)
| LRead (t : nat)                     (* Entry::read: non-atomic read of slot and columns *)
| LInfl (t : nat) (w : isite) (k : nat)   (* count/snapshot/par_snapshot: inflight.load reading the message k steps
                                         before the latest *)
| LSync (t1 t2 : nat).                (* external synchronisation: idle t1 -> idle t2 *)

Definition wload_ord (o : ords) (c : wctx) : ordering :=
  match w_kind c with
  | WPush => o_push_ptr o
  | WExtend => if w_first c then o_ext_ptr1 o else o_ext_ptr2 o
  end.
Definition wstore_ord (o : ords) (c : wctx) : ordering :=
  match w_kind c with WPush => o_push_store o | WExtend => o_ext_store o end.
Definition rptr_ord (o : ords) (k : rkind) : ordering :=
  match k with RGet => o_get_ptr o | RUnchecked => o_unc_ptr o | RNext => o_next_ptr o end.
Definition ract_ord (o : ords) (k : rkind) : ordering :=
  match k with RGet => o_get_act o | RUnchecked => o_unc_act o | RNext => o_next_act o end.
Definition infl_ord (o : ords) (w : isite) : ordering :=
  match w with ICount => o_count_infl o | ISnapshot => o_snap_infl o | IParSnapshot => o_psnap_infl o end.

(* thread t moves to pc p with view v; r: this step races *)
Definition set_thr (s : state) (t : nat) (p : pc) (v : view) (r : bool) : state :=
  mkS (upd (pcs s) t p) (upd (tv s) t v) (ptr s) (act s) (owner s) (written s) (infl_last s) (infl_old s)
      (race s || r).

(* after entry w_cur is published: next reserved entry, or done *)
Definition next_w (c : wctx) : pc :=
  match w_rem c with
  | 0 => Idle
  | S r => let c' := mkW (w_kind c) false (S (w_cur c)) r in
           if bucket_of (S (w_cur c)) =? bucket_of (w_cur c) then PcWrite c' else PcLoad c'
  end.
(* after index i has been handled by a reader *)
Definition next_rd (k : rkind) (i hi : nat) : pc :=
  match k with
  | RNext => if S i <? hi then PcRdPtr k (S i) hi else Idle    (* the iterator goes on to the next index *)
  | _ => Idle                                                  (* get / get_unchecked return *)
  end.

(* fetch_add(n) with ordering x: reads the latest message (RMW), appends a message that inherits its view *)
Definition reserve (x : ordering) (kind : wkind) (eager : option nat) (s : state) (t n : nat) : state :=
  let idx := nxt s in
  let ts := S (length (infl_old s)) in
  let v1 := set_infl (acq_join x (tv s t) (snd (infl_last s))) ts in
  let c := mkW kind true idx (n - 1) in
  let p := match eager with Some b => PcCas b (KEager c) | None => PcLoad c end in
  mkS (upd (pcs s) t p) (upd (tv s) t v1) (ptr s) (act s)
      (fun e => if (idx <=? e) && (e <? idx + n) then Some t else owner s e)
      (written s) (idx + n, vjoin (snd (infl_last s)) (rel_view x v1)) (infl_last s :: infl_old s) (race s).

Definition step_cas (o : ords) (s : state) (t : nat) : option state :=
  match pcs s t with
  | PcCas b k =>
      let p := match k with KEager c => PcLoad c | KOwn c => PcWrite c end in
      match ptr s b with
      | None =>   (* success: this thread's allocation (whose initialisation it performed) becomes bucket b *)
          let v1 := set_ptr (set_init (tv s t) b) b in
          Some (mkS (upd (pcs s) t p) (upd (tv s) t v1)
                    (upd (ptr s) b (Some (mkPM t (rel_view (o_cas_succ o) v1))))
                    (act s) (owner s) (written s) (infl_last s) (infl_old s) (race s))
      | Some m => (* failure: frees the private allocation, reads the winner's message *)
          Some (set_thr s t p (set_ptr (acq_join (o_cas_fail o) (tv s t) (pm_view m)) b) false)
      end
  | _ => None
  end.

Definition step_ptr (o : ords) (s : state) (t : nat) (nonnull : bool) : option state :=
  match pcs s t with
  | PcLoad c =>
      let b := bucket_of (w_cur c) in
      if nonnull then
        match ptr s b with
        | Some m => Some (set_thr s t (PcWrite c) (set_ptr (acq_join (wload_ord o c) (tv s t) (pm_view m)) b) false)
        | None => None
        end
      else if v_ptr (tv s t) b then None      (* coherence: the null message is older than what t has seen *)
      else Some (set_thr s t (PcCas b (KOwn c)) (tv s t) false)
  | PcRdPtr k i hi =>
      let b := bucket_of i in
      if nonnull then
        match ptr s b with
        | Some m => Some (set_thr s t (PcRdAct k i hi) (set_ptr (acq_join (rptr_ord o k) (tv s t) (pm_view m)) b) false)
        | None => None
        end
      else if v_ptr (tv s t) b then None
      else match k with
           | RUnchecked => None          (* excluded by the contract *)
           | _ => Some (set_thr s t (next_rd k i hi) (tv s t) false)    (* returns None / yields (index, None) *)
           end
  | _ => None
  end.

Definition step_write (s : state) (t : nat) : option state :=
  match pcs s t with
  | PcWrite c =>
      let e := w_cur c in
      Some (mkS (upd (pcs s) t (PcStore c)) (upd (tv s) t (set_data (tv s t) e)) (ptr s) (act s) (owner s)
                (upd (written s) e true) (infl_last s) (infl_old s)
                (race s || (race_a s t (bucket_of e) || race_c s t e)))
  | _ => None
  end.

Definition step_store (o : ords) (s : state) (t : nat) : option state :=
  match pcs s t with
  | PcStore c =>
      let e := w_cur c in
      let v1 := set_act (tv s t) e in
      Some (mkS (upd (pcs s) t (next_w c)) (upd (tv s) t v1) (ptr s)
                (upd (act s) e (Some (rel_view (wstore_ord o c) v1))) (owner s) (written s)
                (infl_last s) (infl_old s) (race s || race_a s t (bucket_of e)))
  | _ => None
  end.

Definition step_stop (s : state) (t : nat) : option state :=
  match pcs s t with
  | PcWrite c => match w_kind c with WExtend => Some (set_thr s t Idle (tv s t) false) | WPush => None end
  | PcLoad c => match w_kind c with
                | WExtend => if w_first c then None else Some (set_thr s t Idle (tv s t) false)
                | WPush => None
                end
  | _ => None
  end.

Definition step_act (o : ords) (s : state) (t : nat) (rd_true : bool) : option state :=
  match pcs s t with
  | PcRdAct k i hi =>
      let r := race_a s t (bucket_of i) in
      if rd_true then
        match act s i with
        | Some m => Some (set_thr s t (PcRdData k i hi) (set_act (acq_join (ract_ord o k) (tv s t) m) i) r)
        | None => None
        end
      else if v_act (tv s t) i then None
      else Some (set_thr s t (match k with RUnchecked => PcRdData k i hi | _ => next_rd k i hi end) (tv s t) r)
  | _ => None
  end.

Definition step_read (s : state) (t : nat) : option state :=
  match pcs s t with
  | PcRdData k i hi => Some (set_thr s t (next_rd k i hi) (tv s t) (race_a s t (bucket_of i) || race_b s t i))
  | _ => None
  end.

(* the message k steps before the latest one, with its timestamp *)
Definition infl_msg (s : state) (k : nat) : option (nat * view) :=
  match k with 0 => Some (infl_last s) | S j => nth_error (infl_old s) j end.

Definition step_infl (o : ords) (s : state) (t : nat) (w : isite) (k : nat) : option state :=
  match pcs s t with
  | Idle =>
      match infl_msg s k with
      | Some m =>
          let ts := length (infl_old s) - k in
          if v_infl (tv s t) <=? ts
          then Some (set_thr s t Idle (set_infl (acq_join (infl_ord o w) (tv s t) (snd m)) ts) false)
          else None
      | None => None
      end
  | _ => None
  end.

Definition idle (s : state) (t : nat) : bool := match pcs s t with Idle => true | _ => false end.

Definition step (o : ords) (s : state) (l : label) : option state :=
  match l with
  | LPush t => if idle s t then Some (reserve (o_push_faa o) WPush (eager_push (nxt s)) s t 1) else None
  | LExtend t n =>
      if idle s t && (1 <=? n) then Some (reserve (o_ext_faa o) WExtend (eager_extend (nxt s) n) s t n) else None
  | LCas t => step_cas o s t
  | LPtr t nn => step_ptr o s t nn
  | LWrite t => step_write s t
  | LStore t => step_store o s t
  | LStop t => step_stop s t
  | LGet t i => if idle s t then Some (set_thr s t (PcRdPtr RGet i (S i)) (tv s t) false) else None
  | LGetUnchecked t i =>
      if idle s t && v_ptr (tv s t) (bucket_of i) && v_init (tv s t) (bucket_of i) && v_data (tv s t) i
      then Some (set_thr s t (PcRdPtr RUnchecked i (S i)) (tv s t) false) else None
  | LIter t lo hi => if idle s t && (lo <? hi) then Some (set_thr s t (PcRdPtr RNext lo hi) (tv s t) false) else None
  | LAct t b => step_act o s t b
  | LRead t => step_read s t
  | LInfl t w k => step_infl o s t w k
  | LSync t1 t2 => if idle s t1 && idle s t2 then Some (set_thr s t2 Idle (vjoin (tv s t2) (tv s t1)) false) else None
  end.

Inductive reachable (o : ords) : state -> Prop :=
| reach_init : forall n, reachable o (init n)
| reach_step : forall s l s', reachable o s -> step o s l = Some s' -> reachable o s'.

(* ---- boolean path checker ------------------------------------------------------------------------- *)
Fixpoint run (o : ords) (s : state) (ls : list label) : option state :=
  match ls with
  | [] => Some s
  | l :: ls' => match step o s l with Some s' => run o s' ls' | None => None end
  end.
(* the trace ls is executable from init n and ends in a state whose race flag is set *)
Definition races (o : ords) (n : nat) (ls : list label) : bool :=
  match run o (init n) ls with Some s => race s | None => false end.
(* the trace is executable and race-free (sanity checks) *)
Definition runs_clean (o : ords) (n : nat) (ls : list label) : bool :=
  match run o (init n) ls with Some s => negb (race s) | None => false end.
