(* Model of matcher/src/pattern.rs (the pattern grammar): pattern_atoms, Atom::new / new_inner (both
   branches), Atom::parse, Pattern::new / parse / reparse; and of chars::graphemes as an input.
   Definitions only.  Strings are lists of code points (list N).

   Two parameters run through every definition:

   fx : bool   finding #15 (DESIGN section 8).  fx = false is the non-ASCII branch of new_inner exactly as
               the pinned tree has it (every backslash is pushed when it is read, pushed AGAIN when the
               next character is not a space, and kept when the next character is a space).  fx = true
               is the code after the proposed three-line fix (fix_1.diff: a backslash is held back until
               the next character is known, emitted once unless that character is a space, and emitted
               at the end of the text).  The property theorems are about fx = true; fx = false is kept
               executable so that the defect has a machine-checked witness and the driver can tell
               which of the two the implementation is.
   seg : list N -> list N
               chars::graphemes (crate unicode-segmentation behind it), as a function from the text to
               the characters the iterator yields (first code point of every extended grapheme
               cluster, LF for the cluster CR LF).  It is an INPUT of the model: theorems quantify over
               it (assuming seg_faithful where the segmentation matters), the driver instantiates it
               with [crlf] (every code point its own cluster except CR LF) and, for the grapheme-rich
               stream, with the table the harness reads off the real crate.
   Rust std: str::is_ascii, str::split_once / split on the two-byte pattern "\\ " (non-overlapping
   occurrences, left to right), str::split with a stateful closure (called once per char, in order),
   make_ascii_lowercase, u8::is_ascii_uppercase, char::is_whitespace (Gen/GenStdUnicode.v) are modelled
   by their specification. *)
From Coq Require Import NArith List Bool.
From NV Require Export Model.Chars.
Import ListNotations.
Local Open Scope N_scope.

Module PP.


(* pattern::CaseMatching, pattern::Normalization, pattern::AtomKind (default cargo features) *)
Inductive case_matching := CaseRespect | CaseIgnore | CaseSmart.
Inductive normalization := NormNever | NormSmart.
Inductive atom_kind := AFuzzy | ASubstring | APrefix | APostfix | AExact.

Definition kind_eqb (a b : atom_kind) : bool :=
  match a, b with
  | AFuzzy, AFuzzy | ASubstring, ASubstring | APrefix, APrefix | APostfix, APostfix | AExact, AExact => true
  | _, _ => false
  end.

(* pattern::Atom; a_repr is the variant of the Utf32String holding the needle *)
Record atom := {
  a_negative : bool;
  a_kind : atom_kind;
  a_needle : list N;
  a_repr : repr;
  a_ignore_case : bool;
  a_normalize : bool
}.

Definition BSLASH : N := 92.   (* '\\' *)
Definition SPACE : N := 32.    (* ' '  *)
Definition DOLLAR : N := 36.   (* '$'  *)
Definition BANG : N := 33.     (* '!'  *)
Definition CARET : N := 94.    (* '^'  *)
Definition QUOTE : N := 39.    (* '\'' *)

(* ---- chars::graphemes, the simple instance --------------------------------------------------------- *)
(* every code point is a cluster of its own, except that CR LF is one cluster, which yields LF *)
Fixpoint crlf (s : list N) : list N :=
  match s with
  | [] => []
  | a :: t =>
    match t with
    | b :: r => if (a =? 13) && (b =? 10) then 10 :: crlf r else a :: crlf t
    | [] => [a]
    end
  end.

(* Code points whose Grapheme_Cluster_Break class is Other, Control, CR or LF in every Unicode version
   (no Extend / ZWJ / SpacingMark / Prepend / Hangul syllable type / Regional_Indicator): everything
   below U+0300, Greek, Latin Extended Additional, the general-punctuation spaces and separators,
   super/subscripts, ideographic space, the CJK unified ideographs block.  UAX #29 rules GB3-GB5 and
   GB999 then make every such code point its own cluster, except CR LF.  (Trusted fact about UAX #29;
   validated on every run: the harness reports each substring of a case whose real segmentation differs
   from [crlf], and the check fails when that happens on a seg_simple text.) *)
Definition seg_simple_char (c : N) : bool :=
  (c <? 768) || in_range 880 1023 c || in_range 7680 7935 c || in_range 8192 8202 c
  || in_range 8232 8233 c || (c =? 8239) || (c =? 8287) || in_range 8304 8351 c || (c =? 12288)
  || in_range 19968 40959 c || (c =? 5760).
Definition seg_simple (s : list N) : bool := forallb seg_simple_char s.

(* what the theorems that depend on the segmentation assume of [seg] *)
Definition seg_faithful (seg : list N -> list N) : Prop :=
  forall s, seg_simple s = true -> seg s = crlf s.

(* ---- std pieces ------------------------------------------------------------------------------------ *)
(* str::is_ascii *)
Definition is_ascii (s : list N) : bool := forallb (fun c => c <? 128) s.
(* u8::is_ascii_uppercase *)
Definition is_ascii_uppercase (c : N) : bool := in_range 65 90 c.
(* u8::make_ascii_lowercase on one byte *)
Definition ascii_lower (c : N) : N := if in_range 65 90 c then c + 32 else c.

(* new_inner, ASCII branch, escape_whitespace:
      if let Some((start, rem)) = needle.split_once("\\ ") { start + for rem in rem.split("\\ ") { ' ' + rem } }
   i.e. every (non-overlapping, left-to-right) occurrence of the two characters backslash space is
   replaced by a space *)
Fixpoint unescape_ascii (s : list N) : list N :=
  match s with
  | [] => []
  | a :: t =>
    match t with
    | b :: r => if (a =? BSLASH) && (b =? SPACE) then SPACE :: unescape_ascii r else a :: unescape_ascii t
    | [] => [a]
    end
  end.

(* the per-character body shared by the two non-ASCII loops of new_inner:
     match case { Ignore => c = to_lower_case(c), Smart => ignore_case = ignore_case && !is_upper_case(c), Respect => () }
     match normalization { Smart => normalize = normalize && chars::normalize(c) == c, Never => () }
   returns (c, ignore_case, normalize) *)
Definition step_char (cm : case_matching) (nm : normalization) (c : N) (ic nz : bool) : N * bool * bool :=
  let c' := match cm with CaseIgnore => to_lower c | _ => c end in
  let ic' := match cm with CaseSmart => ic && negb (is_upper c) | _ => ic end in
  let nz' := match nm with NormSmart => nz && (normalize c' =? c') | NormNever => nz end in
  (c', ic', nz').

(* new_inner, non-ASCII branch, escape_whitespace = false:  needle_.extend(graphemes(needle).map(...)) *)
Fixpoint plain_loop (cm : case_matching) (nm : normalization) (g : list N) (ic nz : bool)
  : list N * bool * bool :=
  match g with
  | [] => ([], ic, nz)
  | c :: r =>
    let '(c', ic1, nz1) := step_char cm nm c ic nz in
    let '(o, ic2, nz2) := plain_loop cm nm r ic1 nz1 in
    (c' :: o, ic2, nz2)
  end.

(* new_inner, non-ASCII branch, escape_whitespace = true: the saw_backslash loop.
   [saw] is saw_backslash on entry of the iteration; the result is (pushed characters, ignore_case,
   normalize).
     for mut c in graphemes(needle) {
         if saw_backslash {
             if c == ' ' { needle_.push(' '); saw_backslash = false; continue; }
             else { needle_.push('\\'); }
         }
         saw_backslash = c == '\\';
   [fx] if saw_backslash { continue; }              <- added by fix_1.diff
         <step_char>; needle_.push(c);
     }
   [fx] if saw_backslash { needle_.push('\\'); }    <- added by fix_1.diff *)
Fixpoint esc_loop (fx : bool) (cm : case_matching) (nm : normalization) (g : list N) (saw ic nz : bool)
  : list N * bool * bool :=
  match g with
  | [] => (if fx && saw then [BSLASH] else [], ic, nz)
  | c :: r =>
    if saw && (c =? SPACE) then
      let '(o, ic2, nz2) := esc_loop fx cm nm r false ic nz in (SPACE :: o, ic2, nz2)
    else
      let pre := if saw then [BSLASH] else [] in
      if fx && (c =? BSLASH) then
        let '(o, ic2, nz2) := esc_loop fx cm nm r true ic nz in (pre ++ o, ic2, nz2)
      else
        let '(c', ic1, nz1) := step_char cm nm c ic nz in
        let '(o, ic2, nz2) := esc_loop fx cm nm r (c =? BSLASH) ic1 nz1 in
        (pre ++ c' :: o, ic2, nz2)
  end.

(* Atom::new_inner(needle, case, normalization, kind, escape_whitespace, append_dollar) *)
Definition new_inner (fx : bool) (seg : list N -> list N) (needle : list N) (cm : case_matching)
  (nm : normalization) (kind : atom_kind) (escape_whitespace append_dollar : bool) : atom :=
  let nz0 := match nm with NormSmart => true | NormNever => false end in
  let dollar := if append_dollar then [DOLLAR] else [] in
  if is_ascii needle then
    let s := if escape_whitespace then unescape_ascii needle else needle in
    let '(s', ic) :=
      match cm with
      | CaseIgnore => (map ascii_lower s, true)
      | CaseSmart => (s, negb (existsb is_ascii_uppercase s))
      | CaseRespect => (s, false)
      end in
    {| a_negative := false; a_kind := kind; a_needle := s' ++ dollar; a_repr := Ascii;
       a_ignore_case := ic; a_normalize := nz0 |}
  else
    let ic0 := match cm with CaseRespect => false | _ => true end in
    let g := seg needle in
    let '(o, ic, nz) :=
      if escape_whitespace then esc_loop fx cm nm g false ic0 nz0 else plain_loop cm nm g ic0 nz0 in
    {| a_negative := false; a_kind := kind; a_needle := o ++ dollar; a_repr := Unicode;
       a_ignore_case := ic; a_normalize := nz |}.

(* Atom::new *)
Definition atom_new (fx : bool) (seg : list N -> list N) (needle : list N) (cm : case_matching)
  (nm : normalization) (kind : atom_kind) (escape_whitespace : bool) : atom :=
  new_inner fx seg needle cm nm kind escape_whitespace false.

(* The three `match atom.as_bytes()` of Atom::parse look at single ASCII bytes; a UTF-8 lead or
   continuation byte is never equal to one, so matching bytes is matching code points. *)
Definition is_kind_marker (c : N) : bool := (c =? CARET) || (c =? QUOTE).

(* first match: [b'!', ..] => (true, &atom[1..]) ; [b'\\', b'!', ..] => (false, &atom[1..]) ; _ => (false, atom) *)
Definition strip_invert (raw : list N) : bool * list N :=
  match raw with
  | c :: r =>
    if c =? BANG then (true, r)
    else match r with
         | d :: _ => if (c =? BSLASH) && (d =? BANG) then (false, r) else (false, raw)
         | [] => (false, raw)
         end
  | [] => (false, raw)
  end.

(* second match: [b'^', ..] => Prefix ; [b'\'', ..] => Substring ; [b'\\', b'^' | b'\'', ..] => Fuzzy, all
   with &atom[1..] ; _ => Fuzzy *)
Definition strip_kind (a : list N) : atom_kind * list N :=
  match a with
  | c :: r =>
    if c =? CARET then (APrefix, r)
    else if c =? QUOTE then (ASubstring, r)
    else match r with
         | d :: _ => if (c =? BSLASH) && is_kind_marker d then (AFuzzy, r) else (AFuzzy, a)
         | [] => (AFuzzy, a)
         end
  | [] => (AFuzzy, a)
  end.

(* third match, on the END of the slice: [.., b'\\', b'$'] => append_dollar, drop two ;
   [.., b'$'] => Postfix / Exact, drop one ; _ => ().   Returns (kind, append_dollar, atom) *)
Definition strip_dollar (kind : atom_kind) (a : list N) : atom_kind * bool * list N :=
  match rev a with
  | c :: r =>
    if c =? DOLLAR then
      match r with
      | d :: r' =>
        if d =? BSLASH then (kind, true, rev r')
        else (if kind_eqb kind AFuzzy then APostfix else AExact, false, rev r)
      | [] => (if kind_eqb kind AFuzzy then APostfix else AExact, false, rev r)
      end
    else (kind, false, a)
  | [] => (kind, false, a)
  end.

Definition set_negative (b : bool) (a : atom) : atom :=
  {| a_negative := b; a_kind := a_kind a; a_needle := a_needle a; a_repr := a_repr a;
     a_ignore_case := a_ignore_case a; a_normalize := a_normalize a |}.

(* Atom::parse(raw, case, normalize) *)
Definition atom_parse (fx : bool) (seg : list N -> list N) (raw : list N) (cm : case_matching)
  (nm : normalization) : atom :=
  let '(invert, a1) := strip_invert raw in
  let '(kind0, a2) := strip_kind a1 in
  let '(kind1, append_dollar, a3) := strip_dollar kind0 a2 in
  let kind := if invert && kind_eqb kind1 AFuzzy then ASubstring else kind1 in
  set_negative invert (new_inner fx seg a3 cm nm kind true append_dollar).

(* pattern_atoms: pattern.split(closure) with the closure's saw_backslash state.  [saw] is the state on
   entry.  str::split yields every piece, empty ones included (always at least one piece); the head of
   the result is the piece being built.
       saw_backslash = match c { c if c.is_whitespace() && !saw_backslash => return true,
                                 '\\' => true, _ => false }; false *)
Fixpoint split_atoms (p : list N) (saw : bool) : list (list N) :=
  match p with
  | [] => [[]]
  | c :: r =>
    if std_is_whitespace c && negb saw then [] :: split_atoms r saw
    else match split_atoms r (c =? BSLASH) with
         | h :: t => (c :: h) :: t
         | [] => [[c]]
         end
  end.
Definition pattern_atoms (p : list N) : list (list N) := split_atoms p false.

(* Utf32String::is_empty *)
Definition needle_nonempty (a : atom) : bool := match a_needle a with [] => false | _ => true end.

(* Pattern::new(pattern, case, normalize, kind) -- the atoms vector *)
Definition pattern_new (fx : bool) (seg : list N -> list N) (p : list N) (cm : case_matching)
  (nm : normalization) (kind : atom_kind) : list atom :=
  filter needle_nonempty (map (fun pat => atom_new fx seg pat cm nm kind true) (pattern_atoms p)).

(* Pattern::parse(pattern, case, normalize) -- the atoms vector *)
Definition pattern_parse (fx : bool) (seg : list N -> list N) (p : list N) (cm : case_matching)
  (nm : normalization) : list atom :=
  filter needle_nonempty (map (fun pat => atom_parse fx seg pat cm nm) (pattern_atoms p)).

(* Vec::clear *)
Definition vec_clear {A} (v : list A) : list A := [].

(* Pattern::reparse(&mut self, pattern, case, normalize): self.atoms.clear(); self.atoms.extend(..) *)
Definition pattern_reparse (fx : bool) (seg : list N -> list N) (self_atoms : list atom) (p : list N)
  (cm : case_matching) (nm : normalization) : list atom :=
  vec_clear self_atoms ++ filter needle_nonempty (map (fun pat => atom_parse fx seg pat cm nm) (pattern_atoms p)).

(* a history of reparse calls on one pattern object *)
Definition reparse_history (fx : bool) (seg : list N -> list N) (self_atoms : list atom)
  (calls : list (list N * case_matching * normalization)) : list atom :=
  fold_left (fun atoms call => let '(p, cm, nm) := call in pattern_reparse fx seg atoms p cm nm) calls self_atoms.

(* ---- instances used by the driver ------------------------------------------------------------------- *)
(* association-list segmentation table supplied by the harness, falling back to [crlf] *)
Fixpoint list_eqb (a b : list N) : bool :=
  match a, b with
  | [], [] => true
  | x :: a', y :: b' => (x =? y) && list_eqb a' b'
  | _, _ => false
  end.
Fixpoint seg_table (tbl : list (list N * list N)) (s : list N) : list N :=
  match tbl with
  | [] => crlf s
  | (k, v) :: t => if list_eqb k s then v else seg_table t s
  end.

End PP.
Export PP.
