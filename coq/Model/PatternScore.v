(* Model of the scoring half of matcher/src/pattern.rs (Atom::score, Atom::indices, Atom::match_list,
   Pattern::score, Pattern::indices, Pattern::match_list) and of src/pattern.rs MultiPattern::score.
   Definitions only (no proofs), so the model still extracts when a proof breaks.

   Built on top of Model/Matcher.v: `run cfg algo haystack needle` is the model of the Matcher entry points
   (fuzzy_match / substring_match / prefix_match / postfix_match / exact_match and their *_indices
   variants, which share one model function: the INDICES flag only guards the writes to `indices`).

   What is state: the `&mut Matcher` every function receives.  Its scratch memory does not influence
   results (C10); what these functions DO mutate observably is `matcher.config.ignore_case` and
   `matcher.config.normalize`, overwritten by every atom evaluation.  So every model function takes the
   matcher's configuration `m` and RETURNS the configuration the matcher is left with; a pattern threads
   it from atom to atom exactly as the shared `&mut Matcher` does.

   What is not modelled here (inputs of the model, supplied by the harness from the real code):
   * how an Atom's fields come out of pattern text (Atom::new / Atom::parse / Pattern::parse: property C14);
   * Utf32Str::new(item.as_ref(), &mut buf) inside match_list (grapheme segmentation, property C17): the
     parameter `conv : T -> ustr` of the match_list functions;
   * slice::sort_by_key(|(_, score)| Reverse( *score)): a STABLE sort (std contract).  The model uses a stable
     insertion sort by descending score; Proofs/C15Facts.v proves that it is a sorted, stable permutation
     and that these three facts determine the output uniquely, so any implementation of the contract agrees.

   A Rust panic (unwinding out of the function) is the result `Panic site`; sites 1-3 are the matcher's
   (see Model/Matcher.v), site 4 is "attempt to add with overflow" of the u32 score accumulation (debug
   builds; a release build would wrap). *)
From Coq Require Import NArith List Bool.
From NV Require Export Model.Matcher.
Import ListNotations.
Local Open Scope N_scope.

(* pattern::AtomKind *)
Inductive atom_kind := KFuzzy | KSubstring | KPrefix | KPostfix | KExact.

(* pattern::Atom *)
Record atom := {
  negative : bool;
  kind : atom_kind;
  needle : ustr;             (* Utf32String: representation tag + code points *)
  a_ignore_case : bool;      (* private field ignore_case *)
  a_normalize : bool         (* private field normalize *)
}.

(* a function that may unwind *)
Inductive result (A : Type) :=
| RDone (a : A)
| Panic (site : N).
Arguments RDone {A} a.
Arguments Panic {A} site.

(* the Matcher method an AtomKind dispatches to (the `match self.kind` in Atom::score / Atom::indices) *)
Definition algo_of_kind (k : atom_kind) : algo :=
  match k with
  | KFuzzy => Fuzzy            (* matcher.fuzzy_match / fuzzy_indices *)
  | KSubstring => Substring    (* matcher.substring_match / substring_indices *)
  | KPrefix => Prefix          (* matcher.prefix_match / prefix_indices *)
  | KPostfix => Postfix        (* matcher.postfix_match / postfix_indices *)
  | KExact => Exact            (* matcher.exact_match / exact_indices *)
  end.

(* matcher.config.ignore_case = self.ignore_case; matcher.config.normalize = self.normalize; *)
Definition set_flags (m : config) (a : atom) : config :=
  {| ignore_case := a_ignore_case a; normalize_on := a_normalize a; prefer_prefix := prefer_prefix m;
     delims := delims m; bonus_white := bonus_white m; bonus_delim := bonus_delim m;
     init_class := init_class m |}.

(* Atom::score -> (Option<u16>, matcher.config afterwards) *)
Definition atom_score (a : atom) (h : ustr) (m : config) : result (option N) * config :=
  let m' := set_flags m a in
  (match run m' (algo_of_kind (kind a)) h (needle a) with
   | Panicked k => Panic k
   | Match s _ => if negative a then RDone None else RDone (Some s)
   | NoMatch => if negative a then RDone (Some 0) else RDone None
   end, m').

(* Atom::indices -> (Option<u16>, matcher.config afterwards, indices afterwards).
   Negative atoms call the *_match methods and never touch `indices`; positive atoms call the *_indices
   methods, which append on success and leave `indices` alone on failure. *)
Definition atom_indices (a : atom) (h : ustr) (m : config) (indices : list N)
  : result (option N) * config * list N :=
  let m' := set_flags m a in
  match run m' (algo_of_kind (kind a)) h (needle a) with
  | Panicked k => (Panic k, m', indices)
  | Match s idx => if negative a then (RDone None, m', indices) else (RDone (Some s), m', indices ++ idx)
  | NoMatch => if negative a then (RDone (Some 0), m', indices) else (RDone None, m', indices)
  end.

(* u32 `+=` with overflow checks *)
Definition U32MAX : N := 4294967295.
Definition add32 (a b : N) : option N := if a + b <=? U32MAX then Some (a + b) else None.

(* the loop of Pattern::score: `for pattern in &self.atoms { score += pattern.score(haystack, matcher)? as u32 }` *)
Fixpoint pattern_score_loop (atoms : list atom) (h : ustr) (m : config) (score : N)
  : result (option N) * config :=
  match atoms with
  | [] => (RDone (Some score), m)
  | a :: rest =>
    match atom_score a h m with
    | (RDone (Some s), m') =>
      match add32 score s with
      | Some score' => pattern_score_loop rest h m' score'
      | None => (Panic 4, m')
      end
    | (RDone None, m') => (RDone None, m')          (* the `?` *)
    | (Panic k, m') => (Panic k, m')
    end
  end.

(* Pattern::score *)
Definition pattern_score (atoms : list atom) (h : ustr) (m : config) : result (option N) * config :=
  match atoms with
  | [] => (RDone (Some 0), m)                       (* if self.atoms.is_empty() { return Some(0) } *)
  | _ => pattern_score_loop atoms h m 0
  end.

(* the loop of Pattern::indices *)
Fixpoint pattern_indices_loop (atoms : list atom) (h : ustr) (m : config) (indices : list N) (score : N)
  : result (option N) * config * list N :=
  match atoms with
  | [] => (RDone (Some score), m, indices)
  | a :: rest =>
    match atom_indices a h m indices with
    | (RDone (Some s), m', indices') =>
      match add32 score s with
      | Some score' => pattern_indices_loop rest h m' indices' score'
      | None => (Panic 4, m', indices')
      end
    | (RDone None, m', indices') => (RDone None, m', indices')     (* early return: nothing is rolled back *)
    | (Panic k, m', indices') => (Panic k, m', indices')
    end
  end.

(* Pattern::indices *)
Definition pattern_indices (atoms : list atom) (h : ustr) (m : config) (indices : list N)
  : result (option N) * config * list N :=
  match atoms with
  | [] => (RDone (Some 0), m, indices)
  | _ => pattern_indices_loop atoms h m indices 0
  end.

(* MultiPattern::score: `for ((pattern, _), haystack) in self.cols.iter().zip(haystack)`; zip stops at the
   shorter of the two, the u32 column scores are added with `+=` *)
Fixpoint multi_score_loop (cols : list (list atom)) (hs : list ustr) (m : config) (score : N)
  : result (option N) * config :=
  match cols, hs with
  | p :: cols', h :: hs' =>
    match pattern_score p h m with
    | (RDone (Some s), m') =>
      match add32 score s with
      | Some score' => multi_score_loop cols' hs' m' score'
      | None => (Panic 4, m')
      end
    | (RDone None, m') => (RDone None, m')
    | (Panic k, m') => (Panic k, m')
    end
  | _, _ => (RDone (Some score), m)
  end.

Definition multi_score (cols : list (list atom)) (hs : list ustr) (m : config) : result (option N) * config :=
  multi_score_loop cols hs m 0.

(* ---- match_list ---------------------------------------------------------------------------------- *)
(* items.into_iter().filter_map(|item| self.score(Utf32Str::new(item.as_ref(), &mut buf), matcher)
                                          .map(|score| (item, score))).collect()
   `score` is Atom::score or Pattern::score of the receiver; a panic of one call unwinds out of collect *)
Fixpoint filter_scores {T} (score : ustr -> config -> result (option N) * config) (conv : T -> ustr)
  (items : list T) (m : config) : result (list (T * N)) * config :=
  match items with
  | [] => (RDone [], m)
  | x :: rest =>
    match score (conv x) m with
    | (Panic k, m') => (Panic k, m')
    | (RDone None, m') => filter_scores score conv rest m'
    | (RDone (Some s), m') =>
      match filter_scores score conv rest m' with
      | (RDone l, m'') => (RDone ((x, s) :: l), m'')
      | (Panic k, m'') => (Panic k, m'')
      end
    end
  end.

(* stable sort by descending score: stands for items.sort_by_key(|(_, score)| Reverse( *score)).
   insert_desc puts x (which preceded every element of l in the input) in front of the first element whose
   score is not greater than x's. *)
Fixpoint insert_desc {T} (x : T * N) (l : list (T * N)) : list (T * N) :=
  match l with
  | [] => [x]
  | y :: l' => if snd x <? snd y then y :: insert_desc x l' else x :: l
  end.
Definition sort_desc {T} (l : list (T * N)) : list (T * N) := fold_right insert_desc [] l.

(* items.into_iter().map(|item| (item, 0)).collect() *)
Definition all_zero {T} (items : list T) : list (T * N) := map (fun x => (x, 0)) items.

Definition is_empty_str (s : ustr) : bool := match cs s with [] => true | _ => false end.

(* Atom::match_list.
   NOTE the shortcut is modelled as `self.needle.is_empty() && !self.negative`, i.e. the code after the
   one-line fix proposed in FINDINGS.md (fix_1.diff): as written at the time of modelling
   (`if self.needle.is_empty()`), a negative atom with an empty needle (Atom::parse("!")) returned every
   item with score 0 although Atom::score returns None for every haystack. *)
Definition atom_match_list {T} (a : atom) (conv : T -> ustr) (items : list T) (m : config)
  : result (list (T * N)) * config :=
  if is_empty_str (needle a) && negb (negative a) then (RDone (all_zero items), m)
  else
    match filter_scores (atom_score a) conv items m with
    | (RDone l, m') => (RDone (sort_desc l), m')
    | (Panic k, m') => (Panic k, m')
    end.

(* Pattern::match_list *)
Definition pattern_match_list {T} (atoms : list atom) (conv : T -> ustr) (items : list T) (m : config)
  : result (list (T * N)) * config :=
  match atoms with
  | [] => (RDone (all_zero items), m)
  | _ =>
    match filter_scores (pattern_score atoms) conv items m with
    | (RDone l, m') => (RDone (sort_desc l), m')
    | (Panic k, m') => (Panic k, m')
    end
  end.
