(* Model of matcher/src/chars.rs: character classes, case folding, Latin normalisation and the two
   normalisation paths of the `Char` trait (impls for AsciiChar and char).  Definitions only. *)
From Coq Require Import NArith List Bool FMapPositive.
From NV Require Export Gen.GenTables Gen.GenScore Gen.GenStdUnicode.
Import ListNotations.
Local Open Scope N_scope.

(* linear-time list reversal (List.rev is quadratic); rev_alt : rev l = rev_append l [] *)
Definition frev {A} (l : list A) : list A := rev_append l [].

(* crate::Config *)
Record config := {
  ignore_case : bool;
  normalize_on : bool;
  prefer_prefix : bool;
  delims : list N;        (* delimiter_chars *)
  bonus_white : N;        (* bonus_boundary_white *)
  bonus_delim : N;        (* bonus_boundary_delimiter *)
  init_class : cls        (* initial_char_class *)
}.

Definition config_of (p : preset) (ic nm pp : bool) : config :=
  {| ignore_case := ic; normalize_on := nm; prefer_prefix := pp; delims := p_delims p;
     bonus_white := p_white p; bonus_delim := p_delim p; init_class := p_init p |}.

(* which representation a string is held in: Utf32Str::Ascii(&[u8]) / Utf32Str::Unicode(&[char]) *)
Inductive repr := Ascii | Unicode.

Definition cls_eqb (a b : cls) : bool := cls_rank a =? cls_rank b.

(* ---- simple case folding: CASE_FOLDING_SIMPLE.binary_search_by_key ---------------------------- *)
(* The table is strictly ascending in its keys (theorem case_fold_sorted), so the binary search finds
   the unique row with that key if there is one.  Executable lookup goes through a positive trie built
   from the generated list; fold_lookup_spec relates it to the list. *)
Definition ckey (c : N) : positive := N.succ_pos c.
Definition fold_map : PositiveMap.t N :=
  fold_right (fun kv m => PositiveMap.add (ckey (fst kv)) (snd kv) m) (PositiveMap.empty N) case_fold_table.
Definition fold_lookup (c : N) : option N := PositiveMap.find (ckey c) fold_map.
(* chars::to_lower_case *)
Definition to_lower (c : N) : N := match fold_lookup c with Some v => v | None => c end.
(* chars::is_upper_case *)
Definition is_upper (c : N) : bool := match fold_lookup c with Some _ => true | None => false end.

(* ---- character classes -------------------------------------------------------------------------- *)
Definition in_range (lo hi c : N) : bool := (lo <=? c) && (c <=? hi).

(* <AsciiChar as Char>::char_class *)
Definition class_ascii (cfg : config) (c : N) : cls :=
  if in_range 97 122 c then CLower
  else if in_range 65 90 c then CUpper
  else if in_range 48 57 c then CNumber
  else if std_is_ascii_whitespace c then CWhitespace
  else if existsb (N.eqb c) (delims cfg) then CDelimiter
  else CNonWord.

(* chars::char_class_non_ascii *)
Definition class_non_ascii (c : N) : cls :=
  if std_is_lowercase c then CLower
  else if is_upper c then CUpper
  else if std_is_numeric c then CNumber
  else if std_is_alphabetic c then CLetter
  else if std_is_whitespace c then CWhitespace
  else CNonWord.

(* Char::char_class *)
Definition class (cfg : config) (r : repr) (c : N) : cls :=
  match r with
  | Ascii => class_ascii cfg c
  | Unicode => if c <? 128 then class_ascii cfg c else class_non_ascii c
  end.

(* <AsciiChar as Char>::normalize *)
Definition norm_ascii (cfg : config) (c : N) : N :=
  if ignore_case cfg && in_range 65 90 c then c + 32 else c.

(* <AsciiChar as Char>::char_class_and_normalize *)
Definition class_norm_ascii (cfg : config) (c : N) : N * cls :=
  let k := class_ascii cfg c in
  (if ignore_case cfg && cls_eqb k CUpper then c + 32 else c, k).

(* <char as Char>::normalize *)
Definition norm_char (cfg : config) (c : N) : N :=
  let c1 := if normalize_on cfg then normalize c else c in
  if ignore_case cfg then to_lower c1 else c1.

(* <char as Char>::char_class_and_normalize *)
Definition class_norm_char (cfg : config) (c : N) : N * cls :=
  if c <? 128 then class_norm_ascii cfg c
  else
    let k := class_non_ascii c in
    let c1 := if normalize_on cfg then normalize c else c in
    (if ignore_case cfg then to_lower c1 else c1, k).

Definition norm (cfg : config) (r : repr) (c : N) : N :=
  match r with Ascii => norm_ascii cfg c | Unicode => norm_char cfg c end.

Definition class_norm (cfg : config) (r : repr) (c : N) : N * cls :=
  match r with Ascii => class_norm_ascii cfg c | Unicode => class_norm_char cfg c end.

(* a string tagged Ascii holds bytes < 128 only (Utf32Str's invariant for that variant) *)
Definition wf_char (r : repr) (c : N) : bool :=
  match r with Ascii => c <? 128 | Unicode => (c <? 1114112) && negb (in_range 55296 57343 c) end.
