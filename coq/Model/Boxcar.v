(* Model of src/boxcar.rs: the lock-free append-only vector behind Injector / Snapshot.
   Definitions only.  Sequentially consistent interleaving semantics at the granularity of the yield
   points the cfg(nucleo_verif) hooks expose: a schedule is a list of events; `Step t` runs thread t from
   the yield point it is parked at up to its next yield point (or to completion).  Between two yield
   points of one thread there is at most one access to shared state that another thread can observe
   differently (fetch_add / compare_exchange / store active), so this granularity loses no behaviour of
   the SC semantics.  Values and column contents are abstract ids (N); the fill callback is the
   function `cols_of`, or panics when the operation says so. *)
From Coq Require Import NArith List Bool.
From NV Require Export Gen.GenBoxcar.
Import ListNotations.
Local Open Scope N_scope.

(* ---- Location::of -------------------------------------------------------------------------------- *)
Definition bucket_len (b : N) : N := N.shiftl 1 (b + SKIP_BUCKET).
(* u32::BITS - leading_zeros(x) for x > 0 *)
Definition bits (x : N) : N := N.log2 x + 1.
Record location := { l_bucket : N; l_len : N; l_entry : N }.
Definition location_of (index : N) : location :=
  let skipped := index + SKIP in
  let b := bits skipped - (SKIP_BUCKET + 1) in
  let len := bucket_len b in
  {| l_bucket := b; l_len := len; l_entry := N.lxor skipped len |}.
(* index.checked_add(SKIP).expect(..): indices up to MAX_ENTRIES are valid *)
Definition index_ok (index : N) : bool := index <=? MAX_ENTRIES.
(* entry at which push eagerly allocates the next bucket *)
Definition alloc_next_entry (l : location) : N := l_len l - N.shiftr (l_len l) 3.

(* ---- state ---------------------------------------------------------------------------------------- *)
Definition cols_of (v : N) : N := v * 2 + 1.     (* what the fill callback writes for value v *)

Record entry := { e_val : N; e_cols : N; e_active : bool }.

Inductive pc :=
| PushStart (v : N) (fill_panics : bool)                 (* parked at push.before_reserve *)
| PushReserved (v : N) (fp : bool) (idx : N)             (* push.reserved *)
| PushEagerCas (v : N) (fp : bool) (idx : N)             (* alloc.before_cas for the next bucket *)
| PushOwnCas (v : N) (fp : bool) (idx : N)               (* alloc.before_cas for the own bucket *)
| PushPublish (v : N) (idx : N)                          (* push.before_publish *)
| ExtStart (count : N) (vals : list N) (panic_at : option N)   (* not yet called *)
| ExtReserved (start count : N) (vals : list N) (pa : option N)   (* extend.reserved *)
| ExtEagerCas (start count : N) (vals : list N) (pa : option N)
| ExtBucketCas (start count : N) (i : N) (vals : list N) (pa : option N)   (* alloc.before_cas for item i's bucket *)
| ExtPublish (start count : N) (i : N) (v : N) (vals : list N) (pa : option N)  (* extend.before_publish for item i *)
| Done (result : option N)                               (* returned (push: Some idx) *)
| TPanicked.

Record vstate := {
  inflight : N;
  allocated : list N;                 (* bucket numbers whose pointer is non-null *)
  ents : list (N * entry);            (* written entries by index (most recent first) *)
  threads : list (N * pc);
  drops : list N;                     (* ghost: value ids dropped so far, with multiplicity *)
  col_drops : list N;                 (* ghost: column-set ids dropped so far *)
  alive : bool                        (* false after Drop for Vec *)
}.

Definition init_state (capacity : N) : vstate :=
  let init := if capacity =? 0 then 0 else l_bucket (location_of capacity) in
  {| inflight := 0; allocated := map N.of_nat (seq 0 (S (N.to_nat init))); ents := []; threads := [];
     drops := []; col_drops := []; alive := true |}.

Fixpoint lookup {A} (k : N) (l : list (N * A)) : option A :=
  match l with [] => None | (k', v) :: l' => if k' =? k then Some v else lookup k l' end.
Fixpoint update {A} (k : N) (v : A) (l : list (N * A)) : list (N * A) :=
  match l with
  | [] => [(k, v)]
  | (k', v') :: l' => if k' =? k then (k, v) :: l' else (k', v') :: update k v l'
  end.
Definition is_alloc (s : vstate) (b : N) : bool := existsb (N.eqb b) (allocated s).
Definition set_alloc (s : vstate) (b : N) : vstate :=
  if is_alloc s b then s else
  {| inflight := inflight s; allocated := b :: allocated s; ents := ents s; threads := threads s;
     drops := drops s; col_drops := col_drops s; alive := alive s |}.
Definition set_thread (s : vstate) (t : N) (p : pc) : vstate :=
  {| inflight := inflight s; allocated := allocated s; ents := ents s; threads := update t p (threads s);
     drops := drops s; col_drops := col_drops s; alive := alive s |}.
Definition set_entry (s : vstate) (i : N) (e : entry) : vstate :=
  {| inflight := inflight s; allocated := allocated s; ents := update i e (ents s); threads := threads s;
     drops := drops s; col_drops := col_drops s; alive := alive s |}.
Definition add_inflight (s : vstate) (k : N) : vstate :=
  {| inflight := inflight s + k; allocated := allocated s; ents := ents s; threads := threads s;
     drops := drops s; col_drops := col_drops s; alive := alive s |}.
Definition add_drop (s : vstate) (v : N) : vstate :=
  {| inflight := inflight s; allocated := allocated s; ents := ents s; threads := threads s;
     drops := v :: drops s; col_drops := col_drops s; alive := alive s |}.
(* unwinding out of extend drops the current value and everything still inside the iterator *)
Definition add_drops (s : vstate) (vs : list N) : vstate := fold_left add_drop vs s.

(* observations printed by harness and model alike *)
Inductive obs :=
| OYield (site : N) (arg : N)      (* 1 push.reserved, 2 alloc.before_cas, 3 push.before_publish,
                                      4 extend.reserved, 5 extend.before_publish, 6 push.before_reserve *)
| OReturn (r : option N)
| OPanic
| OGet (r : option (N * N))
| OCount (n : N)
| OSnap (end_ : N) (items : list (N * bool))
| ODropped (vals cols : list N)
| ONone.

(* the part of push after the eager allocation: load the own bucket pointer, allocate if null, fill *)
Definition push_fill (s : vstate) (t v : N) (fp : bool) (idx : N) : vstate * obs :=
  if fp then
    (* default columns were written, fill panicked: the value is dropped by unwinding, the entry stays inactive *)
    (add_drop (set_thread s t TPanicked) v, OPanic)
  else
    (set_thread (set_entry s idx {| e_val := v; e_cols := cols_of v; e_active := false |}) t (PushPublish v idx),
     OYield 3 idx).
Definition push_after_eager (s : vstate) (t v : N) (fp : bool) (idx : N) : vstate * obs :=
  let l := location_of idx in
  if is_alloc s (l_bucket l) then push_fill s t v fp idx
  else (set_thread s t (PushOwnCas v fp idx), OYield 2 (l_len l)).

(* extend: process items from position i on, up to the next yield *)
Definition ext_item (s : vstate) (t start count i : N) (vals : list N) (pa : option N) (skip_alloc_check : bool)
  : vstate * obs :=
  match vals with
  | [] => (set_thread s t (Done None), OReturn None)           (* iterator exhausted *)
  | v :: vals' =>
    if count <=? i then (add_drops (set_thread s t TPanicked) vals, OPanic)   (* assert!(i < count) *)
    else
      let l := location_of (start + i) in
      if negb skip_alloc_check && ((l_entry l =? 0) && negb (i =? 0) || (i =? 0)) && negb (is_alloc s (l_bucket l))
      then (set_thread s t (ExtBucketCas start count i vals pa), OYield 2 (l_len l))
      else
        match pa with
        | Some k => if k =? i then (add_drops (set_thread s t TPanicked) vals, OPanic)
                    else (set_thread (set_entry s (start + i) {| e_val := v; e_cols := cols_of v; e_active := false |})
                                     t (ExtPublish start count i v vals' pa), OYield 5 (start + i))
        | None => (set_thread (set_entry s (start + i) {| e_val := v; e_cols := cols_of v; e_active := false |})
                              t (ExtPublish start count i v vals' pa), OYield 5 (start + i))
        end
  end.

(* condition under which extend eagerly allocates the bucket after the last one *)
Definition ext_eager_cond (start count : N) : bool :=
  let sl := location_of start in
  let el := location_of (start + count) in
  let ae := alloc_next_entry el in
  (ae <=? l_entry el) && (negb (l_bucket sl =? l_bucket el) || (l_entry sl <=? ae)).

(* run thread t up to its next yield point *)
Definition step_thread (s : vstate) (t : N) : vstate * obs :=
  match lookup t (threads s) with
  | None => (s, ONone)
  | Some p =>
    match p with
    | PushStart v fp =>
      let idx := inflight s in
      if negb (index_ok idx) then (add_drop (set_thread (add_inflight s 1) t TPanicked) v, OPanic)
      else (set_thread (add_inflight s 1) t (PushReserved v fp idx), OYield 1 idx)
    | PushReserved v fp idx =>
      let l := location_of idx in
      (* NB: the code compares the global index (not the entry) with 7/8 of the bucket length *)
      if (idx =? alloc_next_entry l) && (l_bucket l + 1 <? BUCKETS)
      then (set_thread s t (PushEagerCas v fp idx), OYield 2 (N.shiftl (l_len l) 1))
      else push_after_eager s t v fp idx
    | PushEagerCas v fp idx =>
      push_after_eager (set_alloc s (l_bucket (location_of idx) + 1)) t v fp idx
    | PushOwnCas v fp idx =>
      push_fill (set_alloc s (l_bucket (location_of idx))) t v fp idx
    | PushPublish v idx =>
      (set_thread (set_entry s idx {| e_val := v; e_cols := cols_of v; e_active := true |}) t (Done (Some idx)),
       OReturn (Some idx))
    | ExtStart count vals pa =>
      if count =? 0 then
        match vals with
        | [] => (set_thread s t (Done None), OReturn None)
        | _ :: _ => (add_drops (set_thread s t TPanicked) vals, OPanic)
        end
      else
        let start := inflight s in
        (set_thread (add_inflight s count) t (ExtReserved start count vals pa), OYield 4 start)
    | ExtReserved start count vals pa =>
      if ext_eager_cond start count && (l_bucket (location_of (start + count)) + 1 <? BUCKETS)
      then (set_thread s t (ExtEagerCas start count vals pa), OYield 2 (N.shiftl (l_len (location_of (start + count))) 1))
      else ext_item s t start count 0 vals pa false
    | ExtEagerCas start count vals pa =>
      ext_item (set_alloc s (l_bucket (location_of (start + count)) + 1)) t start count 0 vals pa false
    | ExtBucketCas start count i vals pa =>
      ext_item (set_alloc s (l_bucket (location_of (start + i)))) t start count i vals pa true
    | ExtPublish start count i v vals pa =>
      ext_item (set_entry s (start + i) {| e_val := v; e_cols := cols_of v; e_active := true |}) t start count (i + 1) vals pa false
    | Done _ => (s, ONone)
    | TPanicked => (s, ONone)
    end
  end.

(* Vec::get *)
Definition get (s : vstate) (i : N) : option (N * N) :=
  if is_alloc s (l_bucket (location_of i)) then
    match lookup i (ents s) with
    | Some e => if e_active e then Some (e_val e, e_cols e) else None
    | None => None
    end
  else None.
(* Vec::count *)
Definition count (s : vstate) : N := N.min (inflight s) MAX_ENTRIES.
(* Vec::snapshot(start) drained *)
Definition snapshot (s : vstate) (start : N) : N * list (N * bool) :=
  let e := count s in
  (e, map (fun k => let i := start + N.of_nat k in (i, match get s i with Some _ => true | None => false end))
          (seq 0 (N.to_nat (e - start)))).

(* Drop for Vec: walk the buckets in order; at a null pointer stop (`break`) or go on (`continue`)
   as the translated source says; drop every active entry of an allocated bucket *)
Fixpoint visited_buckets (stop_at_null : bool) (alloc : N -> bool) (bs : list N) : list N :=
  match bs with
  | [] => []
  | b :: bs' => if alloc b then b :: visited_buckets stop_at_null alloc bs'
                else if stop_at_null then [] else visited_buckets stop_at_null alloc bs'
  end.
Definition drop_vec (s : vstate) : vstate * obs :=
  let vis := visited_buckets drop_stops_at_null (is_alloc s) (map N.of_nat (seq 0 (N.to_nat BUCKETS))) in
  let dead := filter (fun ie => e_active (snd ie) && existsb (N.eqb (l_bucket (location_of (fst ie)))) vis) (ents s) in
  let vs := map (fun ie => e_val (snd ie)) dead in
  let cs := map (fun ie => e_cols (snd ie)) dead in
  ({| inflight := inflight s; allocated := allocated s; ents := ents s; threads := threads s;
      drops := vs ++ drops s; col_drops := cs ++ col_drops s; alive := false |}, ODropped vs cs).

Inductive event :=
| Spawn (t : N) (p : pc)
| Step (t : N)
| Get (i : N)
| Count
| Snap (start : N)
| DropVec.

Definition do_event (s : vstate) (e : event) : vstate * obs :=
  match e with
  | Spawn t p => (set_thread s t p, ONone)
  | Step t => step_thread s t
  | Get i => (s, OGet (get s i))
  | Count => (s, OCount (count s))
  | Snap start => (s, let r := snapshot s start in OSnap (fst r) (snd r))
  | DropVec => drop_vec s
  end.

Fixpoint run_events (s : vstate) (es : list event) : vstate * list obs :=
  match es with
  | [] => (s, [])
  | e :: es' => let '(s', o) := do_event s e in let '(s'', os) := run_events s' es' in (s'', o :: os)
  end.
