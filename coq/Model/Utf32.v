(* Model of matcher/src/utf32_str.rs (Utf32Str, Utf32String, Chars) and of chars::graphemes
   (matcher/src/chars.rs:188-206).  Definitions only (no proofs), one definition per Rust function.

   Conventions.  A Rust `&str` is the list of its code points (list N); the UTF-8 encoding is not
   modelled (for an all-ASCII string the bytes ARE the code points, which is the only place where the
   code looks at bytes).  Both `Utf32Str<'a>` and the owned `Utf32String` are the record `ustr` of
   Model/Matcher.v: the tag of the variant (Ascii | Unicode) plus the content.

   NOT modelled, passed in as INPUTS of the model functions (supplied per case by the harness, which
   obtains them from the real crates):
     - the extended-grapheme-cluster segmentation `text.graphemes(true)` of the unicode-segmentation
       crate: the argument `clusters : list (list N)` of graphemes / utf32str_new / utf32string_from_*;
       the facts the theorems need about it (concat clusters = text, clusters non-empty, all-ASCII
       CRLF-free text has single-code-point clusters) are explicit hypotheses of Props/C17.v and are
       validated by the correspondence run;
     - std's `char::escape_debug`: the argument `esc : N -> list N` of the Debug models.
   Modelled by specification: `str::is_ascii`, `memmem::find(.., b"\r\n").is_none()`, slice indexing
   `&x[a..b]` / `x[i]` (panic iff out of range), `Vec::clear` + `Vec::extend`, `collect`.

   A Rust panic is the result UPanic site; integer arithmetic is the checked arithmetic of a build with
   overflow checks when `oc = true` (the harness' dev profile) and wrapping arithmetic when
   `oc = false` (release profile).  usize is 64 bits. *)
From Coq Require Import NArith List Bool.
From NV Require Import Model.Matcher.
Import ListNotations.
Local Open Scope N_scope.

(* sites: 1 arithmetic overflow (overflow-checks builds), 2 slice range out of bounds / start > end,
   3 index out of bounds, 4 expect("graphemes must be non-empty") *)
Inductive ures (A : Type) : Type :=
| UOk (a : A)
| UPanic (site : N).
Arguments UOk {A} a.
Arguments UPanic {A} site.

Definition ubind {A B} (r : ures A) (f : A -> ures B) : ures B :=
  match r with UOk a => f a | UPanic k => UPanic k end.
Definition umap {A B} (f : A -> B) (r : ures A) : ures B :=
  match r with UOk a => UOk (f a) | UPanic k => UPanic k end.

Definition mk_ustr (r : repr) (l : list N) : ustr := {| rp := r; cs := l |}.

(* ---- has_ascii_graphemes (utf32_str.rs:19-22) ------------------------------------------------- *)
(* str::is_ascii *)
Definition str_is_ascii (s : list N) : bool := forallb (fun c => c <? 128) s.

(* memmem::find(string.as_bytes(), b"\r\n").is_some(), by its specification: some position holds 13
   immediately followed by 10.  (Only evaluated when the string is ASCII, where bytes = code points.) *)
Fixpoint has_crlf (s : list N) : bool :=
  match s with
  | a :: ((b :: _) as t) => ((a =? 13) && (b =? 10)) || has_crlf t
  | _ => false
  end.

Definition has_ascii_graphemes (s : list N) : bool := str_is_ascii s && negb (has_crlf s).

(* ---- chars::graphemes (chars.rs:188-206, feature unicode-segmentation on) ---------------------- *)
(* grapheme == "\r\n" *)
Definition is_crlf (g : list N) : bool :=
  match g with
  | [a; b] => (a =? 13) && (b =? 10)
  | _ => false
  end.

(* the closure mapped over text.graphemes(true) *)
Definition grapheme_char (g : list N) : ures N :=
  if is_crlf g then UOk 10
  else match g with
       | c :: _ => UOk c               (* grapheme.chars().next() *)
       | [] => UPanic 4                (* .expect("graphemes must be non-empty") *)
       end.

(* the iterator, consumed to the end (extend / collect); `clusters` is text.graphemes(true) *)
Fixpoint graphemes (clusters : list (list N)) : ures (list N) :=
  match clusters with
  | [] => UOk []
  | g :: rest => ubind (grapheme_char g) (fun c => umap (cons c) (graphemes rest))
  end.

(* ---- constructors ---------------------------------------------------------------------------- *)
(* Utf32Str::new(str, buf) (utf32_str.rs:106-114): the view and the buffer's content afterwards *)
Definition utf32str_new (s : list N) (clusters : list (list N)) (buf : list N) : ures (ustr * list N) :=
  if has_ascii_graphemes s then UOk (mk_ustr Ascii s, buf)
  else
    let buf0 : list N := [] in                                  (* buf.clear() *)
    ubind (graphemes clusters) (fun g =>
      let buf1 := buf0 ++ g in                                  (* buf.extend(graphemes(str)) *)
      UOk (mk_ustr Unicode buf1, buf1)).

(* impl From<&str> for Utf32String (utf32_str.rs:380-389) *)
Definition utf32string_from_str (s : list N) (clusters : list (list N)) : ures ustr :=
  if has_ascii_graphemes s then UOk (mk_ustr Ascii s)           (* value.to_owned().into_boxed_str() *)
  else umap (mk_ustr Unicode) (graphemes clusters).             (* graphemes(value).collect() *)

(* impl From<Box<str>> for Utf32String (utf32_str.rs:391-399) *)
Definition utf32string_from_box (s : list N) (clusters : list (list N)) : ures ustr :=
  if has_ascii_graphemes s then UOk (mk_ustr Ascii s)           (* the box itself *)
  else umap (mk_ustr Unicode) (graphemes clusters).

(* impl From<String> for Utf32String (utf32_str.rs:401-406): value.into_boxed_str().into() *)
Definition utf32string_from_string (s : list N) (clusters : list (list N)) : ures ustr :=
  utf32string_from_box s clusters.

(* impl From<Cow<str>> for Utf32String (utf32_str.rs:408-416) *)
Inductive cow_kind := CowBorrowed | CowOwned.
Definition utf32string_from_cow (k : cow_kind) (s : list N) (clusters : list (list N)) : ures ustr :=
  match k with
  | CowBorrowed => utf32string_from_str s clusters
  | CowOwned => utf32string_from_string s clusters
  end.

(* ---- len / is_empty / is_ascii ------------------------------------------------------------------ *)
(* Utf32Str::len *)
Definition utf32str_len (u : ustr) : N :=
  match rp u with Unicode => lenN (cs u) | Ascii => lenN (cs u) end.
(* Utf32Str::is_empty *)
Definition utf32str_is_empty (u : ustr) : bool :=
  match rp u with
  | Unicode => match cs u with [] => true | _ => false end
  | Ascii => match cs u with [] => true | _ => false end
  end.
(* Utf32Str::is_ascii *)
Definition utf32str_is_ascii (u : ustr) : bool := match rp u with Ascii => true | Unicode => false end.
(* Utf32String::len *)
Definition utf32string_len (u : ustr) : N :=
  match rp u with Unicode => lenN (cs u) | Ascii => lenN (cs u) end.
(* Utf32String::is_empty *)
Definition utf32string_is_empty (u : ustr) : bool :=
  match rp u with
  | Unicode => match cs u with [] => true | _ => false end
  | Ascii => match cs u with [] => true | _ => false end
  end.

(* ---- slicing ------------------------------------------------------------------------------------ *)
(* std::ops::Bound<&T> as returned by RangeBounds::start_bound / end_bound *)
Inductive bound := Included (n : N) | Excluded (n : N) | Unbounded.

Definition USIZE_BITS : N := 64.
Definition U32_BITS : N := 32.

(* x + 1 in an unsigned type of `bits` bits *)
Definition add1 (oc : bool) (bits : N) (x : N) : ures N :=
  if x + 1 <? 2 ^ bits then UOk (x + 1)
  else if oc then UPanic 1            (* attempt to add with overflow *)
  else UOk ((x + 1) mod 2 ^ bits).    (* wraps *)

(* &x[start..end] *)
Definition index_range (l : list N) (start e : N) : ures (list N) :=
  if (start <=? e) && (e <=? lenN l) then UOk (sliceN start e l) else UPanic 2.

Definition slice_variant (u : ustr) (start e : N) : ures ustr :=
  match rp u with
  | Ascii => umap (mk_ustr Ascii) (index_range (cs u) start e)
  | Unicode => umap (mk_ustr Unicode) (index_range (cs u) start e)
  end.

(* Utf32Str::slice(range: impl RangeBounds<usize>) (utf32_str.rs:137-152); sb / eb are
   range.start_bound() / range.end_bound() *)
Definition utf32str_slice (oc : bool) (u : ustr) (sb eb : bound) : ures ustr :=
  ubind (match sb with
         | Included s => UOk s
         | Excluded s => add1 oc USIZE_BITS s
         | Unbounded => UOk 0
         end) (fun start =>
  ubind (match eb with
         | Included e => add1 oc USIZE_BITS e
         | Excluded e => UOk e
         | Unbounded => UOk (utf32str_len u)
         end) (fun e =>
  slice_variant u start e)).

(* Utf32Str::slice_u32(range: impl RangeBounds<u32>) (utf32_str.rs:189-204): widens first
   (`start as usize + 1`), so the arithmetic is usize arithmetic *)
Definition utf32str_slice_u32 (oc : bool) (u : ustr) (sb eb : bound) : ures ustr :=
  ubind (match sb with
         | Included s => UOk s
         | Excluded s => add1 oc USIZE_BITS s
         | Unbounded => UOk 0
         end) (fun start =>
  ubind (match eb with
         | Included e => add1 oc USIZE_BITS e
         | Excluded e => UOk e
         | Unbounded => UOk (utf32str_len u)
         end) (fun e =>
  slice_variant u start e)).

(* Utf32String::slice (utf32_str.rs:338-353) *)
Definition utf32string_slice (oc : bool) (u : ustr) (sb eb : bound) : ures ustr :=
  ubind (match sb with
         | Included s => UOk s
         | Excluded s => add1 oc USIZE_BITS s
         | Unbounded => UOk 0
         end) (fun start =>
  ubind (match eb with
         | Included e => add1 oc USIZE_BITS e
         | Excluded e => UOk e
         | Unbounded => UOk (utf32string_len u)
         end) (fun e =>
  slice_variant u start e)).

(* Utf32String::slice_u32 (utf32_str.rs:358-377): the arithmetic is done in u32 (`start + 1`,
   `end + 1`, `self.len() as u32`) and widened afterwards *)
Definition utf32string_slice_u32 (oc : bool) (u : ustr) (sb eb : bound) : ures ustr :=
  ubind (match sb with
         | Included s => UOk s
         | Excluded s => add1 oc U32_BITS s
         | Unbounded => UOk 0
         end) (fun start =>
  ubind (match eb with
         | Included e => add1 oc U32_BITS e
         | Excluded e => UOk e
         | Unbounded => UOk (utf32string_len u mod 2 ^ U32_BITS)      (* self.len() as u32 *)
         end) (fun e =>
  slice_variant u start e)).

(* ---- indexing ----------------------------------------------------------------------------------- *)
(* Utf32Str::get(n: u32): bytes[n as usize] as char / codepoints[n as usize] *)
Definition utf32str_get (u : ustr) (n : N) : ures N :=
  match rp u with
  | Ascii => if n <? lenN (cs u) then UOk (nthN (cs u) n 0) else UPanic 3
  | Unicode => if n <? lenN (cs u) then UOk (nthN (cs u) n 0) else UPanic 3
  end.

(* Utf32Str::first (pub(crate)): bytes[0] as char / codepoints[0] *)
Definition utf32str_first (u : ustr) : ures N :=
  match cs u with
  | c :: _ => UOk c
  | [] => UPanic 3
  end.

(* Utf32Str::last (pub(crate)): bytes[bytes.len() - 1] as char / codepoints[codepoints.len() - 1] *)
Definition utf32str_last (oc : bool) (u : ustr) : ures N :=
  let len := lenN (cs u) in
  if len =? 0 then (if oc then UPanic 1 else UPanic 3)   (* 0 - 1 overflows, or wraps to usize::MAX *)
  else UOk (nthN (cs u) (len - 1) 0).

(* ---- iteration: Utf32Str::chars and impl Iterator / DoubleEndedIterator for Chars --------------- *)
(* the iterator state is the tagged remaining slice (Chars::Ascii(bytes.iter()) /
   Chars::Unicode(codepoints.iter())) *)
Definition utf32str_chars (u : ustr) : ustr := u.

(* Iterator::next *)
Definition chars_next (it : ustr) : option N * ustr :=
  match cs it with
  | [] => (None, it)
  | c :: r => (Some c, mk_ustr (rp it) r)
  end.

(* DoubleEndedIterator::next_back *)
Definition chars_next_back (it : ustr) : option N * ustr :=
  match frev (cs it) with
  | [] => (None, it)
  | c :: r => (Some c, mk_ustr (rp it) (frev r))
  end.

(* a caller alternating between the two ends: true = next(), false = next_back(); yields the results
   in call order and the final iterator *)
Fixpoint chars_drive (sched : list bool) (it : ustr) : list (option N) * ustr :=
  match sched with
  | [] => ([], it)
  | front :: rest =>
    let '(o, it1) := if front then chars_next it else chars_next_back it in
    let '(os, it2) := chars_drive rest it1 in
    (o :: os, it2)
  end.

(* `for c in it { .. }`: next() until None; fuel = an upper bound of the number of items *)
Fixpoint chars_collect_fuel (fuel : nat) (it : ustr) : list N :=
  match fuel with
  | O => []
  | S f => match chars_next it with
           | (Some c, it1) => c :: chars_collect_fuel f it1
           | (None, _) => []
           end
  end.
Definition chars_collect (it : ustr) : list N := chars_collect_fuel (S (length (cs it))) it.

(* `for c in it.rev() { .. }`: next_back() until None *)
Fixpoint chars_collect_back_fuel (fuel : nat) (it : ustr) : list N :=
  match fuel with
  | O => []
  | S f => match chars_next_back it with
           | (Some c, it1) => c :: chars_collect_back_fuel f it1
           | (None, _) => []
           end
  end.
Definition chars_collect_back (it : ustr) : list N := chars_collect_back_fuel (S (length (cs it))) it.

(* ---- Display / Debug ---------------------------------------------------------------------------- *)
(* impl Display for Utf32Str: for c in self.chars() { write!(f, "{c}") }; the result is the list of
   code points of the produced string *)
Definition utf32str_display (u : ustr) : list N := chars_collect (utf32str_chars u).

(* impl Debug for Utf32Str: '"', then c.escape_debug() of every char, then '"';
   esc models char::escape_debug (std; an input) *)
Definition utf32str_debug (esc : N -> list N) (u : ustr) : list N :=
  [34] ++ flat_map esc (chars_collect (utf32str_chars u)) ++ [34].

(* impl Display for Utf32String: write!(f, "{}", self.slice(..)) *)
Definition utf32string_display (oc : bool) (u : ustr) : ures (list N) :=
  umap utf32str_display (utf32string_slice oc u Unbounded Unbounded).

(* impl Debug for Utf32String: write!(f, "{:?}", self.slice(..)) *)
Definition utf32string_debug (oc : bool) (esc : N -> list N) (u : ustr) : ures (list N) :=
  umap (utf32str_debug esc) (utf32string_slice oc u Unbounded Unbounded).
