(* Model of the high-level crate's worker / tick protocol: src/lib.rs (Nucleo::tick, tick_inner, restart,
   injector, active_injectors, Snapshot::update / clear), src/worker.rs (Worker::run and its helpers),
   src/pattern.rs (MultiPattern status bookkeeping).  Definitions only.

   A labelled transition system whose steps are the phases between the cfg(nucleo_verif) yield points:
   the UI thread's tick is a sequence of steps (begin, set-cancel, lock, body, spawn, second inner call),
   the background run holds the worker mutex from the tick that spawned it until RunEnd and goes through
   scan / sort / notify-read / notify / end; injector threads reserve and publish items one at a time.
   Everything the worker mutates is behind the mutex, so UI steps touch it only while they hold the lock;
   the only cross-thread communication is through the two flags, the item streams and the lock.
   The scan phase is one step that takes the list of item indices it saw as initialised as a PARAMETER
   (any subset of the currently published ones): this over-approximates items being published while the
   pool threads scan.  Scores and total column lengths are parameters (sc, ln) so that the protocol model
   is independent of the matcher model.  One matcher column. *)
From Coq Require Import NArith List Bool.
Import ListNotations.
Local Open Scope N_scope.

(* a Coq module so that the extracted OCaml keeps these names apart from Model/Boxcar.v's *)
Module Nucleo.

Inductive ustate := SInit | SCleared | SFresh.
Inductive pstatus := Unchanged | Update | Rescore.
Definition pstatus_rank (p : pstatus) : N := match p with Unchanged => 0 | Update => 1 | Rescore => 2 end.

Record mtch := { m_score : N; m_idx : N }.
Definition PLACEHOLDER : N := 4294967295.    (* u32::MAX *)

Record snapshot := { sn_count : N; sn_matches : list mtch; sn_pat : N; sn_sid : N }.

Record worker := {
  w_running : bool; w_was_canceled : bool; w_last : N; w_in_flight : list N;
  w_matches : list mtch; w_pat : N; w_sid : N }.

(* where the background run is *)
Inductive runpc :=
| RStart                      (* parked at run.start *)
| RSort (unmatched : N)       (* parked at run.before_sort *)
| REnd (completed : bool).    (* parked at run.end; the next step returns from run() and drops the guard *)

(* the pool closure after it has released the lock (it still has to look at the notify flag) *)
Inductive postpc :=
| PNone
| PUnlocked (completed : bool)   (* parked at run.unlocked *)
| PNotify                        (* parked at run.before_notify: completed and the flag was read as true *)
| PDone.                         (* parked at run.done *)

Inductive lockst :=
| Free
| HeldTick                                        (* the UI thread holds the guard inside tick_inner *)
| HeldRun (pc : runpc) (status : pstatus) (cleared : bool).

(* where the UI thread is inside tick *)
Inductive tickpc :=
| TIdle
| TBegun (timeout0 : bool)                        (* parked at tick.begin *)
| TBeforeLock (status : pstatus) (timeout0 : bool)   (* cancel flag stored; parked at tick.before_lock *)
| TBeforeTry (second : bool) (changed1 : bool) (timeout0 : bool)  (* parked at tick.before_try_lock *)
| TTryFailed (second : bool) (changed1 : bool)    (* parked at tick.try_lock_failed *)
| TAfterRearm (second : bool) (changed1 : bool)   (* parked at tick.after_rearm *)
| TBeforeSpawn (cflag : bool) (status : pstatus) (cleared : bool) (changed : bool) (second : bool) (changed1 : bool) (timeout0 : bool).
                                                  (* parked at tick.before_spawn, holding the guard *)

Record nstate := {
  streams : list (N * list bool);    (* stream id -> per reserved index: published? *)
  cur : N;                            (* Nucleo.items *)
  next_sid : N;
  ui_state : ustate;
  ui_pat : N;                         (* Nucleo.pattern (an id; 0 = empty pattern) *)
  ui_status : pstatus;
  snap : snapshot;
  wk : worker;
  lock : lockst;
  canceled : bool;
  should_notify : bool;
  tpc : tickpc;
  last_tick : option (bool * bool);   (* (changed, running) of the last completed tick *)
  notifies : N;                       (* ghost: notify calls from the worker *)
  injectors : list (N * N);           (* live injector handle -> stream id *)
  post : postpc;                      (* the pool thread between unlock and the end of its closure *)
  (* ghost state, never read by a step: bookkeeping for the statements of C13 / C19 *)
  g_snap_begin : snapshot;            (* the snapshot when the tick in progress (or the last one) began *)
  g_pub_begin : N;                    (* published items of the current stream at that moment *)
  g_owed : bool                       (* a tick returned running = true and neither a worker notification
                                         nor a later tick / restart has happened since *)
}.

Definition init_snapshot : snapshot := {| sn_count := 0; sn_matches := []; sn_pat := 0; sn_sid := 0 |}.
Definition init_worker : worker :=
  {| w_running := false; w_was_canceled := false; w_last := 0; w_in_flight := []; w_matches := [];
     w_pat := 0; w_sid := 0 |}.
Definition init_nstate : nstate :=
  {| streams := [(0, [])]; cur := 0; next_sid := 1; ui_state := SInit; ui_pat := 0; ui_status := Unchanged;
     snap := init_snapshot; wk := init_worker; lock := Free; canceled := false; should_notify := false;
     tpc := TIdle; last_tick := None; notifies := 0; injectors := []; post := PNone;
     g_snap_begin := init_snapshot; g_pub_begin := 0; g_owed := false |}.

(* ---- record updates ------------------------------------------------------------------------------- *)
Definition upd_ghost s sb pb ow := {| streams := streams s; cur := cur s; next_sid := next_sid s; ui_state := ui_state s; ui_pat := ui_pat s; ui_status := ui_status s; snap := snap s; wk := wk s; lock := lock s; canceled := canceled s; should_notify := should_notify s; tpc := tpc s; last_tick := last_tick s; notifies := notifies s; injectors := injectors s; post := post s; g_snap_begin := sb; g_pub_begin := pb; g_owed := ow |}.

Definition upd_streams s v := {| streams := v; cur := cur s; next_sid := next_sid s; ui_state := ui_state s; ui_pat := ui_pat s; ui_status := ui_status s; snap := snap s; wk := wk s; lock := lock s; canceled := canceled s; should_notify := should_notify s; tpc := tpc s; last_tick := last_tick s; notifies := notifies s; injectors := injectors s; post := post s; g_snap_begin := g_snap_begin s; g_pub_begin := g_pub_begin s; g_owed := g_owed s |}.
Definition upd_cur s v n := {| streams := streams s; cur := v; next_sid := n; ui_state := ui_state s; ui_pat := ui_pat s; ui_status := ui_status s; snap := snap s; wk := wk s; lock := lock s; canceled := canceled s; should_notify := should_notify s; tpc := tpc s; last_tick := last_tick s; notifies := notifies s; injectors := injectors s; post := post s; g_snap_begin := g_snap_begin s; g_pub_begin := g_pub_begin s; g_owed := g_owed s |}.
Definition upd_ui_state s v := {| streams := streams s; cur := cur s; next_sid := next_sid s; ui_state := v; ui_pat := ui_pat s; ui_status := ui_status s; snap := snap s; wk := wk s; lock := lock s; canceled := canceled s; should_notify := should_notify s; tpc := tpc s; last_tick := last_tick s; notifies := notifies s; injectors := injectors s; post := post s; g_snap_begin := g_snap_begin s; g_pub_begin := g_pub_begin s; g_owed := g_owed s |}.
Definition upd_pat s p st := {| streams := streams s; cur := cur s; next_sid := next_sid s; ui_state := ui_state s; ui_pat := p; ui_status := st; snap := snap s; wk := wk s; lock := lock s; canceled := canceled s; should_notify := should_notify s; tpc := tpc s; last_tick := last_tick s; notifies := notifies s; injectors := injectors s; post := post s; g_snap_begin := g_snap_begin s; g_pub_begin := g_pub_begin s; g_owed := g_owed s |}.
Definition upd_snap s v := {| streams := streams s; cur := cur s; next_sid := next_sid s; ui_state := ui_state s; ui_pat := ui_pat s; ui_status := ui_status s; snap := v; wk := wk s; lock := lock s; canceled := canceled s; should_notify := should_notify s; tpc := tpc s; last_tick := last_tick s; notifies := notifies s; injectors := injectors s; post := post s; g_snap_begin := g_snap_begin s; g_pub_begin := g_pub_begin s; g_owed := g_owed s |}.
Definition upd_wk s v := {| streams := streams s; cur := cur s; next_sid := next_sid s; ui_state := ui_state s; ui_pat := ui_pat s; ui_status := ui_status s; snap := snap s; wk := v; lock := lock s; canceled := canceled s; should_notify := should_notify s; tpc := tpc s; last_tick := last_tick s; notifies := notifies s; injectors := injectors s; post := post s; g_snap_begin := g_snap_begin s; g_pub_begin := g_pub_begin s; g_owed := g_owed s |}.
Definition upd_lock s v := {| streams := streams s; cur := cur s; next_sid := next_sid s; ui_state := ui_state s; ui_pat := ui_pat s; ui_status := ui_status s; snap := snap s; wk := wk s; lock := v; canceled := canceled s; should_notify := should_notify s; tpc := tpc s; last_tick := last_tick s; notifies := notifies s; injectors := injectors s; post := post s; g_snap_begin := g_snap_begin s; g_pub_begin := g_pub_begin s; g_owed := g_owed s |}.
Definition upd_canceled s v := {| streams := streams s; cur := cur s; next_sid := next_sid s; ui_state := ui_state s; ui_pat := ui_pat s; ui_status := ui_status s; snap := snap s; wk := wk s; lock := lock s; canceled := v; should_notify := should_notify s; tpc := tpc s; last_tick := last_tick s; notifies := notifies s; injectors := injectors s; post := post s; g_snap_begin := g_snap_begin s; g_pub_begin := g_pub_begin s; g_owed := g_owed s |}.
Definition upd_notify s v := {| streams := streams s; cur := cur s; next_sid := next_sid s; ui_state := ui_state s; ui_pat := ui_pat s; ui_status := ui_status s; snap := snap s; wk := wk s; lock := lock s; canceled := canceled s; should_notify := v; tpc := tpc s; last_tick := last_tick s; notifies := notifies s; injectors := injectors s; post := post s; g_snap_begin := g_snap_begin s; g_pub_begin := g_pub_begin s; g_owed := g_owed s |}.
Definition upd_tpc s v := {| streams := streams s; cur := cur s; next_sid := next_sid s; ui_state := ui_state s; ui_pat := ui_pat s; ui_status := ui_status s; snap := snap s; wk := wk s; lock := lock s; canceled := canceled s; should_notify := should_notify s; tpc := v; last_tick := last_tick s; notifies := notifies s; injectors := injectors s; post := post s; g_snap_begin := g_snap_begin s; g_pub_begin := g_pub_begin s; g_owed := g_owed s |}.
Definition upd_last_tick0 s v := {| streams := streams s; cur := cur s; next_sid := next_sid s; ui_state := ui_state s; ui_pat := ui_pat s; ui_status := ui_status s; snap := snap s; wk := wk s; lock := lock s; canceled := canceled s; should_notify := should_notify s; tpc := TIdle; last_tick := Some v; notifies := notifies s; injectors := injectors s; post := post s; g_snap_begin := g_snap_begin s; g_pub_begin := g_pub_begin s; g_owed := g_owed s |}.
(* tick returns: record the status; a `running` answer creates the notification obligation *)
Definition upd_last_tick s (v : bool * bool) := let s' := upd_last_tick0 s v in upd_ghost s' (g_snap_begin s') (g_pub_begin s') (snd v).
Definition upd_notifies s v := {| streams := streams s; cur := cur s; next_sid := next_sid s; ui_state := ui_state s; ui_pat := ui_pat s; ui_status := ui_status s; snap := snap s; wk := wk s; lock := lock s; canceled := canceled s; should_notify := should_notify s; tpc := tpc s; last_tick := last_tick s; notifies := v; injectors := injectors s; post := post s; g_snap_begin := g_snap_begin s; g_pub_begin := g_pub_begin s; g_owed := g_owed s |}.
Definition upd_injectors s v := {| streams := streams s; cur := cur s; next_sid := next_sid s; ui_state := ui_state s; ui_pat := ui_pat s; ui_status := ui_status s; snap := snap s; wk := wk s; lock := lock s; canceled := canceled s; should_notify := should_notify s; tpc := tpc s; last_tick := last_tick s; notifies := notifies s; injectors := v; post := post s; g_snap_begin := g_snap_begin s; g_pub_begin := g_pub_begin s; g_owed := g_owed s |}.

Definition upd_post s v := {| streams := streams s; cur := cur s; next_sid := next_sid s; ui_state := ui_state s; ui_pat := ui_pat s; ui_status := ui_status s; snap := snap s; wk := wk s; lock := lock s; canceled := canceled s; should_notify := should_notify s; tpc := tpc s; last_tick := last_tick s; notifies := notifies s; injectors := injectors s; post := v; g_snap_begin := g_snap_begin s; g_pub_begin := g_pub_begin s; g_owed := g_owed s |}.

Definition w_upd (w : worker) running wc last inf ms p sid : worker :=
  {| w_running := running; w_was_canceled := wc; w_last := last; w_in_flight := inf; w_matches := ms; w_pat := p; w_sid := sid |}.

(* ---- item streams --------------------------------------------------------------------------------- *)
Fixpoint stream_of (sid : N) (l : list (N * list bool)) : list bool :=
  match l with [] => [] | (k, v) :: l' => if k =? sid then v else stream_of sid l' end.
Fixpoint set_stream (sid : N) (v : list bool) (l : list (N * list bool)) : list (N * list bool) :=
  match l with
  | [] => [(sid, v)]
  | (k, v') :: l' => if k =? sid then (k, v) :: l' else (k, v') :: set_stream sid v l'
  end.
Definition lenN {A} (l : list A) : N := N.of_nat (length l).
(* boxcar count / get (initialised?) of a stream *)
Definition count_of (s : nstate) (sid : N) : N := lenN (stream_of sid (streams s)).
Definition published (s : nstate) (sid i : N) : bool := nth (N.to_nat i) (stream_of sid (streams s)) false.
Fixpoint set_nth {A} (n : nat) (v : A) (l : list A) : list A :=
  match l, n with
  | [], _ => []
  | _ :: l', O => v :: l'
  | x :: l', S n' => x :: set_nth n' v l'
  end.

(* Worker::item_count *)
Definition item_count (w : worker) : N := w_last w - lenN (w_in_flight w).

(* ---- the worker's comparator and a reference sort ------------------------------------------------- *)
Section Scores.
Variable sc : N -> N -> N -> option N.   (* pattern, stream, index -> score of the item (None = no match) *)
Variable ln : N -> N -> N.               (* stream, index -> total length of the matcher columns *)

(* the closure given to par_quicksort in Worker::run *)
Definition match_less (sid : N) (a b : mtch) : bool :=
  if negb (m_score a =? m_score b) then m_score b <? m_score a
  else if m_idx a =? PLACEHOLDER then false
  else if m_idx b =? PLACEHOLDER then true
  else
    let la := ln sid (m_idx a) in let lb := ln sid (m_idx b) in
    if la =? lb then m_idx a <? m_idx b else la <? lb.

(* insertion sort with that comparator: the result the parallel sort must produce (C18: a sorted
   permutation is unique under a total order) *)
Fixpoint insert_by (less : mtch -> mtch -> bool) (x : mtch) (l : list mtch) : list mtch :=
  match l with
  | [] => [x]
  | y :: l' => if less y x then y :: insert_by less x l' else x :: l
  end.
Definition sort_matches (sid : N) (l : list mtch) : list mtch := fold_right (insert_by (match_less sid)) [] l.

(* ---- Worker::run, phase by phase ------------------------------------------------------------------ *)
(* reset_matches + remove_in_flight_matches: Match{0, idx} for idx in [0, last) except the indices still
   in flight; in_flight keeps exactly the indices that are still uninitialised.  `seen` tells which
   indices get() saw as initialised. *)
Definition reset_matches (seen : N -> bool) (w : worker) : worker :=
  let inf' := filter (fun i => negb (seen i)) (w_in_flight w) in
  let ms := map (fun k => {| m_score := 0; m_idx := N.of_nat k |}) (seq 0 (N.to_nat (w_last w))) in
  (* remove_in_flight_matches removes position (i - off) for each retained i in list order: with an
     ascending in_flight list that removes exactly the entries whose index is still in flight *)
  let ms' := filter (fun m => negb (existsb (N.eqb (m_idx m)) inf')) ms in
  w_upd w (w_running w) (w_was_canceled w) (w_last w) inf' ms' (w_pat w) (w_sid w).

(* process_new_items_trivial: new items [last, end): initialised -> Match{0, idx}; else -> in_flight *)
Definition scan_trivial (seen : N -> bool) (end_ : N) (w : worker) : worker :=
  let new := map (fun k => w_last w + N.of_nat k) (seq 0 (N.to_nat (end_ - w_last w))) in
  let ms := map (fun i => {| m_score := 0; m_idx := i |}) (filter seen new) in
  let inf := filter (fun i => negb (seen i)) new in
  w_upd w (w_running w) (w_was_canceled w) (N.max end_ (w_last w)) (w_in_flight w ++ inf) (w_matches w ++ ms) (w_pat w) (w_sid w).

(* process_new_items: retained in-flight items that are now initialised are scored; then the new items
   [last, end): uninitialised -> in_flight + placeholder; `canc`: the cancel flag is already set ->
   unscored Match{0, idx}; no match -> placeholder.  Returns the worker and the number of placeholders
   counted in `unmatched`.  The in_flight list is kept ascending (fix: it is sorted after the scan). *)
Definition scan_score (seen : N -> bool) (end_ : N) (canc : bool) (w : worker) : worker * N :=
  let p := w_pat w in let sid := w_sid w in
  let now := filter seen (w_in_flight w) in
  let inf_kept := filter (fun i => negb (seen i)) (w_in_flight w) in
  let scored_old := flat_map (fun i => match sc p sid i with Some s => [{| m_score := s; m_idx := i |}] | None => [] end) now in
  let new := map (fun k => w_last w + N.of_nat k) (seq 0 (N.to_nat (end_ - w_last w))) in
  let entry i :=
    if negb (seen i) then ({| m_score := 0; m_idx := PLACEHOLDER |}, 1)
    else if canc then ({| m_score := 0; m_idx := i |}, 0)
    else match sc p sid i with
         | Some s => ({| m_score := s; m_idx := i |}, 0)
         | None => ({| m_score := 0; m_idx := PLACEHOLDER |}, 1)
         end in
  let es := map entry new in
  let unm := fold_left (fun a e => a + snd e) es 0 in
  (w_upd w (w_running w) (w_was_canceled w) (N.max end_ (w_last w))
         (inf_kept ++ filter (fun i => negb (seen i)) new)
         (w_matches w ++ scored_old ++ map fst es) p sid, unm).

(* rescoring of the current matches (status <> Unchanged and matches non-empty); `canc` = the cancel flag
   is already set, in which case take_any_while stops before the first element *)
Definition rescore (canc : bool) (w : worker) : worker * N :=
  if canc then (w, 0) else
  let p := w_pat w in let sid := w_sid w in
  let f m :=
    if m_idx m =? PLACEHOLDER then (m, 1)
    else match sc p sid (m_idx m) with
         | Some s => ({| m_score := s; m_idx := m_idx m |}, 0)
         | None => ({| m_score := 0; m_idx := PLACEHOLDER |}, 1)
         end in
  let es := map f (w_matches w) in
  (w_upd w (w_running w) (w_was_canceled w) (w_last w) (w_in_flight w) (map fst es) p sid,
   fold_left (fun a e => a + snd e) es 0).

Definition pat_is_empty (p : N) : bool := p =? 0.

(* the work between run.start and the next yield point; `seen`: which indices of the worker's stream the
   scan / get saw initialised; end_: the count the snapshot iterator read *)
Definition run_work (seen : N -> bool) (end_ : N) (canc : bool) (status : pstatus) (cleared : bool) (w : worker)
  : worker * runpc :=
  let w0 := if cleared then w_upd w (w_running w) (w_was_canceled w) 0 [] [] (w_pat w) (w_sid w) else w in
  if pat_is_empty (w_pat w0) then
    (scan_trivial seen end_ (reset_matches seen w0), REnd true)
  else
    let w1 := match status with Rescore => reset_matches seen w0 | _ => w0 end in
    match status, w_matches w1 with
    | Unchanged, _ | _, [] =>
      let '(w2, unm) := scan_score seen end_ canc w1 in (w2, RSort unm)
    | _, _ :: _ =>
      let '(w2, unm) := rescore canc (scan_trivial seen end_ w1) in (w2, RSort unm)
    end.

(* the sort phase: par_quicksort reports `canceled` iff it saw the flag; otherwise the matches are sorted
   and the `unmatched` placeholders (which sort last) are truncated *)
Definition run_sort (canc : bool) (unm : N) (w : worker) : worker * runpc :=
  if canc then (w_upd w (w_running w) true (w_last w) (w_in_flight w) (w_matches w) (w_pat w) (w_sid w), REnd false)
  else
    let sorted := sort_matches (w_sid w) (w_matches w) in
    (w_upd w (w_running w) (w_was_canceled w) (w_last w) (w_in_flight w)
           (firstn (length sorted - N.to_nat unm) sorted) (w_pat w) (w_sid w), REnd true).

(* ---- tick_inner's body (with the guard held) ------------------------------------------------------ *)
(* returns the new state and (changed, running); when running it stops at tick.before_spawn *)
Definition tick_body (s : nstate) (cflag : bool) (status : pstatus) (second : bool) (changed1 : bool) (t0 : bool) : nstate :=
  let w := wk s in
  let changed := w_running w in
  let running := cflag || (item_count w <? count_of s (cur s)) in
  let s1 :=
    if w_running w then
      let w' := w_upd w false (w_was_canceled w) (w_last w) (w_in_flight w) (w_matches w) (w_pat w) (w_sid w) in
      let s' := upd_wk s w' in
      if negb (w_was_canceled w) && (match ui_state s with SFresh => true | _ => false end)
      then upd_snap s' {| sn_count := item_count w; sn_matches := w_matches w; sn_pat := w_pat w; sn_sid := w_sid w |}
      else s'
    else s in
  if running then
    let w1 := wk s1 in
    let s2 := upd_wk s1 (w_upd w1 (w_running w1) (w_was_canceled w1) (w_last w1) (w_in_flight w1) (w_matches w1) (ui_pat s1) (w_sid w1)) in
    let s3 := upd_canceled s2 false in
    let s4 := if cflag then s3 else upd_notify s3 true in
    let cleared := match ui_state s4 with SFresh => false | _ => true end in
    let w4 := wk s4 in
    let s5 := if cleared then upd_wk s4 (w_upd w4 (w_running w4) (w_was_canceled w4) (w_last w4) (w_in_flight w4) (w_matches w4) (w_pat w4) (cur s4)) else s4 in
    upd_tpc (upd_lock s5 HeldTick) (TBeforeSpawn cflag status cleared changed second changed1 t0)
  else
    (* guard dropped, tick_inner returns (changed, false) *)
    let s2 := upd_lock s1 Free in
    if second then upd_last_tick s2 (changed1 || changed, false)
    else if cflag then
      (* cannot happen: cflag implies running *)
      upd_last_tick s2 (changed, false)
    else upd_last_tick s2 (changed, false).

(* ---- events --------------------------------------------------------------------------------------- *)
Inductive event :=
| EReserve (sid : N)                 (* injector: fetch_add on that stream *)
| EPublish (sid i : N)               (* injector: store active *)
| ENewInjector (h : N)               (* Nucleo::injector() *)
| ECloneInjector (h h' : N)
| EDropInjector (h : N)
| EEdit (p : N) (append lastneg : bool)    (* MultiPattern::reparse: new pattern id, append flag, "last atom negative" *)
| ERestart (clear : bool)
| ETickBegin (timeout0 : bool)       (* tick(timeout) called; timeout0: timeout = 0, else a long timeout *)
| ETick                              (* the UI thread proceeds to its next yield point *)
| ERun (seen : list N) (end_ : N)    (* the background run proceeds to its next yield point; seen/end_ are
                                        only used by the scan phase *)
| EConfig.                           (* Nucleo::update_config with the configuration the Nucleo was created with *)

Definition enabled_tick (s : nstate) : bool :=
  match tpc s with
  | TIdle => false
  | TBeforeLock _ _ => match lock s with Free => true | _ => false end            (* lock_arc blocks *)
  | TBeforeTry _ _ t0 => if t0 then true else match lock s with Free => true | _ => false end
  | _ => true
  end.

(* Nucleo::update_config takes &mut self (no tick in progress) and locks the worker mutex: the call blocks
   while the tick / the run holds it *)
Definition enabled_config (s : nstate) : bool :=
  match tpc s with
  | TIdle => match lock s with Free => true | _ => false end
  | _ => false
  end.

Definition step_tick (s : nstate) : nstate :=
  match tpc s with
  | TIdle => s
  | TBegun t0 =>
    let status := ui_status s in
    let cflag := negb (pstatus_rank status =? 0) || (match ui_state s with SFresh => false | _ => true end) in
    if cflag then
      (* reset_status; canceled.store(true) *)
      upd_tpc (upd_canceled (upd_pat s (ui_pat s) Unchanged) true) (TBeforeLock status t0)
    else upd_tpc s (TBeforeTry false false t0)
  | TBeforeLock status t0 =>
    tick_body (upd_lock s HeldTick) true status false false t0
  | TBeforeTry second changed1 t0 =>
    match lock s with
    | Free => tick_body (upd_lock s HeldTick) false Unchanged second changed1 t0
    | _ => upd_tpc s (TTryFailed second changed1)
    end
  | TTryFailed second changed1 => upd_tpc (upd_notify s true) (TAfterRearm second changed1)
  | TAfterRearm second changed1 =>
    (* the run may have finished in the meantime: look at the lock once more *)
    match lock s with
    | Free => tick_body (upd_lock s HeldTick) false Unchanged second changed1 true
    | _ => upd_last_tick s (changed1, true)
    end
  | TBeforeSpawn cflag status cleared changed second changed1 t0 =>
    (* spawn: the guard moves into the closure; the run sets running / was_canceled and parks at run.start *)
    let w := wk s in
    let s1 := upd_wk s (w_upd w true false (w_last w) (w_in_flight w) (w_matches w) (w_pat w) (w_sid w)) in
    let s2 := upd_lock s1 (HeldRun RStart status cleared) in
    if second then upd_last_tick s2 (changed1 || changed, true)
    else if cflag then
      (* tick: state = Fresh; second tick_inner(timeout, false, Unchanged) *)
      upd_tpc (upd_ui_state s2 SFresh) (TBeforeTry true changed t0)
    else upd_last_tick s2 (changed, true)
  end.

Definition step_run (s : nstate) (seen : list N) (end_ : N) : nstate :=
  match post s with
  | PUnlocked completed =>
    (* fence; read the flag *)
    upd_post s (if completed && should_notify s then PNotify else PDone)
  | PNotify => let s' := upd_post (upd_notifies s (notifies s + 1)) PDone in upd_ghost s' (g_snap_begin s') (g_pub_begin s') false
  | PDone => upd_post s PNone
  | PNone =>
    match lock s with
    | HeldRun pc status cleared =>
      let w := wk s in
      match pc with
      | RStart =>
        let sid := w_sid w in
        let seenf i := existsb (N.eqb i) seen && published s sid i in
        let e := N.min end_ (count_of s sid) in
        let '(w', pc') := run_work seenf e (canceled s) status cleared w in
        upd_lock (upd_wk s w') (HeldRun pc' status cleared)
      | RSort unm =>
        let '(w', pc') := run_sort (canceled s) unm w in
        upd_lock (upd_wk s w') (HeldRun pc' status cleared)
      | REnd completed => upd_post (upd_lock s Free) (PUnlocked completed)
      end
    | _ => s
    end
  end.

Definition do_event (s : nstate) (e : event) : nstate :=
  match e with
  | EReserve sid => upd_streams s (set_stream sid (stream_of sid (streams s) ++ [false]) (streams s))
  | EPublish sid i => upd_streams s (set_stream sid (set_nth (N.to_nat i) true (stream_of sid (streams s))) (streams s))
  | ENewInjector h => match tpc s with TIdle => upd_injectors s ((h, cur s) :: injectors s) | _ => s end
  | ECloneInjector h h' =>
    match find (fun p => fst p =? h) (injectors s) with
    | Some (_, sid) => upd_injectors s ((h', sid) :: injectors s)
    | None => s
    end
  | EDropInjector h => upd_injectors s (filter (fun p => negb (fst p =? h)) (injectors s))
  | EEdit p append lastneg =>
    match tpc s with TIdle =>
    let st := if append && negb (pstatus_rank (ui_status s) =? 2) && negb lastneg then Update else Rescore in
    upd_pat s p st
    | _ => s end
  | ERestart clear =>
    match tpc s with TIdle =>
    let s1 := upd_canceled s true in
    let nsid := next_sid s1 in
    let s2 := upd_cur (upd_streams s1 (set_stream nsid [] (streams s1))) nsid (nsid + 1) in
    let s3 := upd_ui_state s2 SCleared in
    let s4 := upd_ghost s3 (g_snap_begin s3) (g_pub_begin s3) false in
    if clear then upd_snap s4 {| sn_count := 0; sn_matches := []; sn_pat := sn_pat (snap s4); sn_sid := nsid |} else s4
    | _ => s end
  | ETickBegin t0 =>
    match tpc s with
    | TIdle =>
      let s' := upd_tpc (upd_notify s false) (TBegun t0) in
      upd_ghost s' (snap s) (lenN (filter (fun b => b) (stream_of (cur s) (streams s)))) false
    | _ => s
    end
  | ETick => if enabled_tick s then step_tick s else s
  | ERun seen end_ => step_run s seen end_
  | EConfig =>
    (* when enabled_config s: worker.lock(), every matcher's config overwritten with the value it already has,
       unlock - all between two yield points, so the lock is Free again; neither flag, the snapshot nor the
       worker's bookkeeping is touched.  A disabled EConfig (the call would block) is no step, like a disabled
       ETick: the state is unchanged either way *)
    s
  end.

Fixpoint run_events (s : nstate) (es : list event) : nstate :=
  match es with [] => s | e :: es' => run_events (do_event s e) es' end.

(* Nucleo::active_injectors: Arc::strong_count(items) - state.matcher_item_refs() - ptr_eq(snapshot.items, items) *)
Definition strong_count_cur (s : nstate) : N :=
  1 (* Nucleo.items *) + (if w_sid (wk s) =? cur s then 1 else 0) + (if sn_sid (snap s) =? cur s then 1 else 0)
  + lenN (filter (fun p => snd p =? cur s) (injectors s)).
Definition active_injectors (s : nstate) : N :=
  strong_count_cur s - (match ui_state s with SCleared => 1 | _ => 2 end) - (if sn_sid (snap s) =? cur s then 1 else 0).

End Scores.

End Nucleo.
