(* Model of nucleo-matcher's matching algorithms: score.rs, prefilter.rs, fuzzy_greedy.rs,
   fuzzy_optimal.rs, exact.rs, matrix.rs (allocation guard) and the dispatch in lib.rs.
   Definitions only (no proofs), so the model still extracts when a proof breaks.

   Conventions: code points, positions, scores are N; a string is a list of code points plus the tag of
   the representation it is held in.  Scores are accumulated with the saturating u16 operations the code
   uses (sadd16 / N.sub which truncates at 0 like saturating_sub).  A Rust panic is the outcome Panicked.
   One model function returns score and indices together: the const-generic INDICES flag of the Rust
   code only guards writes to `indices` / `matrix_cells` (validated by running both variants). *)
From Coq Require Import NArith List Bool.
From NV Require Export Model.Chars.
Import ListNotations.
Local Open Scope N_scope.

Record ustr := { rp : repr; cs : list N }.

Inductive outcome :=
| NoMatch
| Match (score : N) (indices : list N)
| Panicked (site : N).   (* 1: "should have been caught by prefilter" assert; 2: unwrap/expect; 3: slice *)

Definition lenN {A} (l : list A) : N := N.of_nat (length l).
Definition nthN {A} (l : list A) (i : N) (d : A) : A := nth (N.to_nat i) l d.
Definition takeN {A} (n : N) (l : list A) : list A := firstn (N.to_nat n) l.
Definition dropN {A} (n : N) (l : list A) : list A := skipn (N.to_nat n) l.
Definition sliceN {A} (a b : N) (l : list A) : list A := takeN (b - a) (dropN a l).
Definition lastN (l : list N) : N := last l 0.

Definition U16MAX : N := 65535.
(* u16::saturating_add (the code's score accumulation after the overflow fix) *)
Definition sadd16 (a b : N) : N := N.min U16MAX (a + b).

(* ---- score.rs ------------------------------------------------------------------------------------ *)
Definition bonus_for (cfg : config) (prev cur : cls) : N :=
  let boundary :=
    if cls_rank CDelimiter <? cls_rank cur then
      match prev with
      | CWhitespace => Some (bonus_white cfg)
      | CDelimiter => Some (bonus_delim cfg)
      | CNonWord => Some BONUS_BOUNDARY
      | _ => None
      end
    else None in
  match boundary with
  | Some b => b
  | None =>
    if (cls_eqb prev CLower && cls_eqb cur CUpper) || (negb (cls_eqb prev CNumber) && cls_eqb cur CNumber)
    then BONUS_CAMEL123
    else if cls_eqb cur CWhitespace then bonus_white cfg
    else if cls_eqb cur CNonWord then BONUS_NON_WORD
    else 0
  end.

(* class of the character before position `start` (or the configured initial class) *)
Definition prev_class (cfg : config) (hr : repr) (h : list N) (start : N) : cls :=
  if start =? 0 then init_class cfg else class cfg hr (nthN h (start - 1) 0).

(* the loop of calculate_score over haystack[start+1..end]; i is the absolute index of the head *)
Fixpoint cs_loop (cfg : config) (hr : repr) (hs : list N) (i : N) (nrest : list N) (nc : N)
         (prev : cls) (in_gap in_run : bool) (fb score : N) (acc : list N) : N * list N :=
  match hs with
  | [] => (score, frev acc)
  | c0 :: hs' =>
    let '(c, k) := class_norm cfg hr c0 in
    if c =? nc then
      let b := bonus_for cfg prev k in
      let '(fb', b') :=
        if in_run then
          let fb1 := if (BONUS_BOUNDARY <=? b) && (fb <? b) then b else fb in
          (fb1, N.max (N.max b fb1) BONUS_CONSECUTIVE)
        else (b, b) in
      let '(nc', nrest') := match nrest with [] => (nc, []) | x :: r => (x, r) end in
      cs_loop cfg hr hs' (i + 1) nrest' nc' k false true fb' (sadd16 score (SCORE_MATCH + b')) (i :: acc)
    else
      let pen := if in_gap then PENALTY_GAP_EXTENSION else PENALTY_GAP_START in
      cs_loop cfg hr hs' (i + 1) nrest nc k true false fb (score - pen) acc
  end.

(* prefix bonus added by calculate_score when prefer_prefix is set *)
Definition prefix_bonus_linear (start : N) : N :=
  if start =? 0 then MAX_PREFIX_BONUS
  else
    let penalty := sadd16 PENALTY_GAP_START (N.min U16MAX (PENALTY_GAP_START * N.min (start - 1) U16MAX)) in
    MAX_PREFIX_BONUS - penalty / PREFIX_BONUS_SCALE.

(* Matcher::calculate_score; needle must be non-empty (unwrap), start < |haystack| *)
Definition calculate_score (cfg : config) (hr : repr) (h : list N) (n : list N) (start end_ : N) : outcome :=
  match n with
  | [] => Panicked 2
  | n0 :: nrest =>
    if lenN h <=? start then Panicked 3 else
    let pc := prev_class cfg hr h start in
    let k0 := class cfg hr (nthN h start 0) in
    let fb := bonus_for cfg pc k0 in
    let score0 := SCORE_MATCH + fb * BONUS_FIRST_CHAR_MULTIPLIER in
    let '(nc, nrest') := match nrest with [] => (n0, []) | x :: r => (x, r) end in
    let '(score, idx) := cs_loop cfg hr (sliceN (start + 1) end_ h) (start + 1) nrest' nc k0 false true fb score0 [start] in
    let score' := if prefer_prefix cfg then sadd16 score (prefix_bonus_linear start) else score in
    Match score' idx
  end.

(* ---- prefilter.rs -------------------------------------------------------------------------------- *)
(* does haystack byte b match needle byte c under find_ascii_ignore_case / plain memchr *)
Definition byte_matches (ci : bool) (c b : N) : bool :=
  if ci && in_range 97 122 c then (b =? c) || (b =? c - 32) else b =? c.

(* first position satisfying p *)
Fixpoint position {A} (p : A -> bool) (l : list A) : option N :=
  match l with
  | [] => None
  | x :: l' => if p x then Some 0 else match position p l' with Some k => Some (k + 1) | None => None end
  end.
(* last position satisfying p *)
Definition rposition {A} (p : A -> bool) (l : list A) : option N :=
  match position p (frev l) with Some k => Some (lenN l - 1 - k) | None => None end.

(* greedy forward scan: consumes needle chars in order, returns the number of haystack elements
   consumed up to and including the match of the last needle char *)
Fixpoint scan_fwd {A} (m : N -> A -> bool) (n : list N) (hs : list A) : option N :=
  match n with
  | [] => Some 0
  | nc :: n' =>
    (fix go (hs : list A) : option N :=
       match hs with
       | [] => None
       | x :: hs' =>
         if m nc x then match scan_fwd m n' hs' with Some k => Some (k + 1) | None => None end
         else match go hs' with Some k => Some (k + 1) | None => None end
       end) hs
  end.

(* Matcher::prefilter_ascii -> (start, greedy_end, end) *)
Definition prefilter_ascii (cfg : config) (h n : list N) (only_greedy : bool) : option (N * N * N) :=
  let ci := ignore_case cfg in
  match n with
  | [] => None
  | n0 :: nrest =>
    match position (byte_matches ci n0) (takeN (lenN h - lenN n + 1) h) with
    | None => None
    | Some start =>
      match scan_fwd (byte_matches ci) nrest (dropN (start + 1) h) with
      | None => None
      | Some k =>
        let greedy_end := start + 1 + k in
        if only_greedy then Some (start, greedy_end, greedy_end)
        else
          let rest := dropN greedy_end h in
          let end_ := greedy_end + match rposition (byte_matches ci (lastN n)) rest with Some i => i + 1 | None => 0 end in
          Some (start, greedy_end, end_)
      end
    end
  end.

(* Matcher::prefilter_non_ascii -> (start, end) *)
Definition prefilter_non_ascii (cfg : config) (h n : list N) (only_greedy : bool) : option (N * N) :=
  match n with
  | [] => None
  | n0 :: _ =>
    match position (fun c => norm cfg Unicode c =? n0) (takeN (lenN h - lenN n + 1) h) with
    | None => None
    | Some start =>
      if only_greedy then
        if lenN h - start <? lenN n then None else Some (start, start + 1)
      else
        match position (fun c => norm cfg Unicode c =? lastN n) (frev (dropN (start + 1) h)) with
        | None => None
        | Some k =>
          let end_ := lenN h - k in
          if end_ - start <? lenN n then None else Some (start, end_)
        end
    end
  end.

(* ---- fuzzy_greedy.rs ----------------------------------------------------------------------------- *)
(* reverse minimisation: scan haystack[start..end] backwards matching the needle backwards; returns the
   offset (relative to start) at which the first needle char was matched, if the scan completes *)
Fixpoint scan_bwd (cfg : config) (hr : repr) (nrev : list N) (hrev : list N) (i : N) : option N :=
  (* hrev: reversed window, i: index (relative to start) of its head; nrev: reversed needle still to match *)
  match hrev with
  | [] => None
  | c :: hrev' =>
    match nrev with
    | [] => None
    | nc :: nrev' =>
      if norm cfg hr c =? nc then
        match nrev' with
        | [] => Some i
        | _ => scan_bwd cfg hr nrev' hrev' (i - 1)
        end
      else scan_bwd cfg hr nrev hrev' (i - 1)
    end
  end.

(* Matcher::fuzzy_match_greedy_ *)
Definition fuzzy_greedy_ (cfg : config) (hr nr : repr) (h n : list N) (start end_ : N) : outcome :=
  let both_ascii := match hr, nr with Ascii, Ascii => true | _, _ => false end in
  let first_char_end := if both_ascii then start + 1 else end_ in
  let end1 :=
    if both_ascii then Some end_
    else
      match n with
      | _ :: ((_ :: _) as nrest) =>
        match scan_fwd (fun nc c => norm cfg hr c =? nc) nrest (dropN first_char_end h) with
        | Some k => Some (first_char_end + k)
        | None => None
        end
      | _ => Some end_
      end in
  match end1 with
  | None => NoMatch
  | Some e =>
    let w := sliceN start e h in
    let start' := match scan_bwd cfg hr (frev n) (frev w) (lenN w - 1) with Some i => start + i | None => start end in
    calculate_score cfg hr h n start' e
  end.

(* ---- matrix.rs: MatrixSlab::alloc guard ---------------------------------------------------------- *)
Definition round_up (x a : N) : N := (x + a - 1) / a * a.
Definition char_size (hr : repr) : N := match hr with Ascii => 1 | Unicode => 4 end.
(* Layout size computed by MatrixLayout::new *)
Definition layout_size (hr : repr) (hl nl : N) : N :=
  let s1 := layout_count_haystack hl nl * char_size hr in
  let s2 := s1 + layout_count_bonus hl nl in
  let s3 := round_up s2 2 + 2 * layout_count_rows hl nl in
  let s4 := round_up s3 8 + 8 * layout_count_score hl nl in
  s4 + layout_count_matrix hl nl.
Definition slab_alloc_ok (hr : repr) (hl nl : N) : bool :=
  negb (alloc_refuses hl nl) && (layout_size hr hl nl <=? SLAB_SIZE).

(* ---- fuzzy_optimal.rs ---------------------------------------------------------------------------- *)
Record cell := { sc : N; cb : N; mt : bool }.
Definition UNMATCHED : cell := {| sc := 0; cb := 0; mt := true |}.
Definition ZERO_CELL : cell := {| sc := 0; cb := 0; mt := false |}.   (* alloc_zeroed *)
Definition cell_eqb (a b : cell) : bool := (sc a =? sc b) && (cb a =? cb b) && Bool.eqb (mt a) (mt b).

Definition next_m_cell (p_score bonus : N) (m : cell) : cell :=
  if cell_eqb m UNMATCHED then {| sc := p_score + bonus + SCORE_MATCH; cb := bonus; mt := false |}
  else
    let cb0 := N.max (cb m) BONUS_CONSECUTIVE in
    let cb1 := if (BONUS_BOUNDARY <=? bonus) && (cb0 <? bonus) then bonus else cb0 in
    let score_match := sc m + N.max cb1 bonus in
    let score_skip := p_score + bonus in
    if score_skip <? score_match then {| sc := score_match + SCORE_MATCH; cb := cb1; mt := true |}
    else {| sc := score_skip + SCORE_MATCH; cb := bonus; mt := false |}.

Definition p_score (prev_p prev_m : N) : N * bool :=
  let sm := prev_m - PENALTY_GAP_START in
  let ss := prev_p - PENALTY_GAP_EXTENSION in
  if ss <? sm then (sm, true) else (ss, false).

(* MatcherDataView::setup, first part: normalised window, bonus per column, row offsets, matched *)
Fixpoint setup_loop (cfg : config) (hr : repr) (hs : list N) (i : N) (prev : cls)
         (nc : N) (nrest : list N) (matched : bool) : list N * list N * list N * bool :=
  (* returns (normalised chars, bonuses, row_offs in order, matched) *)
  match hs with
  | [] => ([], [], [], matched)
  | c0 :: hs' =>
    let '(c, k) := class_norm cfg hr c0 in
    let b := bonus_for cfg prev k in
    if c =? nc then
      match nrest with
      | x :: r =>
        let '(cs', bs', ro, m) := setup_loop cfg hr hs' (i + 1) k x r matched in
        (c :: cs', b :: bs', i :: ro, m)
      | [] =>
        let '(cs', bs', ro, m) := setup_loop cfg hr hs' (i + 1) k nc [] true in
        (c :: cs', b :: bs', (if matched then ro else i :: ro), m)
      end
    else
      let '(cs', bs', ro, m) := setup_loop cfg hr hs' (i + 1) k nc nrest matched in
      (c :: cs', b :: bs', ro, m)
  end.

(* two-bit back-pointer cell: (p_matched, m_matched) *)
Definition mcell := (bool * bool)%type.

(* first loop of score_row: the columns [row_off, next_row_off) whose score cells are only read *)
Fixpoint skip_pass (first : bool) (nc : N) (hs bs : list N) (rs : list cell) (pp pm pfx : N)
  : N * N * N * list mcell :=
  match hs, bs, rs with
  | c :: hs', b :: bs', r :: rs' =>
    let '(p, pmatched) := p_score pp pm in
    let m_cell :=
      if first then
        if c =? nc then {| sc := b * BONUS_FIRST_CHAR_MULTIPLIER + SCORE_MATCH + pfx / PREFIX_BONUS_SCALE; cb := b; mt := false |}
        else UNMATCHED
      else r in
    let pfx' := if first then pfx - PENALTY_GAP_EXTENSION else pfx in
    let '(pp', pm', pfx'', cells) := skip_pass first nc hs' bs' rs' p (sc m_cell) pfx' in
    (pp', pm', pfx'', (pmatched, mt m_cell) :: cells)
  | _, _, _ => (pp, pm, pfx, [])
  end.

(* second loop of score_row: windows(2) over the columns from next_row_off on, updating the row *)
Fixpoint main_pass (first : bool) (nc nnc : N) (hs bs : list N) (rs : list cell) (pp pm pfx : N)
  : list cell * list mcell :=
  match hs, bs, rs with
  | c0 :: ((c1 :: _) as hs'), b0 :: ((b1 :: _) as bs'), r :: rs' =>
    let '(p, pmatched) := p_score pp pm in
    let m_cell :=
      if first then
        if c0 =? nc then {| sc := b0 * BONUS_FIRST_CHAR_MULTIPLIER + SCORE_MATCH + pfx / PREFIX_BONUS_SCALE; cb := b0; mt := false |}
        else UNMATCHED
      else r in
    let pfx' := if first then pfx - PENALTY_GAP_EXTENSION else pfx in
    let r' := if c1 =? nnc then next_m_cell p b1 m_cell else UNMATCHED in
    let '(rs'', cells) := main_pass first nc nnc hs' bs' rs' p (sc m_cell) pfx' in
    (r' :: rs'', (pmatched, mt m_cell) :: cells)
  | _, _, _ => (rs, [])
  end.

(* MatcherDataView::score_row; returns the new current_row and this row's back-pointer cells.
   u16 subtractions that would underflow are reported as None (debug builds panic there). *)
Definition score_row (first : bool) (row : list cell) (hw bs : list N) (row_off next_row_off needle_idx : N)
           (nc nnc : N) (pfx : N) : option (list cell * list mcell) :=
  if (next_row_off =? 0) || (row_off <? needle_idx) || (next_row_off - 1 <? needle_idx) || (next_row_off - 1 <? row_off) then None else
  let nro := next_row_off - 1 in
  let rel := row_off - needle_idx in
  let nrel := nro - needle_idx in
  let '(pp, pm, pfx', cells1) :=
    skip_pass first nc (sliceN row_off nro hw) (sliceN row_off nro bs) (sliceN rel nrel row) 0 0 pfx in
  let '(tail', cells2) := main_pass first nc nnc (dropN nro hw) (dropN nro bs) (dropN nrel row) pp pm pfx' in
  Some (takeN nrel row ++ tail', cells1 ++ cells2).

(* prefix bonus handed to the first-row pass *)
Definition prefix_bonus_dp (cfg : config) (start : N) : N :=
  if prefer_prefix cfg then
    if start =? 0 then MAX_PREFIX_BONUS * PREFIX_BONUS_SCALE
    else (MAX_PREFIX_BONUS * PREFIX_BONUS_SCALE - PENALTY_GAP_START) - N.min (start - 1) U16MAX * PENALTY_GAP_EXTENSION
  else 0.

(* populate_matrix: rows 1 .. m-2 (needle_idx = row number); returns final row and all rows' cells *)
Fixpoint populate (row : list cell) (hw bs : list N) (idx : N) (n : list N) (ro : list N)
  : option (list cell * list (list mcell)) :=
  (* n = needle[idx..], ro = row_offs[idx..] *)
  match n, ro with
  | nc :: ((nnc :: _) as n'), off :: ((noff :: _) as ro') =>
    match score_row false row hw bs off noff idx nc nnc 0 with
    | None => None
    | Some (row', cells) =>
      match populate row' hw bs (idx + 1) n' ro' with
      | None => None
      | Some (rowf, rest) => Some (rowf, cells :: rest)
      end
    end
  | _, _ => Some (row, [])
  end.

(* position and value of the LAST maximal score (Iterator::max_by_key) *)
Fixpoint argmax_last (l : list cell) (i : N) (best : option (N * cell)) : option (N * cell) :=
  match l with
  | [] => best
  | c :: l' =>
    let best' := match best with
                 | Some (_, bc) => if sc c <? sc bc then best else Some (i, c)
                 | None => Some (i, c)
                 end in
    argmax_last l' (i + 1) best'
  end.

Definition mcell_get (c : mcell) (m_matrix : bool) : bool := if m_matrix then snd c else fst c.

(* reconstruct_optimal_path.  rows: the not yet visited rows as (row index, row offset, back-pointer
   cells), upper rows later; rc: the cells of the current row from column `col` down to column 0
   (so the walk is linear).  Returns the (row index, absolute index) pairs that were set; fuel bounds
   the loop by window length + needle length.  None = a u16 underflow / out-of-range index (panic). *)
Fixpoint reconstruct (fuel : nat) (start : N) (ridx roff : N) (rc : list mcell)
         (rows : list (N * N * list mcell)) (col : N) (matched : bool) (acc : list (N * N))
  : option (list (N * N)) :=
  match fuel with
  | O => None
  | S fuel' =>
    match rc with
    | [] => None
    | c :: rc' =>
      let acc' := if matched then (ridx, start + col + roff) :: acc else acc in
      let next_matched := mcell_get c matched in
      if matched then
        match rows with
        | [] => Some acc'
        | (ridx', roff', rowc') :: rows' =>
          if (roff <? roff') || (col + (roff - roff') =? 0) then None else
          let col' := col + (roff - roff') - 1 in
          if lenN rowc' <=? col' then None else
          reconstruct fuel' start ridx' roff' (frev (takeN (col' + 1) rowc')) rows' col' next_matched acc'
        end
      else
        if col =? 0 then None else reconstruct fuel' start ridx roff rc' rows (col - 1) next_matched acc'
    end
  end.

Fixpoint zip3 {A B C} (a : list A) (b : list B) (c : list C) : list (A * B * C) :=
  match a, b, c with
  | x :: a', y :: b', z :: c' => (x, y, z) :: zip3 a' b' c'
  | _, _, _ => []
  end.

(* fills a list of row indices with the reconstructed positions; unset rows keep 0 (indices.resize(.., 0)) *)
Definition assemble (m : N) (last_idx : N) (set : list (N * N)) : list N :=
  map (fun r => if r =? m - 1 then last_idx
                else match find (fun p => fst p =? r) set with Some p => snd p | None => 0 end)
      (map N.of_nat (seq 0 (N.to_nat m))).

(* Matcher::fuzzy_match_optimal.  init_row: content of the scratch row before the call. *)
Definition fuzzy_optimal (cfg : config) (hr nr : repr) (h n : list N) (start greedy_end end_ : N)
           (init_row : list cell) : outcome :=
  let w := sliceN start end_ h in
  let W := lenN w in
  let m := lenN n in
  if negb (slab_alloc_ok hr W m) then fuzzy_greedy_ cfg hr nr h n start greedy_end else
  match n with
  | n0 :: ((n1 :: _) as nrest) =>
    let pc := prev_class cfg hr h start in
    let '(hw, bs, ro, matched) := setup_loop cfg hr w 0 pc n0 nrest false in
    if negb matched then
      match hr, nr with Ascii, Ascii => Panicked 1 | _, _ => NoMatch end
    else
      let width := W + 1 - m in
      let row0 := takeN width (init_row ++ repeat ZERO_CELL (N.to_nat width)) in
      match score_row true row0 hw bs 0 (nthN ro 1 0) 0 n0 n1 (prefix_bonus_dp cfg start) with
      | None => Panicked 3
      | Some (row1, cells0) =>
        match populate row1 hw bs 1 nrest (tl ro) with
        | None => Panicked 3
        | Some (rowf, cells_rest) =>
          let last_off := nthN ro (m - 1) 0 in
          if last_off + 1 <? m then Panicked 3 else
          let rel_last := last_off + 1 - m in
          match argmax_last (dropN rel_last rowf) 0 None with
          | None => Panicked 2
          | Some (match_end, best) =>
            let all_cells := cells0 :: cells_rest in     (* rows 0 .. m-2 *)
            let rows := frev (zip3 (map N.of_nat (seq 0 (N.to_nat (m - 1)))) (takeN (m - 1) ro) all_cells) in
            match rows with
            | [] => Panicked 2
            | (ridx, roff, rowc) :: rows' =>
              if last_off <=? roff then Panicked 3 else
              let col := match_end + (last_off - roff - 1) in
              if lenN rowc <=? col then Panicked 3 else
              match reconstruct (S (N.to_nat (W + m))) start ridx roff (frev (takeN (col + 1) rowc)) rows' col (mt best) [] with
              | None => Panicked 3
              | Some set => Match (sc best) (assemble m (start + match_end + last_off) set)
              end
            end
          end
        end
      end
  | _ => Panicked 2
  end.

(* ---- exact.rs ------------------------------------------------------------------------------------ *)
(* Config::max_bonus *)
Definition max_bonus (cfg : config) : N := N.max (N.max (bonus_white cfg) (bonus_delim cfg)) BONUS_BOUNDARY.

(* scan candidate positions in ascending order keeping the first position with the strictly best
   score; stop once the bonus cannot get better *)
Fixpoint best_pos (cfg : config) (cands : list (N * N)) (* (position, bonus) *) (best : option (N * N)) : option (N * N) :=
  match cands with
  | [] => best
  | (i, b) :: cs' =>
    let score := b * BONUS_FIRST_CHAR_MULTIPLIER + SCORE_MATCH in
    let better := match best with Some (_, s) => s <? score | None => 0 <? score end in
    if better then
      if max_bonus cfg <=? b then Some (i, score) else best_pos cfg cs' (Some (i, score))
    else best_pos cfg cs' best
  end.

(* candidate positions with their bonus, in one left-to-right pass carrying the previous class:
   every position i (absolute, starting at i for the head of hs) whose suffix satisfies p *)
Fixpoint scan_cands (cfg : config) (hr : repr) (p : list N -> bool) (hs : list N) (i : N) (prev : cls)
  : list (N * N) :=
  match hs with
  | [] => []
  | c :: hs' =>
    let k := class cfg hr c in
    let rest := scan_cands cfg hr p hs' (i + 1) k in
    if p hs then (i, bonus_for cfg prev k) :: rest else rest
  end.

Definition head_is (f : N -> bool) (l : list N) : bool := match l with c :: _ => f c | [] => false end.

(* the needle is a prefix of the normalised suffix hs *)
Fixpoint prefix_match (cfg : config) (hr : repr) (n hs : list N) : bool :=
  match n, hs with
  | [], _ => true
  | x :: n', c :: hs' => (norm cfg hr c =? x) && prefix_match cfg hr n' hs'
  | _ :: _, [] => false
  end.

(* Matcher::substring_match_1_ascii *)
Definition substring_1_ascii (cfg : config) (h : list N) (c : N) : outcome :=
  match best_pos cfg (scan_cands cfg Ascii (head_is (byte_matches (ignore_case cfg) c)) h 0 (init_class cfg)) None with
  | None => NoMatch
  | Some (i, s) => Match s [i]
  end.

(* Matcher::substring_match_1_non_ascii (from `start` on) *)
Definition substring_1_non_ascii (cfg : config) (h : list N) (c : N) (start : N) : outcome :=
  match best_pos cfg (scan_cands cfg Unicode (head_is (fun x => fst (class_norm cfg Unicode x) =? c))
                                 (dropN start h) start (prev_class cfg Unicode h start)) None with
  | None => Match 0 [start]
  | Some (i, s) => Match s [i]
  end.

(* Matcher::substring_match_ascii: candidate positions come from one of four prefilters; all of them
   enumerate (in ascending order) positions that are then verified, so the candidate list is the list of
   occurrences filtered by the prefilter's own condition.  Modelled after the fixes: the candidates are
   exactly the occurrences of the needle (overlapping ones included). *)
Definition substring_ascii (cfg : config) (h n : list N) : outcome :=
  match best_pos cfg (scan_cands cfg Ascii (prefix_match cfg Ascii n) h 0 (init_class cfg)) None with
  | None => NoMatch
  | Some (i, _) => calculate_score cfg Ascii h n i (i + lenN n)
  end.

(* Matcher::substring_match_non_ascii: scans haystack[start ..= len - |n|] *)
Definition substring_non_ascii (cfg : config) (nr : repr) (h n : list N) (start : N) : outcome :=
  match best_pos cfg (scan_cands cfg Unicode (prefix_match cfg Unicode n) (dropN start h) start
                                 (prev_class cfg Unicode h start)) None with
  | None => NoMatch
  | Some (i, _) => calculate_score cfg Unicode h n i (i + lenN n)
  end.

(* ---- lib.rs -------------------------------------------------------------------------------------- *)
(* Matcher::exact_match_impl *)
Definition exact_impl (cfg : config) (hs ns : ustr) (start end_ : N) : outcome :=
  let h := cs hs in let n := cs ns in
  if negb (lenN n =? end_ - start) then NoMatch else
  match rp hs, rp ns with
  | Ascii, Unicode => NoMatch
  | hr, nr =>
    let w := sliceN start end_ h in
    let matched :=
      match hr, nr with
      | Ascii, Ascii =>
        if ignore_case cfg then
          forallb (fun p => norm cfg Ascii (fst p) =? norm cfg Ascii (snd p)) (combine w n)
        else forallb (fun p => fst p =? snd p) (combine w n)
      | _, _ => forallb (fun p => norm cfg hr (fst p) =? norm cfg nr (snd p)) (combine w n)
      end in
    if matched && (lenN w =? lenN n) then calculate_score cfg hr h n start end_ else NoMatch
  end.

Definition is_ws (r : repr) (c : N) : bool :=
  match r with Ascii => std_is_ascii_whitespace c | Unicode => std_is_whitespace c end.
Definition leading_ws (s : ustr) : N :=
  match position (fun c => negb (is_ws (rp s) c)) (cs s) with Some k => k | None => 0 end.
Definition trailing_ws (s : ustr) : N :=
  match position (fun c => negb (is_ws (rp s) c)) (frev (cs s)) with Some k => k | None => 0 end.
(* needle.first()/last() are `char`s: char::is_whitespace *)
Definition char_is_ws (c : N) : bool := std_is_whitespace c.

Inductive algo := Fuzzy | FuzzyGreedy | Substring | Prefix | Postfix | Exact.

Definition fuzzy_impl (cfg : config) (hs ns : ustr) (init_row : list cell) : outcome :=
  let h := cs hs in let n := cs ns in
  if lenN h <? lenN n then NoMatch else
  match n with
  | [] => Match 0 []
  | n0 :: nrest =>
    if lenN n =? lenN h then exact_impl cfg hs ns 0 (lenN h) else
    match rp hs, rp ns with
    | Ascii, Ascii =>
      match nrest with
      | [] => substring_1_ascii cfg h n0
      | _ =>
        match prefilter_ascii cfg h n false with
        | None => NoMatch
        | Some (start, greedy_end, end_) =>
          if lenN n =? end_ - start then calculate_score cfg Ascii h n start greedy_end
          else fuzzy_optimal cfg Ascii Ascii h n start greedy_end end_ init_row
        end
      end
    | Ascii, Unicode => NoMatch
    | Unicode, nr =>
      match nrest with
      | [] =>
        match prefilter_non_ascii cfg h n true with
        | None => NoMatch
        | Some (start, _) => substring_1_non_ascii cfg h n0 start
        end
      | _ =>
        match prefilter_non_ascii cfg h n false with
        | None => NoMatch
        | Some (start, end_) =>
          if lenN n =? end_ - start then exact_impl cfg hs ns start end_
          else fuzzy_optimal cfg Unicode nr h n start (start + 1) end_ init_row
        end
      end
    end
  end.

Definition fuzzy_greedy_impl (cfg : config) (hs ns : ustr) : outcome :=
  let h := cs hs in let n := cs ns in
  if lenN h <? lenN n then NoMatch else
  match n with
  | [] => Match 0 []
  | _ =>
    if lenN n =? lenN h then exact_impl cfg hs ns 0 (lenN h) else
    match rp hs, rp ns with
    | Ascii, Ascii =>
      match prefilter_ascii cfg h n true with
      | None => NoMatch
      | Some (start, greedy_end, _) =>
        if lenN n =? greedy_end - start then calculate_score cfg Ascii h n start greedy_end
        else fuzzy_greedy_ cfg Ascii Ascii h n start greedy_end
      end
    | Ascii, Unicode => NoMatch
    | Unicode, nr =>
      match prefilter_non_ascii cfg h n true with
      | None => NoMatch
      | Some (start, _) => fuzzy_greedy_ cfg Unicode nr h n start (start + 1)
      end
    end
  end.

Definition substring_impl (cfg : config) (hs ns : ustr) : outcome :=
  let h := cs hs in let n := cs ns in
  if lenN h <? lenN n then NoMatch else
  match n with
  | [] => Match 0 []
  | n0 :: nrest =>
    if lenN n =? lenN h then exact_impl cfg hs ns 0 (lenN h) else
    match rp hs, rp ns with
    | Ascii, Ascii =>
      match nrest with
      | [] => substring_1_ascii cfg h n0
      | _ => substring_ascii cfg h n
      end
    | Ascii, Unicode => NoMatch
    | Unicode, nr =>
      match nrest with
      | [] =>
        match prefilter_non_ascii cfg h n true with
        | None => NoMatch
        | Some (start, _) => substring_1_non_ascii cfg h n0 start
        end
      | _ =>
        match prefilter_non_ascii cfg h n false with
        | None => NoMatch
        | Some (start, _) => substring_non_ascii cfg nr h n start
        end
      end
    end
  end.

Definition exact_entry (cfg : config) (hs ns : ustr) : outcome :=
  match cs ns with
  | [] => Match 0 []
  | n0 :: _ =>
    let lead := if char_is_ws n0 then 0 else leading_ws hs in
    let trail := if char_is_ws (lastN (cs ns)) then 0 else trailing_ws hs in
    if trail =? lenN (cs hs) then NoMatch
    else if lenN (cs hs) - trail <? lead then Panicked 3   (* usize underflow in end - start *)
    else exact_impl cfg hs ns lead (lenN (cs hs) - trail)
  end.

Definition prefix_entry (cfg : config) (hs ns : ustr) : outcome :=
  match cs ns with
  | [] => Match 0 []
  | n0 :: _ =>
    let lead := if char_is_ws n0 then 0 else leading_ws hs in
    if lenN (cs hs) - lead <? lenN (cs ns) then NoMatch
    else exact_impl cfg hs ns lead (lenN (cs ns) + lead)
  end.

Definition postfix_entry (cfg : config) (hs ns : ustr) : outcome :=
  match cs ns with
  | [] => Match 0 []
  | _ =>
    let trail := if char_is_ws (lastN (cs ns)) then 0 else trailing_ws hs in
    if lenN (cs hs) - trail <? lenN (cs ns) then NoMatch
    else exact_impl cfg hs ns (lenN (cs hs) - lenN (cs ns) - trail) (lenN (cs hs) - trail)
  end.

Definition run (cfg : config) (a : algo) (hs ns : ustr) : outcome :=
  match a with
  | Fuzzy => fuzzy_impl cfg hs ns []
  | FuzzyGreedy => fuzzy_greedy_impl cfg hs ns
  | Substring => substring_impl cfg hs ns
  | Prefix => prefix_entry cfg hs ns
  | Postfix => postfix_entry cfg hs ns
  | Exact => exact_entry cfg hs ns
  end.
