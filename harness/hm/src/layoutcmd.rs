//! `hm layout FILE`: lines "<haystack_len> <needle_len> <A|U>" -> what MatrixSlab::alloc would hand out
use nucleo_matcher::verif;
use std::io::{BufRead, Write};

pub fn run(file: &str) {
    let f = std::io::BufReader::new(std::fs::File::open(file).unwrap());
    let stdout = std::io::stdout();
    let mut out = std::io::BufWriter::new(stdout.lock());
    for line in f.lines() {
        let line = line.unwrap();
        let p: Vec<&str> = line.split(' ').collect();
        if p.len() < 3 {
            continue;
        }
        let hl: usize = p[0].parse().unwrap();
        let nl: usize = p[1].parse().unwrap();
        match verif::layout_views(hl, nl, p[2] == "A") {
            None => writeln!(out, "refused").unwrap(),
            Some(info) => {
                write!(out, "ok slab={}", info.slab_size).unwrap();
                for (off, len, _align) in info.views.iter() {
                    write!(out, " {}+{}", off, len).unwrap();
                }
                writeln!(out).unwrap();
            }
        }
    }
}
