//! Matcher-side correspondence harness: runs the real nucleo-matcher (built from /repo's working tree
//! with --cfg nucleo_verif) on cases read from a file and prints one canonical line per case.
mod chars;
mod constscmd;
mod layoutcmd;
mod matchcmd;
mod patcmd;
mod patparsecmd;
mod utf32cmd;

fn main() {
    let args: Vec<String> = std::env::args().collect();
    let cmd = args.get(1).map(|s| s.as_str()).unwrap_or("");
    match cmd {
        "dump-std" => chars::dump_std(),
        "chars-sweep" => chars::sweep(args[2].parse().unwrap(), args[3].parse().unwrap()),
        "sites-probe" => chars::sites_probe(args[2].parse().unwrap(), args[3].parse().unwrap()),
        "layout" => layoutcmd::run(&args[2]),
        "consts" => constscmd::run(),
        "utf32-seg" => utf32cmd::seg(&args[2]),
        "utf32" => utf32cmd::run(&args[2]),
        "c15-prepare" => patcmd::prepare(&args[2]),
        "c15-run" => patcmd::run(&args[2]),
        "pattern" => patparsecmd::run(&args[2]),
        "pattern-seg" => patparsecmd::seg(&args[2]),
        "match" => matchcmd::run(&args[2], args.get(3).map_or(false, |s| s == "fresh")),
        _ => {
            eprintln!("usage: hm dump-std | chars-sweep [limit]");
            std::process::exit(2)
        }
    }
}
