//! `hm utf32-seg FILE` and `hm utf32 FILE`: the string-conversion correspondence (property C17).
//!
//! `utf32-seg`: every line of FILE is a text (comma separated code points, `-` = empty). Prints, per
//! line, what the model takes as INPUT because it is the behaviour of other crates:
//!   `<clusters> <esc>`
//!   clusters = `text.graphemes(true)` of the unicode-segmentation crate (clusters separated by `|`),
//!   esc      = `char::escape_debug` of every distinct code point of the text (and of LF) whose escape
//!              is not the character itself, as `cp:e,e,e` separated by `;`.
//!
//! `utf32`: every line of FILE is a case
//!   `T <text> <clusters> <prior buffer> <esc> <schedule> <ranges>`    conversion of a text
//!   `D <content> <A|U>   -              <esc> <schedule> <ranges>`    directly constructed variant
//! and the REAL nucleo-matcher code is run on it: every constructor, len/is_empty/is_ascii, chars()
//! forwards / backwards / interleaved by the schedule (F = next, B = next_back), Display, Debug, get(i)
//! for i in 0..len+2 and u32::MAX, and slice / slice_u32 of Utf32Str and Utf32String for the listed
//! ranges (`*` = every RangeBounds shape with every bound in 0..=len+1). One result line per case; a
//! caught panic prints `P`; `_` = not applicable (bound does not fit u32, variant not constructible).
use nucleo_matcher::{Utf32Str, Utf32String};
use std::borrow::Cow;
use std::fmt::Write as FmtWrite;
use std::io::{BufRead, Write};
use std::ops::{Bound, RangeBounds};
use std::panic::{catch_unwind, AssertUnwindSafe};
use unicode_segmentation::UnicodeSegmentation;

fn cps(s: &str) -> Vec<u32> {
    if s == "-" {
        Vec::new()
    } else {
        s.split(',').map(|x| x.parse().unwrap()).collect()
    }
}

fn show(v: impl IntoIterator<Item = u32>) -> String {
    let v: Vec<String> = v.into_iter().map(|x| x.to_string()).collect();
    if v.is_empty() {
        "-".to_string()
    } else {
        v.join(",")
    }
}

fn text_of(v: &[u32]) -> String {
    v.iter().map(|&c| char::from_u32(c).expect("case file holds scalar values")).collect()
}

pub fn seg(file: &str) {
    let f = std::io::BufReader::new(std::fs::File::open(file).unwrap());
    let stdout = std::io::stdout();
    let mut out = std::io::BufWriter::new(stdout.lock());
    for line in f.lines() {
        let line = line.unwrap();
        if line.is_empty() {
            continue;
        }
        let v = cps(&line);
        let text = text_of(&v);
        let clusters: Vec<String> = text.graphemes(true).map(|g| show(g.chars().map(|c| c as u32))).collect();
        let mut distinct = v.clone();
        distinct.push(10);
        distinct.sort();
        distinct.dedup();
        let mut esc = Vec::new();
        for c in distinct {
            let ch = char::from_u32(c).unwrap();
            let e: Vec<u32> = ch.escape_debug().map(|x| x as u32).collect();
            if e != [c] {
                esc.push(format!("{}:{}", c, show(e)));
            }
        }
        writeln!(
            out,
            "{} {}",
            if clusters.is_empty() { "-".to_string() } else { clusters.join("|") },
            if esc.is_empty() { "-".to_string() } else { esc.join(";") }
        )
        .unwrap();
    }
}

/// variant tag and raw content of a borrowed string, read off the public enum directly
fn raw(v: Utf32Str<'_>) -> String {
    match v {
        Utf32Str::Ascii(b) => format!("A:{}", show(b.iter().map(|&x| x as u32))),
        Utf32Str::Unicode(c) => format!("U:{}", show(c.iter().map(|&x| x as u32))),
    }
}
fn raw_owned(v: &Utf32String) -> String {
    match v {
        Utf32String::Ascii(b) => format!("A:{}", show(b.bytes().map(|x| x as u32))),
        Utf32String::Unicode(c) => format!("U:{}", show(c.iter().map(|&x| x as u32))),
    }
}

fn guard<T>(f: impl FnOnce() -> T) -> Option<T> {
    catch_unwind(AssertUnwindSafe(f)).ok()
}
fn or_p(r: Option<String>) -> String {
    r.unwrap_or_else(|| "P".to_string())
}

fn str_views(out: &mut String, v: Utf32Str<'_>, sched: &str) {
    write!(out, " len={}", or_p(guard(|| v.len().to_string()))).unwrap();
    write!(out, " empty={}", or_p(guard(|| (v.is_empty() as u8).to_string()))).unwrap();
    write!(out, " ascii={}", or_p(guard(|| (v.is_ascii() as u8).to_string()))).unwrap();
    write!(out, " chars={}", or_p(guard(|| show(v.chars().map(|c| c as u32))))).unwrap();
    write!(out, " rev={}", or_p(guard(|| show(v.chars().rev().map(|c| c as u32))))).unwrap();
    let drive = guard(|| {
        let mut it = v.chars();
        let mut got = Vec::new();
        for s in sched.chars() {
            let o = match s {
                'F' => it.next(),
                'B' => it.next_back(),
                _ => continue,
            };
            got.push(o.map_or("N".to_string(), |c| (c as u32).to_string()));
        }
        let rest = show(it.map(|c| c as u32));
        format!("{}:{}", if got.is_empty() { "-".to_string() } else { got.join(",") }, rest)
    });
    write!(out, " drive={}", or_p(drive)).unwrap();
    // Display shows the content whatever formatter flags the caller uses: with a width / alignment / precision the
    // output is either the plain content (flags ignored) or what the same flags do to the content as a String -
    // never a per-character application of the flags (round 6, C17-m12); a deviating rendering is reported as `disp`
    write!(
        out,
        " disp={}",
        or_p(guard(|| {
            let plain = v.to_string();
            let alts = [
                (format!("{:7}", v), format!("{:7}", plain)),
                (format!("{:>9}", v), format!("{:>9}", plain)),
                (format!("{:.1}", v), format!("{:.1}", plain)),
                (format!("{:^5.2}", v), format!("{:^5.2}", plain)),
            ];
            let shown = alts.iter().find(|(got, std_)| *got != plain && got != std_).map_or(plain.clone(), |(got, _)| got.clone());
            show(shown.chars().map(|c| c as u32))
        }))
    )
    .unwrap();
    write!(out, " dbg={}", or_p(guard(|| show(format!("{:?}", v).chars().map(|c| c as u32))))).unwrap();
    let len = guard(|| v.len()).unwrap_or(0);
    let mut gets = Vec::new();
    let mut idx: Vec<u32> = (0..(len as u32).saturating_add(2)).collect();
    idx.push(u32::MAX);
    for i in idx {
        gets.push(or_p(guard(|| (v.get(i) as u32).to_string())));
    }
    write!(out, " get={}", gets.join(",")).unwrap();
}

fn string_views(out: &mut String, s: &Utf32String) {
    write!(out, " Slen={}", or_p(guard(|| s.len().to_string()))).unwrap();
    write!(out, " Sempty={}", or_p(guard(|| (s.is_empty() as u8).to_string()))).unwrap();
    write!(out, " Sdisp={}", or_p(guard(|| show(s.to_string().chars().map(|c| c as u32))))).unwrap();
    write!(out, " Sdbg={}", or_p(guard(|| show(format!("{:?}", s).chars().map(|c| c as u32))))).unwrap();
}

#[derive(Clone, Copy)]
struct RangeSpec {
    sf: u8,
    s: u64,
    ef: u8,
    e: u64,
}

fn num(s: &str) -> u64 {
    match s.strip_prefix('x') {
        Some(h) => u64::from_str_radix(h, 16).unwrap(),
        None => s.parse().unwrap(),
    }
}

fn ranges_of(spec: &str, len: usize) -> Vec<RangeSpec> {
    let mut v = Vec::new();
    if spec == "-" {
        return v;
    }
    if spec == "*" {
        for sf in [b'I', b'E', b'U'] {
            for ef in [b'I', b'E', b'U'] {
                let ss: Vec<u64> = if sf == b'U' { vec![0] } else { (0..=(len as u64 + 1)).collect() };
                let es: Vec<u64> = if ef == b'U' { vec![0] } else { (0..=(len as u64 + 1)).collect() };
                for &s in &ss {
                    for &e in &es {
                        v.push(RangeSpec { sf, s, ef, e });
                    }
                }
            }
        }
        return v;
    }
    for item in spec.split(';') {
        let p: Vec<&str> = item.split(':').collect();
        let f = p[0].as_bytes();
        v.push(RangeSpec { sf: f[0], s: num(p[1]), ef: f[1], e: num(p[2]) });
    }
    v
}

/// calls `$call` with the range the spec denotes: the native range syntax where Rust has one, a pair of
/// `Bound`s (which also implements RangeBounds) for an excluded start
macro_rules! with_range {
    ($r:expr, $ty:ty, $call:expr) => {{
        let s = $r.s as $ty;
        let e = $r.e as $ty;
        match ($r.sf, $r.ef) {
            (b'I', b'E') => $call(s..e),
            (b'I', b'I') => $call(s..=e),
            (b'I', _) => $call(s..),
            (b'U', b'E') => $call(..e),
            (b'U', b'I') => $call(..=e),
            (b'U', _) => $call(..),
            (_, b'E') => $call((Bound::Excluded(s), Bound::Excluded(e))),
            (_, b'I') => $call((Bound::Excluded(s), Bound::Included(e))),
            (_, _) => $call((Bound::Excluded(s), Bound::<$ty>::Unbounded)),
        }
    }};
}

fn str_slice<R: RangeBounds<usize>>(v: Utf32Str<'_>, r: R) -> String {
    or_p(guard(|| raw(v.slice(r))))
}
fn str_slice_u32<R: RangeBounds<u32>>(v: Utf32Str<'_>, r: R) -> String {
    or_p(guard(|| raw(v.slice_u32(r))))
}
fn string_slice<R: RangeBounds<usize>>(v: &Utf32String, r: R) -> String {
    or_p(guard(|| raw(v.slice(r))))
}
fn string_slice_u32<R: RangeBounds<u32>>(v: &Utf32String, r: R) -> String {
    or_p(guard(|| raw(v.slice_u32(r))))
}

fn slices(out: &mut String, v: Utf32Str<'_>, owned: Option<&Utf32String>, spec: &str) {
    let len = guard(|| v.len()).unwrap_or(0);
    let rs = ranges_of(spec, len);
    if rs.is_empty() {
        write!(out, " sl=-").unwrap();
        return;
    }
    let mut items = Vec::new();
    for r in rs {
        let fits32 = r.s <= u32::MAX as u64 && r.e <= u32::MAX as u64;
        let a = with_range!(r, usize, |x| str_slice(v, x));
        let b = if fits32 { with_range!(r, u32, |x| str_slice_u32(v, x)) } else { "_".to_string() };
        let c = match owned {
            Some(o) => with_range!(r, usize, |x| string_slice(o, x)),
            None => "_".to_string(),
        };
        let d = match owned {
            Some(o) if fits32 => with_range!(r, u32, |x| string_slice_u32(o, x)),
            _ => "_".to_string(),
        };
        items.push(format!("{a}/{b}/{c}/{d}"));
    }
    write!(out, " sl={}", items.join(";")).unwrap();
}

pub fn run(file: &str) {
    std::panic::set_hook(Box::new(|_| {}));
    let f = std::io::BufReader::new(std::fs::File::open(file).unwrap());
    let stdout = std::io::stdout();
    let mut out = std::io::BufWriter::new(stdout.lock());
    for line in f.lines() {
        let line = line.unwrap();
        if line.is_empty() {
            continue;
        }
        let p: Vec<&str> = line.split(' ').collect();
        let mut o = String::new();
        if p[0] == "T" {
            let text = text_of(&cps(p[1]));
            let prior: Vec<char> = cps(p[3]).iter().map(|&c| char::from_u32(c).unwrap()).collect();
            // every constructor; content read off the enum, not through the accessors
            let mut buf = prior.clone();
            let newr = guard(|| raw(Utf32Str::new(&text, &mut buf)));
            write!(o, "new={} buf={}", or_p(newr), show(buf.iter().map(|&c| c as u32))).unwrap();
            write!(o, " str={}", or_p(guard(|| raw_owned(&Utf32String::from(text.as_str()))))).unwrap();
            write!(o, " box={}", or_p(guard(|| raw_owned(&Utf32String::from(text.clone().into_boxed_str()))))).unwrap();
            write!(o, " string={}", or_p(guard(|| raw_owned(&Utf32String::from(text.clone()))))).unwrap();
            write!(o, " cowb={}", or_p(guard(|| raw_owned(&Utf32String::from(Cow::Borrowed(text.as_str())))))).unwrap();
            write!(o, " cowo={}", or_p(guard(|| raw_owned(&Utf32String::from(Cow::<str>::Owned(text.clone())))))).unwrap();
            // accessors on the buffer-based view and on the owned string
            let mut buf2 = prior.clone();
            let view = guard(|| Utf32Str::new(&text, &mut buf2));
            let owned = guard(|| Utf32String::from(text.as_str()));
            match view {
                Some(v) => {
                    str_views(&mut o, v, p[5]);
                    match &owned {
                        Some(s) => string_views(&mut o, s),
                        None => write!(o, " S=P").unwrap(),
                    }
                    slices(&mut o, v, owned.as_ref(), p[6]);
                }
                None => write!(o, " noview").unwrap(),
            }
        } else {
            let content = cps(p[1]);
            let bytes: Vec<u8> = content.iter().map(|&c| c as u8).collect();
            let chars: Vec<char> = content.iter().map(|&c| char::from_u32(c).unwrap()).collect();
            let (v, owned) = if p[2] == "A" {
                let owned = String::from_utf8(bytes.clone()).ok().filter(|s| s.is_ascii()).map(|s| Utf32String::Ascii(s.into_boxed_str()));
                (Utf32Str::Ascii(&bytes), owned)
            } else {
                (Utf32Str::Unicode(&chars), Some(Utf32String::Unicode(chars.clone().into_boxed_slice())))
            };
            write!(o, "raw={}", raw(v)).unwrap();
            str_views(&mut o, v, p[5]);
            match &owned {
                Some(s) => string_views(&mut o, s),
                None => write!(o, " S=_").unwrap(),
            }
            slices(&mut o, v, owned.as_ref(), p[6]);
        }
        writeln!(out, "{}", o).unwrap();
    }
}
