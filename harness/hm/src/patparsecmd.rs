//! `hm pattern FILE` / `hm pattern-seg FILE`: the pattern parser of nucleo-matcher (C14).
//!
//! Case file: one pattern per line, as comma-separated scalar values (`-` = empty string); anything after the
//! first space (the generator's annotation) is ignored.
//!
//! `pattern`: for each of the 6 settings (CaseMatching Respect/Ignore/Smart x Normalization Never/Smart)
//! the line carries five sections, space separated:
//!     P<c><n>=<atoms>   Pattern::parse(text, c, n).atoms
//!     R<c><n>=<atoms>   atoms of ONE long-lived Pattern object after reparse(text, c, n) (history = all earlier cases)
//!     N<c><n>=<atoms>   Pattern::new(text, c, n, kind).atoms          kind = KINDS[(n as index 0|1 + chars) % 5]
//!     A<c><n>=<atom>    Atom::new(text, c, n, kind, false)            (whole text, no escapes)
//!     E<c><n>=<atom>    Atom::new(text, c, n, kind, true)             (whole text, `\ ` -> ` `)
//! atoms are joined by `|` (`-` = none); one atom is `<kind F|S|P|O|E><negative 0|1><repr A|U><ignore_case 0|1>
//! <normalize 0|1>:<needle code points, comma separated, or ->`; a panicking call prints `PANIC`.
//! The private flags ignore_case / normalize are read from the derived Debug output of Atom.
//!
//! `pattern-seg`: for every contiguous non-ASCII substring s of the pattern whose real segmentation
//! (nucleo_matcher::chars::graphemes, i.e. unicode-segmentation) differs from the simple rule "every code point is
//! its own cluster except CR LF, which yields LF", prints `<s>><graphemes(s)>` (entries joined by `;`, `-` = none).
//! The extracted model takes this table as its `seg` input for the grapheme-rich stream.
use nucleo_matcher::pattern::{Atom, AtomKind, CaseMatching, Normalization, Pattern};
use nucleo_matcher::Utf32Str;
use std::io::{BufRead, Write};
use std::panic::{catch_unwind, AssertUnwindSafe};

const CASES: [(CaseMatching, char); 3] = [(CaseMatching::Respect, 'R'), (CaseMatching::Ignore, 'I'), (CaseMatching::Smart, 'S')];
const NORMS: [(Normalization, char); 2] = [(Normalization::Never, 'N'), (Normalization::Smart, 'S')];
const KINDS: [AtomKind; 5] = [AtomKind::Fuzzy, AtomKind::Substring, AtomKind::Prefix, AtomKind::Postfix, AtomKind::Exact];

fn cps(s: &str) -> Vec<char> {
    if s == "-" {
        Vec::new()
    } else {
        s.split(',').map(|x| char::from_u32(x.parse().unwrap()).expect("scalar value")).collect()
    }
}

fn show_cps(it: impl Iterator<Item = u32>) -> String {
    let v: Vec<String> = it.map(|c| c.to_string()).collect();
    if v.is_empty() {
        "-".to_string()
    } else {
        v.join(",")
    }
}

fn show_atom(a: &Atom) -> String {
    let k = match a.kind {
        AtomKind::Fuzzy => 'F',
        AtomKind::Substring => 'S',
        AtomKind::Prefix => 'P',
        AtomKind::Postfix => 'O',
        AtomKind::Exact => 'E',
        _ => '?',
    };
    let dbg = format!("{:?}", a);
    // derived Debug: `Atom { negative: .., kind: .., needle: "..", ignore_case: B, normalize: B }`
    let flag = |name: &str| -> char {
        match dbg.rfind(name) {
            Some(p) => {
                if dbg[p + name.len()..].starts_with("true") {
                    '1'
                } else if dbg[p + name.len()..].starts_with("false") {
                    '0'
                } else {
                    '?'
                }
            }
            None => '?',
        }
    };
    let nz = flag("normalize: ");
    let ic = flag("ignore_case: ");
    let (r, needle) = match a.needle_text() {
        Utf32Str::Ascii(b) => ('A', show_cps(b.iter().map(|&c| c as u32))),
        Utf32Str::Unicode(c) => ('U', show_cps(c.iter().map(|&c| c as u32))),
    };
    format!("{}{}{}{}{}:{}", k, a.negative as u8, r, ic, nz, needle)
}

fn show_atoms(v: &[Atom]) -> String {
    if v.is_empty() {
        "-".to_string()
    } else {
        v.iter().map(show_atom).collect::<Vec<_>>().join("|")
    }
}

pub fn run(file: &str) {
    std::panic::set_hook(Box::new(|_| {}));
    let f = std::io::BufReader::new(std::fs::File::open(file).unwrap());
    let stdout = std::io::stdout();
    let mut out = std::io::BufWriter::new(stdout.lock());
    // one Pattern object lives through the whole file: its reparse history is every earlier case
    let mut live = Pattern::parse("seed 'pattern !^x$", CaseMatching::Smart, Normalization::Smart);
    for line in f.lines() {
        let line = line.unwrap();
        if line.is_empty() {
            continue;
        }
        let chars = cps(line.split(' ').next().unwrap());
        let text: String = chars.iter().collect();
        let mut toks: Vec<String> = Vec::new();
        for (cm, cn) in CASES {
            for (ni, (nm, nn)) in NORMS.into_iter().enumerate() {
                let kind = KINDS[(ni + chars.len()) % 5];
                let p = catch_unwind(AssertUnwindSafe(|| Pattern::parse(&text, cm, nm)));
                toks.push(format!("P{}{}={}", cn, nn, p.map_or("PANIC".to_string(), |p| show_atoms(&p.atoms))));
                let r = catch_unwind(AssertUnwindSafe(|| live.reparse(&text, cm, nm)));
                match r {
                    Ok(()) => {
                        toks.push(format!("R{}{}={}", cn, nn, show_atoms(&live.atoms)));
                        if live.atoms.len() > 256 {
                            // a reparse that does not clear would make the output quadratic; the excess is
                            // already on this line, start the next history from an empty object
                            live = Pattern::default();
                        }
                    }
                    Err(_) => {
                        toks.push(format!("R{}{}=PANIC", cn, nn));
                        live = Pattern::parse("", cm, nm);
                    }
                }
                let n = catch_unwind(AssertUnwindSafe(|| Pattern::new(&text, cm, nm, kind)));
                toks.push(format!("N{}{}={}", cn, nn, n.map_or("PANIC".to_string(), |p| show_atoms(&p.atoms))));
                let a = catch_unwind(AssertUnwindSafe(|| Atom::new(&text, cm, nm, kind, false)));
                toks.push(format!("A{}{}={}", cn, nn, a.map_or("PANIC".to_string(), |a| show_atom(&a))));
                let e = catch_unwind(AssertUnwindSafe(|| Atom::new(&text, cm, nm, kind, true)));
                toks.push(format!("E{}{}={}", cn, nn, e.map_or("PANIC".to_string(), |a| show_atom(&a))));
            }
        }
        writeln!(out, "{}", toks.join(" ")).unwrap();
    }
}

/// the simple segmentation rule: CR LF -> LF, every other code point alone
fn simple_seg(s: &[char]) -> Vec<char> {
    let mut v = Vec::with_capacity(s.len());
    let mut i = 0;
    while i < s.len() {
        if s[i] == '\r' && i + 1 < s.len() && s[i + 1] == '\n' {
            v.push('\n');
            i += 2;
        } else {
            v.push(s[i]);
            i += 1;
        }
    }
    v
}

pub fn seg(file: &str) {
    std::panic::set_hook(Box::new(|_| {}));
    let f = std::io::BufReader::new(std::fs::File::open(file).unwrap());
    let stdout = std::io::stdout();
    let mut out = std::io::BufWriter::new(stdout.lock());
    for line in f.lines() {
        let line = line.unwrap();
        if line.is_empty() {
            continue;
        }
        let chars = cps(line.split(' ').next().unwrap());
        let mut entries: Vec<String> = Vec::new();
        let mut seen = std::collections::HashSet::new();
        if chars.len() > 64 {
            // quadratically many substrings: long cases are generated over seg_simple code points only, for which
            // the model does not consult the table
            writeln!(out, "-").unwrap();
            continue;
        }
        for i in 0..chars.len() {
            for j in i + 1..=chars.len() {
                let sub = &chars[i..j];
                if sub.iter().all(|c| c.is_ascii()) || !seen.insert(sub.to_vec()) {
                    continue;
                }
                let s: String = sub.iter().collect();
                let real = catch_unwind(AssertUnwindSafe(|| nucleo_matcher::chars::graphemes(&s).collect::<Vec<char>>()));
                match real {
                    Ok(real) => {
                        if real != simple_seg(sub) {
                            entries.push(format!("{}>{}", show_cps(sub.iter().map(|&c| c as u32)), show_cps(real.iter().map(|&c| c as u32))));
                        }
                    }
                    Err(_) => entries.push(format!("{}>PANIC", show_cps(sub.iter().map(|&c| c as u32)))),
                }
            }
        }
        writeln!(out, "{}", if entries.is_empty() { "-".to_string() } else { entries.join(";") }).unwrap();
    }
}
