//! `hm consts`: every value of score.rs / config.rs that the cfg(nucleo_verif) facade lets us observe,
//! one per line.  Used by tools/fallback.py to validate a kept coq/Gen/GenScore.v against the built
//! code when the translator could not regenerate it.
//!   const NAME VALUE            nucleo_matcher::verif::score_constants(), in its documented order
//!   derived NAME VALUE HOW      a constant read off a function value (no direct hook)
//!   preset NAME delims=..,.. white=N delim=N init=ID normalize=B ignore_case=B prefer_prefix=B
//!   classid NAME ID             `CharClass as u8` of a representative character of that class
//!   bonus PRESET PREV CLASS V   Config::bonus_for on class ids (0 Whitespace .. 6 Number)
use nucleo_matcher::{verif, Config};

const NAMES: [&str; 9] = [
    "SCORE_MATCH",
    "PENALTY_GAP_START",
    "PENALTY_GAP_EXTENSION",
    "PREFIX_BONUS_SCALE",
    "MAX_PREFIX_BONUS",
    "BONUS_BOUNDARY",
    "BONUS_CAMEL123",
    "BONUS_CONSECUTIVE",
    "BONUS_FIRST_CHAR_MULTIPLIER",
];

fn presets() -> Vec<(&'static str, Config)> {
    let mut set = Config::DEFAULT;
    set.set_match_paths();
    vec![("default", Config::DEFAULT), ("match_paths", Config::DEFAULT.match_paths()), ("set_match_paths", set)]
}

pub fn run() {
    // the array length is part of the hook's type: a facade with more or fewer constants does not compile here
    let vals: [u16; 9] = verif::score_constants();
    for (n, v) in NAMES.iter().zip(vals.iter()) {
        println!("const {n} {v}");
    }
    // BONUS_NON_WORD has no slot in score_constants(); bonus_for returns it for a non-word character after a letter
    println!("derived BONUS_NON_WORD {} bonus_for(DEFAULT,Lower,NonWord)", verif::bonus_for(&Config::DEFAULT, 3, 1));
    for (name, c) in presets() {
        let (delims, white, delim, init) = verif::config_fields(&c);
        let d: Vec<String> = delims.iter().map(|b| b.to_string()).collect();
        println!(
            "preset {name} delims={} white={white} delim={delim} init={init} normalize={} ignore_case={} prefer_prefix={}",
            if d.is_empty() { "-".to_string() } else { d.join(",") },
            c.normalize as u8,
            c.ignore_case as u8,
            c.prefer_prefix as u8
        );
    }
    for (name, ch) in [("Whitespace", ' '), ("NonWord", '-'), ("Delimiter", '/'), ("Lower", 'a'), ("Upper", 'A'), ("Letter", '\u{4e2d}'), ("Number", '1')] {
        println!("classid {name} {}", verif::char_class(ch, &Config::DEFAULT));
    }
    for (name, c) in presets() {
        for prev in 0u8..7 {
            for class in 0u8..7 {
                println!("bonus {name} {prev} {class} {}", verif::bonus_for(&c, prev, class));
            }
        }
    }
}
