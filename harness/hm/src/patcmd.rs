//! C15: `hm c15-prepare SPECFILE` and `hm c15-run CASEFILE`.
//!
//! A spec line (written by tools/props/c15.py) describes column patterns as TEXT plus rows of haystack
//! texts.  `c15-prepare` builds the atoms with the real constructors (Pattern::parse / Pattern::new /
//! Atom::new), converts the haystacks with the real Utf32Str::new and appends both, resolved, to the line:
//! the atoms' fields (negative, kind, ignore_case, normalize - the last two read off the Debug output, they
//! are private - and the needle with its representation) and the haystacks' representation + code points.
//! The extracted Coq model reads only the resolved part, so it depends neither on the pattern parser (C14)
//! nor on the grapheme conversion (C17).  `c15-run` rebuilds the same objects from the text part and runs
//! the real Atom / Pattern / MultiPattern functions, printing one canonical line per case.
//!
//! ONE Matcher serves the whole file.  Per case only the non-overwritten part of its configuration is set
//! (preset, prefer_prefix); with a non-zero scramble seed, ignore_case / normalize are whatever earlier
//! calls left there and are additionally flipped pseudo-randomly before every call, which the model never
//! hears about: agreement then witnesses the configuration independence of theorem C15_config_indep.
//!
//! line:  <id> <cfg4> <scramble> <cols> <rows> [<resolved cols> <resolved rows>]
//!   cols : `-` | col;col;...      col : P<case><norm>:<cps> | W<case><norm><kind>:<cps> | L[atom+atom+...]
//!   atom : <neg 0|1><kind><case><norm><escape 0|1>:<cps>
//!   rows : `-` | row;row;...      row : `~` (no columns) | text|text|...     text: <cps>
//!   case R|I|S  norm N|S  kind F|S|P|O|E   cps: comma separated code points, `-` = empty
//!   resolved col : `_` | atom+atom+... with atom = <neg><kind><ic><nm><repr A|U>:<cps>
//!   resolved row : `~` | <repr>:<cps>|...
//! output: <id> then per column  C<k> ps= pc= pi= pm=  and per atom  A<j> s= i= in= m=,  finally MS=
//!   (pc: ignore_case,normalize of the shared matcher right after Pattern::score)
use crate::matchcmd::config_of;
use nucleo::pattern::MultiPattern;
use nucleo_matcher::pattern::{Atom, AtomKind, CaseMatching, Normalization, Pattern};
use nucleo_matcher::{Matcher, Utf32Str, Utf32String};
use std::fmt::Write as _;
use std::io::{BufRead, Write};
use std::panic::{catch_unwind, AssertUnwindSafe};

fn cps(s: &str) -> String {
    if s == "-" {
        String::new()
    } else {
        s.split(',').map(|x| char::from_u32(x.parse().unwrap()).unwrap()).collect()
    }
}

fn show_cps(it: impl Iterator<Item = u32>) -> String {
    let v: Vec<String> = it.map(|c| c.to_string()).collect();
    if v.is_empty() {
        "-".to_string()
    } else {
        v.join(",")
    }
}

fn show_ustr(s: Utf32Str<'_>) -> String {
    match s {
        Utf32Str::Ascii(b) => format!("A:{}", show_cps(b.iter().map(|&c| c as u32))),
        Utf32Str::Unicode(c) => format!("U:{}", show_cps(c.iter().map(|&c| c as u32))),
    }
}

fn case_of(c: u8) -> CaseMatching {
    match c {
        b'R' => CaseMatching::Respect,
        b'I' => CaseMatching::Ignore,
        _ => CaseMatching::Smart,
    }
}
fn norm_of(c: u8) -> Normalization {
    match c {
        b'N' => Normalization::Never,
        _ => Normalization::Smart,
    }
}
fn kind_of(c: u8) -> AtomKind {
    match c {
        b'F' => AtomKind::Fuzzy,
        b'S' => AtomKind::Substring,
        b'P' => AtomKind::Prefix,
        b'O' => AtomKind::Postfix,
        _ => AtomKind::Exact,
    }
}
fn kind_code(k: AtomKind) -> char {
    match k {
        AtomKind::Fuzzy => 'F',
        AtomKind::Substring => 'S',
        AtomKind::Prefix => 'P',
        AtomKind::Postfix => 'O',
        AtomKind::Exact => 'E',
        _ => '?',
    }
}

/// a column of the case: the pattern, and (for parsed columns) the arguments MultiPattern::reparse needs
struct Col {
    pat: Pattern,
    parsed: Option<(String, CaseMatching, Normalization)>,
}

fn build_col(spec: &str) -> Col {
    let b = spec.as_bytes();
    match b[0] {
        b'P' => {
            let text = cps(&spec[4..]);
            let (c, n) = (case_of(b[1]), norm_of(b[2]));
            Col { pat: Pattern::parse(&text, c, n), parsed: Some((text, c, n)) }
        }
        b'W' => {
            let text = cps(&spec[5..]);
            Col { pat: Pattern::new(&text, case_of(b[1]), norm_of(b[2]), kind_of(b[3])), parsed: None }
        }
        _ => {
            let mut pat = Pattern::default();
            if spec.len() > 1 {
                for a in spec[1..].split('+') {
                    let ab = a.as_bytes();
                    let text = cps(&a[6..]);
                    let mut atom = Atom::new(&text, case_of(ab[2]), norm_of(ab[3]), kind_of(ab[1]), ab[4] == b'1');
                    atom.negative = ab[0] == b'1';
                    pat.atoms.push(atom);
                }
            }
            Col { pat, parsed: None }
        }
    }
}

/// private fields ignore_case / normalize, read off the derived Debug output (they come last)
fn flags_of(atom: &Atom) -> (bool, bool) {
    let d = format!("{:?}", atom);
    let i = d.rfind("ignore_case: ").expect("Debug format of Atom changed") + "ignore_case: ".len();
    let n = d.rfind("normalize: ").expect("Debug format of Atom changed") + "normalize: ".len();
    (d[i..].starts_with("true"), d[n..].starts_with("true"))
}

fn split_list<'a>(s: &'a str, sep: char) -> Vec<&'a str> {
    if s == "-" {
        Vec::new()
    } else {
        s.split(sep).collect()
    }
}

fn rows_of(s: &str) -> Vec<Vec<String>> {
    split_list(s, ';')
        .into_iter()
        .map(|r| if r == "~" { Vec::new() } else { r.split('|').map(cps).collect() })
        .collect()
}

pub fn prepare(file: &str) {
    let f = std::io::BufReader::new(std::fs::File::open(file).unwrap());
    let stdout = std::io::stdout();
    let mut out = std::io::BufWriter::new(stdout.lock());
    let mut buf = Vec::new();
    for line in f.lines() {
        let line = line.unwrap();
        if line.is_empty() {
            continue;
        }
        let p: Vec<&str> = line.split(' ').collect();
        let cols: Vec<Col> = split_list(p[3], ';').into_iter().map(build_col).collect();
        let rows = rows_of(p[4]);
        let mut rc = Vec::new();
        for c in &cols {
            let atoms: Vec<String> = c
                .pat
                .atoms
                .iter()
                .map(|a| {
                    let (ic, nm) = flags_of(a);
                    format!(
                        "{}{}{}{}{}",
                        a.negative as u8,
                        kind_code(a.kind),
                        ic as u8,
                        nm as u8,
                        show_ustr(a.needle_text())
                    )
                })
                .collect();
            rc.push(if atoms.is_empty() { "_".to_string() } else { atoms.join("+") });
        }
        let mut rr = Vec::new();
        for r in &rows {
            let texts: Vec<String> = r.iter().map(|t| show_ustr(Utf32Str::new(t, &mut buf))).collect();
            rr.push(if texts.is_empty() { "~".to_string() } else { texts.join("|") });
        }
        writeln!(
            out,
            "{} {} {} {} {} {} {}",
            p[0],
            p[1],
            p[2],
            p[3],
            p[4],
            if rc.is_empty() { "-".to_string() } else { rc.join(";") },
            if rr.is_empty() { "-".to_string() } else { rr.join(";") }
        )
        .unwrap();
    }
}

const PRIOR: [u32; 2] = [4_000_000_007, 9];

fn show_idx(v: &[u32]) -> String {
    if v.is_empty() {
        "-".to_string()
    } else {
        v.iter().map(|x| x.to_string()).collect::<Vec<_>>().join(".")
    }
}

struct Item {
    i: usize,
    s: String,
}
impl AsRef<str> for Item {
    fn as_ref(&self) -> &str {
        &self.s
    }
}

struct Ctx {
    matcher: Matcher,
    base: nucleo_matcher::Config,
    scramble: u64,
}

impl Ctx {
    /// the shared matcher, with ignore_case / normalize possibly flipped behind the caller's back
    fn m(&mut self) -> &mut Matcher {
        if self.scramble != 0 {
            self.scramble = self.scramble.wrapping_mul(6364136223846793005).wrapping_add(1442695040888963407);
            self.matcher.config.ignore_case = (self.scramble >> 33) & 1 == 1;
            self.matcher.config.normalize = (self.scramble >> 34) & 1 == 1;
        }
        &mut self.matcher
    }
    fn recover(&mut self) {
        let (ic, nm) = (self.matcher.config.ignore_case, self.matcher.config.normalize);
        self.matcher = Matcher::new(self.base.clone());
        self.matcher.config.ignore_case = ic;
        self.matcher.config.normalize = nm;
    }
    fn opt<T: std::fmt::Display>(&mut self, f: impl FnOnce(&mut Matcher) -> Option<T>) -> String {
        let m = self.m();
        match catch_unwind(AssertUnwindSafe(|| f(m))) {
            Ok(None) => "N".to_string(),
            Ok(Some(s)) => s.to_string(),
            Err(_) => {
                self.recover();
                "P".to_string()
            }
        }
    }
    fn idx<T: std::fmt::Display>(&mut self, f: impl FnOnce(&mut Matcher, &mut Vec<u32>) -> Option<T>) -> String {
        let m = self.m();
        let mut v = PRIOR.to_vec();
        match catch_unwind(AssertUnwindSafe(|| f(m, &mut v))) {
            Ok(r) => {
                if v.len() < 2 || v[..2] != PRIOR {
                    return "X-prior-indices-damaged".to_string();
                }
                match r {
                    None => format!("N/{}", show_idx(&v[2..])),
                    Some(s) => format!("{}/{}", s, show_idx(&v[2..])),
                }
            }
            Err(_) => {
                self.recover();
                "P".to_string()
            }
        }
    }
    fn list<T: std::fmt::Display>(&mut self, f: impl FnOnce(&mut Matcher) -> Vec<(Item, T)>) -> String {
        let m = self.m();
        match catch_unwind(AssertUnwindSafe(|| f(m))) {
            Ok(v) => {
                if v.is_empty() {
                    "-".to_string()
                } else {
                    v.iter().map(|(it, s)| format!("{}:{}", it.i, s)).collect::<Vec<_>>().join(",")
                }
            }
            Err(_) => {
                self.recover();
                "P".to_string()
            }
        }
    }
}

fn join(v: Vec<String>) -> String {
    if v.is_empty() {
        "_".to_string()
    } else {
        v.join(",")
    }
}

/// the inner Matcher call of an atom on a FRESH matcher configured by hand: preset + prefer_prefix of the
/// case, ignore_case / normalize of the atom; dispatch on the kind written out again here
fn inner(base: &nucleo_matcher::Config, atom: &Atom, h: Utf32Str<'_>) -> String {
    let (ic, nm) = flags_of(atom);
    let mut cfg = base.clone();
    cfg.ignore_case = ic;
    cfg.normalize = nm;
    let n = atom.needle_text();
    let r = catch_unwind(AssertUnwindSafe(|| {
        let mut m = Matcher::new(cfg.clone());
        let mut v = Vec::new();
        let (a, b) = match atom.kind {
            AtomKind::Fuzzy => (m.fuzzy_match(h, n), m.fuzzy_indices(h, n, &mut v)),
            AtomKind::Substring => (m.substring_match(h, n), m.substring_indices(h, n, &mut v)),
            AtomKind::Prefix => (m.prefix_match(h, n), m.prefix_indices(h, n, &mut v)),
            AtomKind::Postfix => (m.postfix_match(h, n), m.postfix_indices(h, n, &mut v)),
            _ => (m.exact_match(h, n), m.exact_indices(h, n, &mut v)),
        };
        (a, b, v)
    }));
    match r {
        Ok((a, b, v)) => {
            if a != b {
                format!("X-score-variants-differ-{:?}-{:?}", a, b)
            } else {
                match b {
                    None if v.is_empty() => "N".to_string(),
                    None => "X-failed-match-appended".to_string(),
                    Some(s) => format!("{}/{}", s, show_idx(&v)),
                }
            }
        }
        Err(_) => "P".to_string(),
    }
}

pub fn run(file: &str) {
    std::panic::set_hook(Box::new(|_| {}));
    let f = std::io::BufReader::new(std::fs::File::open(file).unwrap());
    let stdout = std::io::stdout();
    let mut out = std::io::BufWriter::new(stdout.lock());
    let mut ctx = Ctx { matcher: Matcher::new(nucleo_matcher::Config::DEFAULT), base: nucleo_matcher::Config::DEFAULT, scramble: 0 };
    let mut buf = Vec::new();
    for line in f.lines() {
        let line = line.unwrap();
        if line.is_empty() {
            continue;
        }
        let p: Vec<&str> = line.split(' ').collect();
        let cfg = config_of(p[1]);
        let scramble: u64 = p[2].parse().unwrap();
        // install the case's preset / prefer_prefix; keep (scramble != 0) or set (scramble == 0) the two
        // fields every atom overwrites
        let (ic, nm) = (ctx.matcher.config.ignore_case, ctx.matcher.config.normalize);
        ctx.matcher.config = cfg.clone();
        if scramble != 0 {
            ctx.matcher.config.ignore_case = ic;
            ctx.matcher.config.normalize = nm;
        }
        ctx.base = cfg.clone();
        ctx.scramble = scramble;
        let cols: Vec<Col> = split_list(p[3], ';').into_iter().map(build_col).collect();
        let rows = rows_of(p[4]);
        let mut o = String::new();
        write!(o, "{}", p[0]).unwrap();
        for (k, col) in cols.iter().enumerate() {
            let texts: Vec<(usize, &String)> = rows.iter().enumerate().filter(|(_, r)| r.len() > k).map(|(i, r)| (i, &r[k])).collect();
            let pat = &col.pat;
            let mut ps = Vec::new();
            let mut pi = Vec::new();
            let mut pc = Vec::new();
            for (_, t) in &texts {
                ps.push(ctx.opt(|m| pat.score(Utf32Str::new(t, &mut buf), m)));
                // the two configuration fields the call leaves behind (meaningless for an empty pattern,
                // which touches nothing)
                pc.push(if pat.atoms.is_empty() {
                    "-".to_string()
                } else {
                    format!("{}{}", ctx.matcher.config.ignore_case as u8, ctx.matcher.config.normalize as u8)
                });
                pi.push(ctx.idx(|m, v| pat.indices(Utf32Str::new(t, &mut buf), m, v)));
            }
            let items = |texts: &Vec<(usize, &String)>| -> Vec<Item> { texts.iter().map(|(i, t)| Item { i: *i, s: (*t).clone() }).collect() };
            let pm = ctx.list(|m| pat.match_list(items(&texts), m));
            write!(o, " C{} ps={} pc={} pi={} pm={}", k, join(ps), join(pc), join(pi), pm).unwrap();
            for (j, atom) in pat.atoms.iter().enumerate() {
                let mut s = Vec::new();
                let mut i = Vec::new();
                let mut inn = Vec::new();
                for (_, t) in &texts {
                    s.push(ctx.opt(|m| atom.score(Utf32Str::new(t, &mut buf), m)));
                    i.push(ctx.idx(|m, v| atom.indices(Utf32Str::new(t, &mut buf), m, v)));
                    inn.push(inner(&cfg, atom, Utf32Str::new(t, &mut buf)));
                }
                let am = ctx.list(|m| atom.match_list(items(&texts), m));
                write!(o, " A{} s={} i={} in={} m={}", j, join(s), join(i), join(inn), am).unwrap();
            }
        }
        // MultiPattern::score: only when every column came from Pattern::parse (MultiPattern can only be
        // filled through reparse)
        let ms = if cols.iter().all(|c| c.parsed.is_some()) {
            let mut mp = MultiPattern::new(cols.len());
            // every column has a HISTORY: it held another non-empty pattern before (a reparse must replace the
            // previous atoms whatever the new text is, the empty / whitespace-only text included)
            let mut reparse_ok = true;
            for (k, c) in cols.iter().enumerate() {
                let (t, cm, nm) = c.parsed.as_ref().unwrap();
                mp.reparse(k, "zzq !yy ^w 'v$", *cm, *nm, false);
                mp.reparse(k, t, *cm, *nm, false);
                reparse_ok &= mp.column_pattern(k).atoms == c.pat.atoms;
            }
            let mut v = Vec::new();
            for r in &rows {
                if !reparse_ok {
                    v.push("X-reparse-differs-from-parse".to_string());
                    continue;
                }
                let hs: Vec<Utf32String> = r.iter().map(|t| Utf32String::from(t.as_str())).collect();
                let mut buf2 = Vec::new();
                if r.iter().zip(&hs).any(|(t, h)| h.slice(..) != Utf32Str::new(t, &mut buf2)) {
                    v.push("X-utf32string-differs".to_string());
                } else {
                    v.push(ctx.opt(|m| mp.score(&hs, m)));
                }
            }
            join(v)
        } else {
            "_".to_string()
        };
        writeln!(out, "{} MS={}", o, ms).unwrap();
    }
}
