//! `hm match FILE [fresh]`: run every case of FILE through the real matcher.
//! One Matcher instance serves all cases (so any dependence on call history shows up as a
//! disagreement with the history-free model) unless `fresh` is given.
use nucleo_matcher::{Config, Matcher, Utf32Str};
use std::io::{BufRead, Write};
use std::panic::{catch_unwind, AssertUnwindSafe};

pub fn config_of(bits: &str) -> Config {
    let b = |i: usize| bits.as_bytes()[i] == b'1';
    let mut c = if b(0) { Config::DEFAULT.match_paths() } else { Config::DEFAULT };
    c.ignore_case = b(1);
    c.normalize = b(2);
    c.prefer_prefix = b(3);
    c
}

fn cps(s: &str) -> Vec<u32> {
    if s == "-" {
        Vec::new()
    } else {
        s.split(',').map(|x| x.parse().unwrap()).collect()
    }
}

enum Owned {
    A(Vec<u8>),
    U(Vec<char>),
}
impl Owned {
    fn new(repr: &str, v: &[u32]) -> Owned {
        if repr == "A" {
            Owned::A(v.iter().map(|&c| c as u8).collect())
        } else {
            Owned::U(v.iter().map(|&c| char::from_u32(c).unwrap()).collect())
        }
    }
    fn view(&self) -> Utf32Str<'_> {
        match self {
            Owned::A(b) => Utf32Str::Ascii(b),
            Owned::U(c) => Utf32Str::Unicode(c),
        }
    }
}

fn call(m: &mut Matcher, algo: &str, h: Utf32Str<'_>, n: Utf32Str<'_>, idx: Option<&mut Vec<u32>>) -> Option<u16> {
    match (algo, idx) {
        ("F", None) => m.fuzzy_match(h, n),
        ("F", Some(i)) => m.fuzzy_indices(h, n, i),
        ("G", None) => m.fuzzy_match_greedy(h, n),
        ("G", Some(i)) => m.fuzzy_indices_greedy(h, n, i),
        ("S", None) => m.substring_match(h, n),
        ("S", Some(i)) => m.substring_indices(h, n, i),
        ("P", None) => m.prefix_match(h, n),
        ("P", Some(i)) => m.prefix_indices(h, n, i),
        ("O", None) => m.postfix_match(h, n),
        ("O", Some(i)) => m.postfix_indices(h, n, i),
        ("E", None) => m.exact_match(h, n),
        ("E", Some(i)) => m.exact_indices(h, n, i),
        _ => panic!("bad algo"),
    }
}

pub fn run(file: &str, fresh: bool) {
    std::panic::set_hook(Box::new(|_| {}));
    let f = std::io::BufReader::new(std::fs::File::open(file).unwrap());
    let stdout = std::io::stdout();
    let mut out = std::io::BufWriter::new(stdout.lock());
    let mut matcher = Matcher::new(Config::DEFAULT);
    const PRIOR: [u32; 2] = [4_000_000_007, 9];
    for line in f.lines() {
        let line = line.unwrap();
        if line.is_empty() {
            continue;
        }
        let p: Vec<&str> = line.split(' ').collect();
        let cfg = config_of(p[0]);
        let h = Owned::new(p[2], &cps(p[4]));
        let n = Owned::new(p[3], &cps(p[5]));
        if fresh {
            matcher = Matcher::new(cfg.clone());
        }
        matcher.config = cfg.clone();
        let r1 = catch_unwind(AssertUnwindSafe(|| call(&mut matcher, p[1], h.view(), n.view(), None)));
        if r1.is_err() {
            matcher = Matcher::new(cfg.clone());
        }
        let mut idx = PRIOR.to_vec();
        let r2 = catch_unwind(AssertUnwindSafe(|| call(&mut matcher, p[1], h.view(), n.view(), Some(&mut idx))));
        if r2.is_err() {
            matcher = Matcher::new(cfg.clone());
        }
        let show = |v: &[u32]| {
            if v.is_empty() {
                "-".to_string()
            } else {
                v.iter().map(|x| x.to_string()).collect::<Vec<_>>().join(",")
            }
        };
        match (r1, r2) {
            (Ok(a), Ok(b)) => {
                let prior_ok = idx.len() >= 2 && idx[..2] == PRIOR;
                if a != b || !prior_ok {
                    writeln!(out, "X score_only={:?} indices={:?} prior_ok={} idx={}", a, b, prior_ok, show(&idx)).unwrap();
                } else {
                    match b {
                        None if idx.len() == 2 => writeln!(out, "N").unwrap(),
                        None => writeln!(out, "X failed-match-appended idx={}", show(&idx[2..])).unwrap(),
                        Some(s) => writeln!(out, "M {} {}", s, show(&idx[2..])).unwrap(),
                    }
                }
            }
            (a, b) => writeln!(out, "P score_only_panicked={} indices_panicked={}", a.is_err(), b.is_err()).unwrap(),
        }
    }
}
