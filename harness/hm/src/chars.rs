use nucleo_matcher::{chars, verif, Config};
use std::io::Write;

fn ranges(name: &str, f: impl Fn(char) -> bool, out: &mut impl Write) {
    let mut start: Option<u32> = None;
    let mut prev = 0u32;
    write!(out, "{name}").unwrap();
    for cp in 0..=0x10FFFFu32 {
        let ok = char::from_u32(cp).map_or(false, &f);
        if ok {
            if start.is_none() {
                start = Some(cp);
            }
            prev = cp;
        } else if let Some(s) = start.take() {
            write!(out, " {s}-{prev}").unwrap();
        }
    }
    if let Some(s) = start {
        write!(out, " {s}-{prev}").unwrap();
    }
    writeln!(out).unwrap();
}

/// range tables of the std predicates the matcher uses (modelled, not verified)
pub fn dump_std() {
    let stdout = std::io::stdout();
    let mut out = std::io::BufWriter::new(stdout.lock());
    ranges("is_lowercase", |c| c.is_lowercase(), &mut out);
    ranges("is_numeric", |c| c.is_numeric(), &mut out);
    ranges("is_alphabetic", |c| c.is_alphabetic(), &mut out);
    ranges("is_whitespace", |c| c.is_whitespace(), &mut out);
    ranges("is_ascii_whitespace", |c| c.is_ascii() && (c as u8).is_ascii_whitespace(), &mut out);
}

pub fn configs() -> Vec<(String, Config)> {
    let mut v = Vec::new();
    for paths in [false, true] {
        for ic in [false, true] {
            for nm in [false, true] {
                let mut c = if paths { Config::DEFAULT.match_paths() } else { Config::DEFAULT };
                c.ignore_case = ic;
                c.normalize = nm;
                v.push((format!("{}{}{}", paths as u8, ic as u8, nm as u8), c));
            }
        }
    }
    v
}

/// Run-length encoded table of every character-level function over all scalars below `limit`.
/// One record per maximal run of code points with the same (delta, class) tuple.
pub fn sweep(lo: u32, limit: u32) {
    let stdout = std::io::stdout();
    let mut out = std::io::BufWriter::new(stdout.lock());
    // configuration-independent functions
    rle(&mut out, "G", lo, limit, |c| {
        let ch = char::from_u32(c)?;
        Some(vec![
            chars::to_lower_case(ch) as i64 - c as i64,
            chars::is_upper_case(ch) as i64,
            chars::normalize(ch) as i64 - c as i64,
        ])
    });
    for (name, cfg) in configs() {
        rle(&mut out, &format!("U{name}"), lo, limit, |c| {
            let ch = char::from_u32(c)?;
            let (cn, k) = verif::class_norm(ch, &cfg);
            Some(vec![
                verif::norm(ch, &cfg) as i64 - c as i64,
                cn as i64 - c as i64,
                k as i64,
                verif::char_class(ch, &cfg) as i64,
            ])
        });
        rle(&mut out, &format!("A{name}"), lo, limit.min(128), |c| {
            let (cn, k) = verif::class_norm_ascii(c as u8, &cfg);
            Some(vec![
                verif::norm_ascii(c as u8, &cfg) as i64 - c as i64,
                cn as i64 - c as i64,
                k as i64,
                verif::char_class_ascii(c as u8, &cfg) as i64,
            ])
        });
    }
}

fn rle(out: &mut impl Write, tag: &str, lo: u32, limit: u32, f: impl Fn(u32) -> Option<Vec<i64>>) {
    let mut cur: Option<(u32, u32, Vec<i64>)> = None;
    for c in lo..limit {
        let v = match f(c) {
            Some(v) => v,
            None => continue, // surrogates
        };
        match &mut cur {
            Some((_, last, val)) if *val == v && *last + 1 == c => *last = c,
            _ => {
                if let Some((s, l, val)) = cur.take() {
                    emit(out, tag, s, l, &val);
                }
                cur = Some((c, c, v));
            }
        }
    }
    if let Some((s, l, val)) = cur.take() {
        emit(out, tag, s, l, &val);
    }
}

fn emit(out: &mut impl Write, tag: &str, s: u32, l: u32, val: &[i64]) {
    write!(out, "{tag} {s} {l}").unwrap();
    for v in val {
        write!(out, " {v}").unwrap();
    }
    writeln!(out).unwrap();
}
