use nucleo_matcher::{chars, verif, Config};
use std::io::Write;

fn ranges(name: &str, f: impl Fn(char) -> bool, out: &mut impl Write) {
    let mut start: Option<u32> = None;
    let mut prev = 0u32;
    write!(out, "{name}").unwrap();
    for cp in 0..=0x10FFFFu32 {
        let ok = char::from_u32(cp).map_or(false, &f);
        if ok {
            if start.is_none() {
                start = Some(cp);
            }
            prev = cp;
        } else if let Some(s) = start.take() {
            write!(out, " {s}-{prev}").unwrap();
        }
    }
    if let Some(s) = start {
        write!(out, " {s}-{prev}").unwrap();
    }
    writeln!(out).unwrap();
}

/// range tables of the std predicates the matcher uses (modelled, not verified)
pub fn dump_std() {
    let stdout = std::io::stdout();
    let mut out = std::io::BufWriter::new(stdout.lock());
    ranges("is_lowercase", |c| c.is_lowercase(), &mut out);
    ranges("is_numeric", |c| c.is_numeric(), &mut out);
    ranges("is_alphabetic", |c| c.is_alphabetic(), &mut out);
    ranges("is_whitespace", |c| c.is_whitespace(), &mut out);
    ranges("is_ascii_whitespace", |c| c.is_ascii() && (c as u8).is_ascii_whitespace(), &mut out);
}

pub fn configs() -> Vec<(String, Config)> {
    let mut v = Vec::new();
    for paths in [false, true] {
        for ic in [false, true] {
            for nm in [false, true] {
                let mut c = if paths { Config::DEFAULT.match_paths() } else { Config::DEFAULT };
                c.ignore_case = ic;
                c.normalize = nm;
                v.push((format!("{}{}{}", paths as u8, ic as u8, nm as u8), c));
            }
        }
    }
    v
}

/// Run-length encoded table of every character-level function over all scalars below `limit`.
/// One record per maximal run of code points with the same (delta, class) tuple.
pub fn sweep(lo: u32, limit: u32) {
    let stdout = std::io::stdout();
    let mut out = std::io::BufWriter::new(stdout.lock());
    // configuration-independent functions
    rle(&mut out, "G", lo, limit, |c| {
        let ch = char::from_u32(c)?;
        Some(vec![
            chars::to_lower_case(ch) as i64 - c as i64,
            chars::is_upper_case(ch) as i64,
            chars::normalize(ch) as i64 - c as i64,
        ])
    });
    for (name, cfg) in configs() {
        rle(&mut out, &format!("U{name}"), lo, limit, |c| {
            let ch = char::from_u32(c)?;
            let (cn, k) = verif::class_norm(ch, &cfg);
            Some(vec![
                verif::norm(ch, &cfg) as i64 - c as i64,
                cn as i64 - c as i64,
                k as i64,
                verif::char_class(ch, &cfg) as i64,
            ])
        });
        rle(&mut out, &format!("A{name}"), lo, limit.min(128), |c| {
            let (cn, k) = verif::class_norm_ascii(c as u8, &cfg);
            Some(vec![
                verif::norm_ascii(c as u8, &cfg) as i64 - c as i64,
                cn as i64 - c as i64,
                k as i64,
                verif::char_class_ascii(c as u8, &cfg) as i64,
            ])
        });
    }
}

fn rle(out: &mut impl Write, tag: &str, lo: u32, limit: u32, f: impl Fn(u32) -> Option<Vec<i64>>) {
    let mut cur: Option<(u32, u32, Vec<i64>)> = None;
    for c in lo..limit {
        let v = match f(c) {
            Some(v) => v,
            None => continue, // surrogates
        };
        match &mut cur {
            Some((_, last, val)) if *val == v && *last + 1 == c => *last = c,
            _ => {
                if let Some((s, l, val)) = cur.take() {
                    emit(out, tag, s, l, &val);
                }
                cur = Some((c, c, v));
            }
        }
    }
    if let Some((s, l, val)) = cur.take() {
        emit(out, tag, s, l, &val);
    }
}

fn emit(out: &mut impl Write, tag: &str, s: u32, l: u32, val: &[i64]) {
    write!(out, "{tag} {s} {l}").unwrap();
    for v in val {
        write!(out, " {v}").unwrap();
    }
    writeln!(out).unwrap();
}


/// `hm sites-probe LO HI`: every place of the matcher that normalises a haystack character must see what
/// `Char::normalize` sees.  For every scalar c in [LO, HI) and every configuration for which c is interesting
/// (norm(c) != c, or c is a letter with case, or c < 0x250) the one-character haystack [c], and c embedded in
/// "x c y", are matched against the needle [norm(c)] through all twelve entry points (six algorithms, score-only
/// and indices) in every representation combination that can hold the strings.  Prints one line per
/// disagreement: `cfg algo variant shape hrepr nrepr c needle got`.  Nothing printed = all sites agree.
pub fn sites_probe(lo: u32, hi: u32) {
    use nucleo_matcher::{Matcher, Utf32Str};
    let stdout = std::io::stdout();
    let mut out = std::io::BufWriter::new(stdout.lock());
    let mut n_calls: u64 = 0;
    for (name, cfg) in configs() {
        let mut m = Matcher::new(cfg.clone());
        for c in lo..hi {
            let Some(ch) = char::from_u32(c) else { continue };
            let nc = verif::norm(ch, &cfg);
            if nc == ch && c >= 0x250 && !(ch.is_uppercase() || ch.is_lowercase()) {
                continue;
            }
            // the needle must itself be normalised for the configuration
            if verif::norm(nc, &cfg) != nc {
                continue;
            }
            // fillers that cannot be (or normalise to) the needle character
            let fill: Vec<char> = ['#', '%', '@'].into_iter().filter(|f| *f != nc && *f != ch).collect();
            let shapes: [(&str, Vec<char>); 5] = [("c", vec![ch]), ("xcy", vec![fill[0], ch, fill[1]]), ("c c", vec![ch, ' ', ch]),
                ("cc", vec![ch, ch]), ("-c--c-", vec!['-', ch, '-', '-', ch, '-'])];
            for (shape, hay) in shapes.iter() {
                let hay_ascii: Option<Vec<u8>> = if hay.iter().all(|x| x.is_ascii()) { Some(hay.iter().map(|&x| x as u8).collect()) } else { None };
                // two-character needles for the last two shapes (the ASCII prefilter only runs for needles of length >= 2)
                let two = *shape == "cc" || *shape == "-c--c-";
                if two && (nc == '-' || ch == '-') {
                    continue;
                }
                let needle = if two { vec![nc, nc] } else { vec![nc] };
                let needle_ascii: Option<Vec<u8>> = if nc.is_ascii() { Some(needle.iter().map(|&x| x as u8).collect()) } else { None };
                let mut hviews: Vec<(&str, Utf32Str<'_>)> = vec![("U", Utf32Str::Unicode(hay))];
                if let Some(b) = &hay_ascii {
                    hviews.push(("A", Utf32Str::Ascii(b)));
                }
                let mut nviews: Vec<(&str, Utf32Str<'_>)> = vec![("U", Utf32Str::Unicode(&needle))];
                if let Some(b) = &needle_ascii {
                    nviews.push(("A", Utf32Str::Ascii(b)));
                }
                for (hr, hv) in hviews.iter() {
                    for (nr, nv) in nviews.iter() {
                        if *hr == "A" && *nr == "U" {
                            continue; // known finding K1
                        }
                        for algo in ["F", "G", "S", "P", "O", "E"] {
                            // which shapes the kind must accept: everything contains c; anchored kinds only where c is at the edge
                            let expect = match (algo, *shape) {
                                ("E", "c") | ("E", "cc") => true,
                                (_, "cc") => true,
                                ("F", "-c--c-") | ("G", "-c--c-") => true,
                                (_, "-c--c-") => false,
                                ("E", _) => false,
                                ("P", "xcy") | ("O", "xcy") => false,
                                _ => true,
                            };
                            // exact on "c c" etc. is a genuine non-match; only check the positive expectations and exact negatives
                            for with_idx in [false, true] {
                                n_calls += 1;
                                let mut idx = Vec::new();
                                let got = match (algo, with_idx) {
                                    ("F", false) => m.fuzzy_match(*hv, *nv),
                                    ("F", true) => m.fuzzy_indices(*hv, *nv, &mut idx),
                                    ("G", false) => m.fuzzy_match_greedy(*hv, *nv),
                                    ("G", true) => m.fuzzy_indices_greedy(*hv, *nv, &mut idx),
                                    ("S", false) => m.substring_match(*hv, *nv),
                                    ("S", true) => m.substring_indices(*hv, *nv, &mut idx),
                                    ("P", false) => m.prefix_match(*hv, *nv),
                                    ("P", true) => m.prefix_indices(*hv, *nv, &mut idx),
                                    ("O", false) => m.postfix_match(*hv, *nv),
                                    ("O", true) => m.postfix_indices(*hv, *nv, &mut idx),
                                    ("E", false) => m.exact_match(*hv, *nv),
                                    (_, _) => m.exact_indices(*hv, *nv, &mut idx),
                                };
                                if got.is_some() != expect {
                                    writeln!(out, "{} {} {} {} {} {} {} {} {}", name, algo, if with_idx { "indices" } else { "score" }, shape.replace(' ', "_"), hr, nr, c, nc as u32, got.is_some() as u8).unwrap();
                                }
                            }
                        }
                    }
                }
            }
        }
    }
    writeln!(out, "# calls {}", n_calls).unwrap();
}
