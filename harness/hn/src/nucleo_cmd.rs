//! `hn nucleo FILE`: every line is one history over a fresh `Nucleo` (1 pool thread, 1 column):
//!   push T H G   spawn injector thread T pushing item G through handle H (parks at its start gate)
//!   st T         step thread T (first: up to push.reserved, second: publishes, notifies and returns)
//!   inj H | clone H H2 | dropinj H
//!   edit P A     reparse column 0 with pattern P of the pool, append flag A
//!   restart C
//!   tick Z       begin Nucleo::tick on the UI thread (timeout 0 if Z=0 else 10 s); parks at tick.begin
//!   ut           step the UI thread to its next yield point (or completion)
//!   run          step the background run to its next yield point (or to the release of the lock)
//!   obs          print snapshot / counters
//! `hn nucleo-table` prints the score table (pattern pool x text pool) the model needs.
use crate::sched::{self, Foreign, St};
use nucleo::pattern::{CaseMatching, Normalization};
use nucleo::{Config, Injector, Nucleo};
use std::collections::HashMap;
use std::io::{BufRead, Write};
use std::sync::atomic::{AtomicUsize, Ordering};
use std::sync::Arc;

pub const PATTERNS: [&str; 7] = ["", "a", "ab", "abc", "b", "x", "ab c"];
pub const TEXTS: [&str; 12] = ["a", "ab", "abc", "b", "xab", "a b c", "cab", "zzz", "abx", "ba", "aXbXc", "cba/abc"];

pub fn table() {
    let mut matcher = nucleo::Matcher::new(Config::DEFAULT);
    for (p, pat) in PATTERNS.iter().enumerate() {
        let pattern = nucleo::pattern::Pattern::parse(pat, CaseMatching::Smart, Normalization::Smart);
        for (t, text) in TEXTS.iter().enumerate() {
            let hay = nucleo::Utf32String::from(*text);
            let sc = pattern.score(hay.slice(..), &mut matcher);
            println!("{} {} {} {}", p, t, sc.map_or("-".to_string(), |s| s.to_string()), hay.len());
        }
    }
}

struct Ptr(*mut Nucleo<u64>);
unsafe impl Send for Ptr {}

fn site_id(s: &str) -> &'static str {
    match s {
        "push.reserved" => "res",
        "tick.begin" => "begin",
        "tick.before_lock" => "before_lock",
        "tick.before_try_lock" => "before_try",
        "tick.try_lock_failed" => "try_failed",
        "tick.after_rearm" => "after_rearm",
        "tick.before_spawn" => "before_spawn",
        "run.start" => "start",
        "run.before_sort" => "before_sort",
        "run.before_notify_read" => "before_notify_read",
        "run.before_notify" => "before_notify",
        "run.end" => "end",
        "run.unlocked" => "unlocked",
        "run.done" => "done",
        _ => "other",
    }
}

fn show(st: &St) -> String {
    match st {
        St::Parked(s, _) => format!("Y{}", site_id(s)),
        St::Finished(r) => r.clone(),
        St::Running => "BLOCKED".into(),
        St::Gate => "GATE".into(),
    }
}

pub fn run(file: &str) {
    std::panic::set_hook(Box::new(|_| {}));
    sched::install_hook();
    // the pool threads append to `in_flight` in whatever order they win the mutex: with a single
    // pool thread the natural order is ascending, so make the hook produce a different legal order
    nucleo::verif::set_in_flight_permutation(Some(Arc::new(|v: &mut Vec<u32>| v.reverse())));
    let f = std::io::BufReader::new(std::fs::File::open(file).unwrap());
    let stdout = std::io::stdout();
    let mut out = std::io::BufWriter::new(stdout.lock());
    const IGNORE_PUSH: [&str; 3] = ["push.before_reserve", "push.before_publish", "alloc.before_cas"];
    for line in f.lines() {
        let line = line.unwrap();
        if line.trim().is_empty() {
            continue;
        }
        let notifies = Arc::new(AtomicUsize::new(0));
        nucleo::verif::take_uninit_reads();
        let n2 = notifies.clone();
        let run_ctl = sched::new_ctl(vec![]);
        sched::set_global(Some(run_ctl.clone()));
        let runner = Foreign { ctl: run_ctl };
        let mut nucleo: Box<Nucleo<u64>> = Box::new(Nucleo::new(
            Config::DEFAULT,
            Arc::new(move || {
                n2.fetch_add(1, Ordering::SeqCst);
            }),
            Some(1),
            1,
        ));
        let nptr = &mut *nucleo as *mut Nucleo<u64>;
        let mut injectors: HashMap<u64, Arc<Injector<u64>>> = HashMap::new();
        let mut threads: HashMap<u64, sched::Thread> = HashMap::new();
        let mut ui: Option<sched::Thread> = None;
        let mut obs: Vec<String> = Vec::new();
        for ev in line.split(';') {
            let p: Vec<&str> = ev.trim().split(' ').collect();
            // once a thread is blocked where the schedule did not expect it (the implementation has
            // diverged from the model) the rest of the schedule is meaningless
            if obs.last().map_or(false, |o: &String| o == "BLOCKED" || o == "ABORTED") {
                obs.push("ABORTED".into());
                continue;
            }
            match p[0] {
                "push" => {
                    let t: u64 = p[1].parse().unwrap();
                    let h: u64 = p[2].parse().unwrap();
                    let g: u64 = p[3].parse().unwrap();
                    match injectors.get(&h) {
                        Some(inj) => {
                            let inj = inj.clone();
                            threads.insert(
                                t,
                                sched::spawn(IGNORE_PUSH.to_vec(), move || {
                                    let idx = inj.push(g, |v, cols| {
                                        cols[0] = TEXTS[(*v as usize) % TEXTS.len()].into();
                                    });
                                    format!("R{}", idx)
                                }),
                            );
                            obs.push("-".into());
                        }
                        None => obs.push("NOINJ".into()),
                    }
                }
                "st" => {
                    let t: u64 = p[1].parse().unwrap();
                    obs.push(threads.get(&t).map_or("-".into(), |th| show(&th.step())));
                }
                "inj" => {
                    let h: u64 = p[1].parse().unwrap();
                    if ui.is_none() {
                        injectors.insert(h, Arc::new(nucleo.injector()));
                    }
                    obs.push("-".into());
                }
                "clone" => {
                    let h: u64 = p[1].parse().unwrap();
                    let h2: u64 = p[2].parse().unwrap();
                    if let Some(i) = injectors.get(&h).cloned() {
                        // a real Injector::clone (a new handle on the same stream)
                        injectors.insert(h2, Arc::new((*i).clone()));
                    }
                    obs.push("-".into());
                }
                "dropinj" => {
                    let h: u64 = p[1].parse().unwrap();
                    injectors.remove(&h);
                    obs.push("-".into());
                }
                "edit" => {
                    let pid: usize = p[1].parse().unwrap();
                    let app = p[2] == "1";
                    if ui.is_none() {
                        nucleo.pattern.reparse(0, PATTERNS[pid], CaseMatching::Smart, Normalization::Smart, app);
                    }
                    obs.push("-".into());
                }
                "restart" => {
                    if ui.is_none() {
                        nucleo.restart(p[1] == "1");
                    }
                    obs.push("-".into());
                }
                "tick" => {
                    if ui.is_none() {
                        let timeout: u64 = if p[1] == "0" { 0 } else { 10_000 };
                        let ptr = Ptr(nptr);
                        let th = sched::spawn(vec![], move || {
                            let ptr = ptr;
                            let st = unsafe { (*ptr.0).tick(timeout) };
                            format!("T{}{}", st.changed as u8, st.running as u8)
                        });
                        let s = th.step(); // from the gate to tick.begin
                        obs.push(show(&s));
                        ui = Some(th);
                    } else {
                        obs.push("BUSY".into());
                    }
                }
                "ut" => {
                    let mut done = false;
                    match &ui {
                        Some(th) => {
                            let s = th.step();
                            if let St::Finished(_) = s {
                                done = true;
                            }
                            obs.push(show(&s));
                        }
                        None => obs.push("-".into()),
                    }
                    if done {
                        if let Some(mut th) = ui.take() {
                            th.finish();
                        }
                    }
                }
                "run" => {
                    // the run must be parked (wait a little for the pool thread to reach run.start)
                    match runner.wait_parked(2500) {
                        St::Parked(site, _) => {
                            runner.go();
                            if site == "run.done" {
                                // the closure returns; the pool thread goes idle
                                std::thread::sleep(std::time::Duration::from_millis(2));
                                obs.push("Yidle".into());
                            } else {
                                let st = runner.wait_parked(2500);
                                let mut o = show(&st);
                                // at the post-unlock sites report whether the worker lock is held (by a later tick or a queued run;
                                // never by this run) - compared with the model's lock state
                                if let St::Parked(s, _) = &st {
                                    if (*s == "run.unlocked" || *s == "run.before_notify" || *s == "run.done")
                                        && unsafe { (*nptr).verif_worker_locked() }
                                    {
                                        o.push_str("!locked");
                                    }
                                }
                                obs.push(o);
                            }
                        }
                        _ => obs.push("NORUN".into()),
                    }
                }
                "obs" => {
                    if ui.is_some() {
                        obs.push("BUSY".into());
                    } else {
                        let snap = nucleo.snapshot();
                        let ms: Vec<String> = snap.matches().iter().map(|m| format!("{}:{}", m.score, m.idx)).collect();
                        let mut data = Vec::new();
                        for n in 0..snap.matched_item_count() {
                            // reads the item through the unchecked accessor, as a UI would
                            let it = snap.get_matched_item(n).unwrap();
                            data.push(format!("{}", it.data));
                        }
                        let ptxt: Vec<String> = snap.pattern().column_pattern(0).atoms.iter().map(|a| a.needle_text().to_string()).collect();
                        let ptxt = ptxt.join(" ");
                        let pid = PATTERNS.iter().position(|t| *t == ptxt).map_or(-1, |x| x as i64);
                        obs.push(format!(
                            "O p={} c={} m={} d={} inj={} n={} u={}",
                            pid,
                            snap.item_count(),
                            if ms.is_empty() { "-".to_string() } else { ms.join(",") },
                            if data.is_empty() { "-".to_string() } else { data.join(",") },
                            nucleo.active_injectors(),
                            notifies.load(Ordering::SeqCst),
                            nucleo::verif::take_uninit_reads()
                        ));
                    }
                }
                _ => obs.push("?".into()),
            }
        }
        // wind down: finish the tick, let the run go, finish injector threads
        sched::set_global(None);
        runner.go();
        if let Some(mut th) = ui.take() {
            // a parked run would block a waiting tick: keep releasing it
            for _ in 0..50 {
                runner.go();
                match th.step() {
                    St::Finished(_) => break,
                    _ => {}
                }
            }
            th.finish();
        }
        for (_, th) in threads.iter_mut() {
            th.finish();
        }
        for _ in 0..20 {
            runner.go();
            std::thread::sleep(std::time::Duration::from_millis(1));
        }
        drop(injectors);
        drop(nucleo);
        writeln!(out, "{}", obs.join(";")).unwrap();
    }
}
