//! `hn nucleo FILE`: every line is one history over a fresh `Nucleo` (1 pool thread, 2 matcher columns):
//!   push T H G   spawn injector thread T pushing item G through handle H (parks at its start gate)
//!   ext T H G0 N S C  spawn injector thread T calling Injector::extend through handle H with the N items
//!                G0, G0+S, G0+2S, ...; it parks at extend.reserved (all N indices reserved by one fetch_add) and then
//!                before publishing the items number C, 2C, ... of the batch (C = N: the whole batch in one step)
//!   st T         step thread T (push: first up to push.reserved, second: publishes, notifies and returns R<idx>;
//!                ext: first up to extend.reserved, then one chunk of C publications per step; the last step also
//!                notifies and returns E<first idx>).  The notify callback checks, when it is called on an injector
//!                thread, that everything that call injects is already reserved, counted by injected_items() and
//!                readable; the result gets a suffix `!notify(...)` otherwise (never produced by the model).
//!   inj H | clone H H2 | dropinj H
//!   edit P A     switch to entry P of the pattern pool (a PAIR of column texts): every column whose text differs
//!                from the current entry is reparsed; A=1 (only generated when every changed column is a truthful
//!                append) reparses them with append=true; A=0 reparses each changed column with its own truthful
//!                flag (old text is a prefix of the new one) unless all of them are appends, in which case all get
//!                append=false (an extension typed without the hint).  If no column differs column 0 is reparsed
//!                with flag A.  The combined status (max over the columns) is Update iff A=1 (and nothing stronger
//!                is pending), else Rescore - which is what the model's single EEdit computes.
//!   restart C
//!   cfg          Nucleo::update_config with the configuration the Nucleo was created with (the properties assume a fixed
//!                matcher configuration): must change nothing, but takes the worker lock.  Not called while a tick is in
//!                progress.  Only generated where the protocol model says the lock is free; the call is made on a
//!                controlled thread so that a call that does not return within the scheduler's step timeout is reported
//!                as `BLOCKED` (the rest of the history is then not replayed) instead of hanging the harness
//!   tick Z [as]  begin Nucleo::tick on the UI thread (timeout 0 if Z=0 else 10 s); parks at tick.begin.  With `as` the UI
//!                thread also parks at tick.after_spawn (directly after ThreadPool::spawn; the protocol model has no state
//!                change there), otherwise it runs through that site
//!   ut           step the UI thread to its next yield point (or completion)
//!   utb          step the UI thread INTO a blocking lock acquisition: it is released from its yield point and is expected not
//!                to reach another one (observation `B`: no new park within 80 ms - the worker lock is held by the run);
//!                if it does park / return, that state is the observation (the implementation did not block)
//!   utw          the UI thread that blocked at `utb` must have arrived at its next yield point (it got the lock when a `run`
//!                step released it; that `run` step waits for it): prints where it is parked, `B` if it is still blocked
//!   run          step the background run to its next yield point (or to the release of the lock)
//!   obs          print snapshot / counters: pattern, item count, matches, matched item data, active_injectors, notify
//!                count, unchecked reads of uninitialised entries, g = Snapshot::get_item(i).data for i in 0..8 (`-` = None),
//!                k = number of matcher columns of the items handed out (matched items, get_item): 2, or the first other value.
//!                Every fill callback (push and extend) checks the number of columns it is handed: a thread that saw
//!                N != 2 gets the suffix `!cols=N` on its result (R<idx>!cols=N / E<idx>!cols=N; never produced by the model)
//! `hn nucleo-table` prints the score table (pattern pool x text pool) the model needs.
use crate::sched::{self, Foreign, St};
use nucleo::pattern::{CaseMatching, Normalization};
use nucleo::{Config, Injector, Nucleo};
use std::collections::HashMap;
use std::io::{BufRead, Write};
use std::sync::atomic::{AtomicUsize, Ordering};
use std::sync::Arc;

pub const NCOLS: usize = 2;
/// `obs` reports Snapshot::get_item(i) for i < GET_ITEMS (g=...: the item's data, `-` for None)
pub const GET_ITEMS: u32 = 8;
/// the matcher configuration of the Nucleo under test; `cfg` hands the same value to Nucleo::update_config
const CONFIG: Config = Config::DEFAULT;
/// `utb`: how long the UI thread gets to reach another yield point before it counts as blocked
const BLOCK_WAIT_MS: u64 = 80;
/// pattern pool: (column 0 text, column 1 text); ids 0..=6 are the one-column pool of the earlier harness
/// ids 14..=17 consist only of NEGATED atoms: every item they match has score 0, the score of the placeholders
/// the worker sorts behind the real matches and truncates
pub const PATTERNS: [(&str, &str); 18] = [
    ("", ""),
    ("a", ""),
    ("ab", ""),
    ("abc", ""),
    ("b", ""),
    ("x", ""),
    ("ab c", ""),
    ("", "p"),
    ("a", "p"),
    ("ab", "q"),
    ("a", "pq"),
    ("b", "p"),
    ("ab", "p"),
    ("a", "q"),
    ("!a", ""),
    ("!b", ""),
    ("!ab", ""),
    ("", "!p"),
];
/// text pool: (column 0, column 1); entry k + 12 has the column 0 text of entry k (same score and column 0
/// length under a pattern whose column 1 is empty) and a column 1 text of a different length
pub const TEXTS: [(&str, &str); 24] = [
    ("a", "p"),
    ("ab", "q"),
    ("abc", "pq"),
    ("b", ""),
    ("xab", "qq"),
    ("a b c", "p q"),
    ("cab", "qp"),
    ("zzz", "pp"),
    ("abx", "q"),
    ("ba", "pqr"),
    ("aXbXc", ""),
    ("cba/abc", "qqqq"),
    ("a", "qqq"),
    ("ab", ""),
    ("abc", "p"),
    ("b", "pq"),
    ("xab", ""),
    ("a b c", "q"),
    ("cab", "pppp"),
    ("zzz", "q"),
    ("abx", "qpqp"),
    ("ba", ""),
    ("aXbXc", "pq"),
    ("cba/abc", "p"),
];

thread_local! {
    /// a number of matcher columns other than NCOLS handed to a fill callback on this thread (the first one seen)
    static COLS_BAD: std::cell::Cell<Option<usize>> = std::cell::Cell::new(None);
}
/// suffix for the result of a push / extend thread: `!cols=N` iff one of its fill callbacks was handed N != NCOLS matcher
/// columns (never produced by the model: every stream of the Nucleo has the configured number of columns)
fn cols_end() -> String {
    COLS_BAD.with(|c| c.take()).map_or(String::new(), |n| format!("!cols={}", n))
}

fn fill(v: &u64, cols: &mut [nucleo::Utf32String]) {
    if cols.len() != NCOLS {
        COLS_BAD.with(|c| {
            if c.get().is_none() {
                c.set(Some(cols.len()))
            }
        });
    }
    let (c0, c1) = TEXTS[(*v as usize) % TEXTS.len()];
    cols[0] = c0.into();
    cols[1] = c1.into();
}

pub fn table() {
    // score: the real MultiPattern::score over both columns; length: the TOTAL length of the matcher columns
    let mut matcher = nucleo::Matcher::new(Config::DEFAULT);
    for (p, pat) in PATTERNS.iter().enumerate() {
        let mut pattern = nucleo::pattern::MultiPattern::new(NCOLS);
        pattern.reparse(0, pat.0, CaseMatching::Smart, Normalization::Smart, false);
        pattern.reparse(1, pat.1, CaseMatching::Smart, Normalization::Smart, false);
        for (t, text) in TEXTS.iter().enumerate() {
            let hay = [nucleo::Utf32String::from(text.0), nucleo::Utf32String::from(text.1)];
            let sc = pattern.score(&hay, &mut matcher);
            println!("{} {} {} {}", p, t, sc.map_or("-".to_string(), |s| s.to_string()), hay[0].len() + hay[1].len());
        }
    }
}

/// what the notify callback needs to know when it runs on an injector thread
struct InjCtx {
    inj: Arc<Injector<u64>>,
    n: u64,
    calls: u32,
    bad: Option<String>,
}
thread_local! { static INJ: std::cell::RefCell<Option<InjCtx>> = std::cell::RefCell::new(None); }

fn inj_begin(inj: &Arc<Injector<u64>>, n: u64) {
    INJ.with(|c| *c.borrow_mut() = Some(InjCtx { inj: inj.clone(), n, calls: 0, bad: None }));
}
/// suffix for the result of a push / extend thread: empty iff notify was called exactly once, after the items were visible
fn inj_end() -> String {
    INJ.with(|c| match c.borrow_mut().take() {
        Some(ctx) => match (ctx.calls, ctx.bad) {
            (_, Some(b)) => format!("!notify({})", b),
            (0, None) => "!notify(never)".to_string(),
            (1, None) => String::new(),
            (k, None) => format!("!notify({}_calls)", k),
        },
        None => String::new(),
    })
}
/// called from the notify callback (on whatever thread calls it)
fn inj_notified() {
    INJ.with(|c| {
        if let Some(ctx) = c.borrow_mut().as_mut() {
            ctx.calls += 1;
            let cnt = ctx.inj.injected_items() as u64;
            match sched::reserved() {
                None => ctx.bad = Some(format!("before_reserve,injected_items={},batch={}", cnt, ctx.n)),
                Some(st) => {
                    let unread = (st..st + ctx.n).filter(|&i| ctx.inj.get(i as u32).is_none()).count();
                    if cnt < st + ctx.n || unread > 0 {
                        ctx.bad = Some(format!("early,first={},batch={},injected_items={},unreadable={}", st, ctx.n, cnt, unread));
                    }
                }
            }
        }
    });
}

struct Ptr(*mut Nucleo<u64>);
unsafe impl Send for Ptr {}

fn site_id(s: &str) -> &'static str {
    match s {
        "push.reserved" => "res",
        "extend.reserved" => "ext_res",
        "extend.before_publish" => "ext_pub",
        "tick.begin" => "begin",
        "tick.before_lock" => "before_lock",
        "tick.before_try_lock" => "before_try",
        "tick.try_lock_failed" => "try_failed",
        "tick.after_rearm" => "after_rearm",
        "tick.before_spawn" => "before_spawn",
        "tick.after_spawn" => "after_spawn",
        "run.start" => "start",
        "run.before_sort" => "before_sort",
        "run.before_notify_read" => "before_notify_read",
        "run.before_notify" => "before_notify",
        "run.end" => "end",
        "run.unlocked" => "unlocked",
        "run.done" => "done",
        _ => "other",
    }
}

fn show(st: &St) -> String {
    match st {
        St::Parked(s, _) => format!("Y{}", site_id(s)),
        St::Finished(r) => r.clone(),
        St::Running => "BLOCKED".into(),
        St::Gate => "GATE".into(),
    }
}

pub fn run(file: &str) {
    std::panic::set_hook(Box::new(|_| {}));
    sched::install_hook();
    // the pool threads append to `in_flight` in whatever order they win the mutex: with a single
    // pool thread the natural order is ascending, so make the hook produce a different legal order
    nucleo::verif::set_in_flight_permutation(Some(Arc::new(|v: &mut Vec<u32>| v.reverse())));
    let f = std::io::BufReader::new(std::fs::File::open(file).unwrap());
    let stdout = std::io::stdout();
    let mut out = std::io::BufWriter::new(stdout.lock());
    const IGNORE_PUSH: [&str; 3] = ["push.before_reserve", "push.before_publish", "alloc.before_cas"];
    for line in f.lines() {
        let line = line.unwrap();
        if line.trim().is_empty() {
            continue;
        }
        let notifies = Arc::new(AtomicUsize::new(0));
        nucleo::verif::take_uninit_reads();
        let n2 = notifies.clone();
        let run_ctl = sched::new_ctl(vec![]);
        sched::set_global(Some(run_ctl.clone()));
        let runner = Foreign { ctl: run_ctl };
        let mut nucleo: Box<Nucleo<u64>> = Box::new(Nucleo::new(
            CONFIG,
            Arc::new(move || {
                n2.fetch_add(1, Ordering::SeqCst);
                inj_notified();
            }),
            Some(1),
            NCOLS as u32,
        ));
        let mut cur_pid: usize = 0;
        // a `run` step found no parked run after the full wait: only a step of the UI thread can spawn one, so until
        // then further `run` steps do not wait again (keeps diverging histories cheap)
        let mut norun = false;
        let nptr = &mut *nucleo as *mut Nucleo<u64>;
        let mut injectors: HashMap<u64, Arc<Injector<u64>>> = HashMap::new();
        let mut threads: HashMap<u64, sched::Thread> = HashMap::new();
        let mut ui: Option<sched::Thread> = None;
        // the UI thread was stepped into the blocking lock by `utb` and has not come out yet
        let mut ui_blocked = false;
        let mut obs: Vec<String> = Vec::new();
        for ev in line.split(';') {
            let p: Vec<&str> = ev.trim().split(' ').collect();
            // once a thread is blocked where the schedule did not expect it (the implementation has
            // diverged from the model) the rest of the schedule is meaningless
            if obs.last().map_or(false, |o: &String| o == "BLOCKED" || o == "ABORTED") {
                obs.push("ABORTED".into());
                continue;
            }
            match p[0] {
                "push" => {
                    let t: u64 = p[1].parse().unwrap();
                    let h: u64 = p[2].parse().unwrap();
                    let g: u64 = p[3].parse().unwrap();
                    match injectors.get(&h) {
                        Some(inj) => {
                            let inj = inj.clone();
                            threads.insert(
                                t,
                                sched::spawn(IGNORE_PUSH.to_vec(), move || {
                                    inj_begin(&inj, 1);
                                    let idx = inj.push(g, fill);
                                    format!("R{}{}{}", idx, cols_end(), inj_end())
                                }),
                            );
                            obs.push("-".into());
                        }
                        None => obs.push("NOINJ".into()),
                    }
                }
                "ext" => {
                    let t: u64 = p[1].parse().unwrap();
                    let h: u64 = p[2].parse().unwrap();
                    let g0: u64 = p[3].parse().unwrap();
                    let n: u64 = p[4].parse().unwrap();
                    let step: u64 = p.get(5).map_or(1, |x| x.parse().unwrap());
                    let chunk: u64 = p.get(6).map_or(n, |x| x.parse().unwrap()).max(1);
                    match injectors.get(&h) {
                        Some(inj) => {
                            let inj = inj.clone();
                            let filter: sched::Filter = Arc::new(move |site, arg| {
                                if site == "extend.before_publish" {
                                    let k = arg - sched::reserved().unwrap_or(0);
                                    k > 0 && k % chunk == 0
                                } else {
                                    true
                                }
                            });
                            threads.insert(
                                t,
                                sched::spawn_filtered(vec!["alloc.before_cas"], Some(filter), move || {
                                    let values: Vec<u64> = (0..n).map(|k| g0 + k * step).collect();
                                    inj_begin(&inj, n);
                                    inj.extend(values.into_iter(), fill);
                                    let sfx = format!("{}{}", cols_end(), inj_end());
                                    format!("E{}{}", sched::reserved().map_or("?".to_string(), |x| x.to_string()), sfx)
                                }),
                            );
                            obs.push("-".into());
                        }
                        None => obs.push("NOINJ".into()),
                    }
                }
                "st" => {
                    let t: u64 = p[1].parse().unwrap();
                    obs.push(threads.get(&t).map_or("-".into(), |th| show(&th.step())));
                }
                "inj" => {
                    let h: u64 = p[1].parse().unwrap();
                    if ui.is_none() {
                        injectors.insert(h, Arc::new(nucleo.injector()));
                    }
                    obs.push("-".into());
                }
                "clone" => {
                    let h: u64 = p[1].parse().unwrap();
                    let h2: u64 = p[2].parse().unwrap();
                    if let Some(i) = injectors.get(&h).cloned() {
                        // a real Injector::clone (a new handle on the same stream)
                        injectors.insert(h2, Arc::new((*i).clone()));
                    }
                    obs.push("-".into());
                }
                "dropinj" => {
                    let h: u64 = p[1].parse().unwrap();
                    injectors.remove(&h);
                    obs.push("-".into());
                }
                "edit" => {
                    let pid: usize = p[1].parse().unwrap();
                    let app = p[2] == "1";
                    if ui.is_none() {
                        let old = [PATTERNS[cur_pid].0, PATTERNS[cur_pid].1];
                        let new = [PATTERNS[pid].0, PATTERNS[pid].1];
                        let changed: Vec<usize> = (0..NCOLS).filter(|&c| old[c] != new[c]).collect();
                        if changed.is_empty() {
                            nucleo.pattern.reparse(0, new[0], CaseMatching::Smart, Normalization::Smart, app);
                        } else {
                            let all_append = changed.iter().all(|&c| new[c].starts_with(old[c]));
                            for &c in &changed {
                                let flag = if app || all_append { app } else { new[c].starts_with(old[c]) };
                                nucleo.pattern.reparse(c, new[c], CaseMatching::Smart, Normalization::Smart, flag);
                            }
                        }
                        cur_pid = pid;
                    }
                    obs.push("-".into());
                }
                "restart" => {
                    if ui.is_none() {
                        nucleo.restart(p[1] == "1");
                    }
                    obs.push("-".into());
                }
                "cfg" => {
                    if ui.is_none() {
                        let ptr = Ptr(nptr);
                        let mut th = sched::spawn(vec![], move || {
                            let ptr = ptr;
                            unsafe { (*ptr.0).update_config(CONFIG) };
                            "-".to_string()
                        });
                        // update_config has no yield point: it returns, or it is stuck on the worker lock
                        match th.step() {
                            St::Finished(r) => {
                                th.finish();
                                obs.push(r);
                            }
                            s => {
                                // treated like a tick in progress: the wind-down releases the run and joins the thread
                                obs.push(show(&s));
                                ui = Some(th);
                            }
                        }
                    } else {
                        obs.push("-".into());
                    }
                }
                "tick" => {
                    norun = false;
                    if ui.is_none() {
                        let timeout: u64 = if p[1] == "0" { 0 } else { 10_000 };
                        let ptr = Ptr(nptr);
                        let ign = if p.get(2) == Some(&"as") { vec![] } else { vec!["tick.after_spawn"] };
                        let th = sched::spawn(ign, move || {
                            let ptr = ptr;
                            let st = unsafe { (*ptr.0).tick(timeout) };
                            format!("T{}{}", st.changed as u8, st.running as u8)
                        });
                        let s = th.step(); // from the gate to tick.begin
                        obs.push(show(&s));
                        ui = Some(th);
                    } else {
                        obs.push("BUSY".into());
                    }
                }
                "ut" => {
                    norun = false;
                    let mut done = false;
                    match &ui {
                        Some(th) => {
                            let s = th.step();
                            if let St::Finished(_) = s {
                                done = true;
                            }
                            obs.push(show(&s));
                        }
                        None => obs.push("-".into()),
                    }
                    if done {
                        if let Some(mut th) = ui.take() {
                            th.finish();
                        }
                    }
                }
                "utb" | "utw" => {
                    norun = false;
                    let mut done = false;
                    match &ui {
                        Some(th) => {
                            let s = if p[0] == "utb" {
                                th.go();
                                th.wait_settled(BLOCK_WAIT_MS)
                            } else {
                                th.wait_settled(if ui_blocked { 2500 } else { 0 })
                            };
                            match s {
                                St::Parked(..) => {
                                    ui_blocked = false;
                                    obs.push(show(&s));
                                }
                                St::Finished(_) => {
                                    ui_blocked = false;
                                    done = true;
                                    obs.push(show(&s));
                                }
                                _ => {
                                    ui_blocked = true;
                                    obs.push("B".into());
                                }
                            }
                        }
                        None => obs.push("-".into()),
                    }
                    if done {
                        if let Some(mut th) = ui.take() {
                            th.finish();
                        }
                    }
                }
                "run" => {
                    // the run must be parked (wait a little for the pool thread to reach run.start)
                    match runner.wait_parked(if norun { 20 } else { 2500 }) {
                        St::Parked(site, _) => {
                            norun = false;
                            runner.go();
                            if site == "run.done" {
                                // the closure returns; the pool thread goes idle
                                std::thread::sleep(std::time::Duration::from_millis(2));
                                obs.push("Yidle".into());
                            } else {
                                let st = runner.wait_parked(2500);
                                // the run has released the worker lock: a UI thread blocked on it (`utb`) acquires it now and
                                // goes on to its next yield point - wait for that, so that what follows is deterministic
                                if ui_blocked {
                                    if let (St::Parked("run.unlocked", _), Some(th)) = (&st, &ui) {
                                        match th.wait_settled(2500) {
                                            St::Parked(..) | St::Finished(_) => ui_blocked = false,
                                            _ => {}
                                        }
                                    }
                                }
                                let mut o = show(&st);
                                // at the post-unlock sites report whether the worker lock is held (by a later tick or a queued run;
                                // never by this run) - compared with the model's lock state
                                if let St::Parked(s, _) = &st {
                                    if (*s == "run.unlocked" || *s == "run.before_notify" || *s == "run.done")
                                        && unsafe { (*nptr).verif_worker_locked() }
                                    {
                                        o.push_str("!locked");
                                    }
                                }
                                obs.push(o);
                            }
                        }
                        _ => {
                            norun = true;
                            obs.push("NORUN".into())
                        }
                    }
                }
                "obs" => {
                    if ui.is_some() {
                        obs.push("BUSY".into());
                    } else {
                        let snap = nucleo.snapshot();
                        let ms: Vec<String> = snap.matches().iter().map(|m| format!("{}:{}", m.score, m.idx)).collect();
                        let mut data = Vec::new();
                        // k: the number of matcher columns of the items the snapshot hands out (matched items and
                        // get_item(i), i < GET_ITEMS): NCOLS, or the first other value seen
                        let mut kcols = NCOLS;
                        let mut see_cols = |n: usize| {
                            if n != NCOLS && kcols == NCOLS {
                                kcols = n
                            }
                        };
                        for n in 0..snap.matched_item_count() {
                            // a placeholder (idx == u32::MAX) left in the matches cannot be read (boxcar panics on that index)
                            if snap.matches()[n as usize].idx == u32::MAX {
                                data.push("PH".to_string());
                                continue;
                            }
                            // reads the item through the unchecked accessor, as a UI would
                            match snap.get_matched_item(n) {
                                Some(it) => {
                                    see_cols(it.matcher_columns.len());
                                    data.push(format!("{}", it.data))
                                }
                                None => data.push("NONE".to_string()),
                            }
                        }
                        // Snapshot::matched_items(range): the ranged iterator must hand out exactly the items of
                        // matches()[range] (all four bound shapes, ExactSizeIterator::len, the reversed iterator);
                        // skipped when a placeholder is left in the matches (reading it panics, reported as `placeholder`)
                        let mut mi = "ok".to_string();
                        if !data.iter().any(|d| d == "PH" || d == "NONE") {
                            let n = snap.matched_item_count();
                            let want = |a: usize, b: usize| -> Vec<String> { data[a..b].to_vec() };
                            let mut bad = |what: &str, got: Vec<String>, exp: Vec<String>| {
                                if got != exp && mi == "ok" {
                                    mi = format!("BAD({}:got[{}]want[{}])", what, got.join("|"), exp.join("|"));
                                }
                            };
                            let all: Vec<String> = snap.matched_items(..).map(|it| format!("{}", it.data)).collect();
                            bad("..", all, want(0, n as usize));
                            if snap.matched_items(..).len() != n as usize {
                                bad("len", vec![format!("{}", snap.matched_items(..).len())], vec![format!("{}", n)]);
                            }
                            if n >= 1 {
                                let (a, b) = (n / 3, n - n / 4);
                                let r: Vec<String> = snap.matched_items(a..b).map(|it| format!("{}", it.data)).collect();
                                bad("a..b", r, want(a as usize, b as usize));
                                let r: Vec<String> = snap.matched_items(a..=n - 1).map(|it| format!("{}", it.data)).collect();
                                bad("a..=last", r, want(a as usize, n as usize));
                                let r: Vec<String> = snap.matched_items(..b).rev().map(|it| format!("{}", it.data)).collect();
                                let mut e = want(0, b as usize);
                                e.reverse();
                                bad("rev(..b)", r, e);
                                let r: Vec<String> =
                                    snap.matched_items((std::ops::Bound::Excluded(a), std::ops::Bound::Unbounded)).map(|it| format!("{}", it.data)).collect();
                                bad("(a,..)", r, want((a + 1).min(n) as usize, n as usize));
                            }
                        }
                        let ptxt = |c: usize| -> String {
                            let v: Vec<String> = snap.pattern().column_pattern(c).atoms.iter().map(|a| format!("{}{}", if a.negative { "!" } else { "" }, a.needle_text())).collect();
                            v.join(" ")
                        };
                        let (p0, p1) = (ptxt(0), ptxt(1));
                        let pid = PATTERNS.iter().position(|t| t.0 == p0 && t.1 == p1).map_or(-1, |x| x as i64);
                        // index based access: what Snapshot::get_item hands out for the first indices of the snapshot's stream
                        let gi: Vec<String> = (0..GET_ITEMS)
                            .map(|i| {
                                snap.get_item(i).map_or("-".to_string(), |it| {
                                    see_cols(it.matcher_columns.len());
                                    format!("{}", it.data)
                                })
                            })
                            .collect();
                        obs.push(format!(
                            "O p={} c={} m={} d={} inj={} n={} u={} g={} k={} mi={}",
                            pid,
                            snap.item_count(),
                            if ms.is_empty() { "-".to_string() } else { ms.join(",") },
                            if data.is_empty() { "-".to_string() } else { data.join(",") },
                            nucleo.active_injectors(),
                            notifies.load(Ordering::SeqCst),
                            nucleo::verif::take_uninit_reads(),
                            gi.join(","),
                            kcols,
                            mi
                        ));
                    }
                }
                _ => obs.push("?".into()),
            }
        }
        // wind down: finish the tick, let the run go, finish injector threads
        sched::set_global(None);
        runner.go();
        if let Some(mut th) = ui.take() {
            // a parked run would block a waiting tick: keep releasing it
            for _ in 0..50 {
                runner.go();
                match th.step() {
                    St::Finished(_) => break,
                    _ => {}
                }
            }
            th.finish();
        }
        for (_, th) in threads.iter_mut() {
            th.finish();
        }
        for _ in 0..20 {
            runner.go();
            std::thread::sleep(std::time::Duration::from_millis(1));
        }
        drop(injectors);
        drop(nucleo);
        writeln!(out, "{}", obs.join(";")).unwrap();
    }
}
