//! nucleo-side harness: boxcar vector, worker/tick protocol and par_sort, built against /repo with
//! --cfg nucleo_verif.
mod append_cmd;
mod boxcar_cmd;
mod nucleo_cmd;
mod parsort_cmd;
mod sched;

fn main() {
    let args: Vec<String> = std::env::args().collect();
    match args.get(1).map(|s| s.as_str()).unwrap_or("") {
        "append" => append_cmd::run(&args[2]),
        "boxcar" => boxcar_cmd::run(&args[2]),
        "parsort" => parsort_cmd::run(&args[2]),
        "parsort-adv" => parsort_cmd::adversary(args[2].parse().expect("N"), args.get(3).map(|s| s == "desc").unwrap_or(false)),
        "nucleo" => nucleo_cmd::run(&args[2]),
        "nucleo-table" => nucleo_cmd::table(),
        _ => {
            eprintln!("usage: hn boxcar FILE");
            std::process::exit(2)
        }
    }
}
