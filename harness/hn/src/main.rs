//! nucleo-side harness: boxcar vector, worker/tick protocol and par_sort, built against /repo with
//! --cfg nucleo_verif.
mod append_cmd;
mod boxcar_cmd;
mod nucleo_cmd;
mod parsort_cmd;
mod probe_cmd;
mod sched;
mod scratch_cmd;

/// live bytes / allocations are counted for the leak probe (`hn leak`)
#[global_allocator]
static ALLOC: probe_cmd::Counting = probe_cmd::Counting;

fn main() {
    let args: Vec<String> = std::env::args().collect();
    match args.get(1).map(|s| s.as_str()).unwrap_or("") {
        "append" => append_cmd::run(&args[2]),
        "boxcar" => boxcar_cmd::run(&args[2]),
        "parsort" => parsort_cmd::run(&args[2]),
        "parsort-adv" => parsort_cmd::adversary(args[2].parse().expect("N"), args.get(3).map(|s| s == "desc").unwrap_or(false)),
        "nucleo" => nucleo_cmd::run(&args[2]),
        "nucleo-table" => nucleo_cmd::table(),
        "layout" => probe_cmd::layout(&args[2..]),
        "layout-types" => println!("{}", probe_cmd::LAYOUT_TYPES.join(" ")),
        "leak" => probe_cmd::leak(),
        "nucleo-cols" => probe_cmd::nucleo_cols(),
        "capacity" => probe_cmd::capacity(),
        "scratch-probe" => scratch_cmd::run(&args[2..]),
        _ => {
            eprintln!("usage: hn boxcar FILE | layout TYPE [CASE] | leak | ...");
            std::process::exit(2)
        }
    }
}
