//! `hn parsort FILE`: every line is one call of the crate-private `par_sort::par_quicksort`
//! (through the cfg(nucleo_verif) facade `nucleo::verif::par_quicksort`):
//!   <threads> <k|-> <mode> <s:i:l,s:i:l,...|->
//! threads: size of the rayon pool the call runs in; k: `-` = the cancel flag is never raised, `0` = it
//! is already raised when the call starts, k >= 1 = the comparator raises it at its k-th call;
//! mode: the comparator -- T = the worker's (score desc, placeholders idx = u32::MAX last, len asc,
//! idx asc), W = score desc only (a strict weak order with ties), L = `score >=` (not strict: an invalid
//! comparator), X = an arbitrary deterministic relation (not an order at all).
//! Output, one line per case: `<flag 0|1> <comparator calls> <s:i:l,...|->`, or `P` when the call panicked.
//!
//! `hn parsort-adv N [desc]`: McIlroy's antiquicksort adversary driven through the comparator of a
//! single-threaded par_quicksort of N items (is_less(x, y) = key[x] < key[y], or > with `desc`, unfrozen
//! keys being larger than every frozen one); prints the N keys it ended up with: sorting them with the
//! same comparator replays the comparisons, an input on which the quicksort's pivots are bad.
use std::collections::HashMap;
use std::io::{BufRead, Write};
use std::panic::{catch_unwind, AssertUnwindSafe};
use std::sync::atomic::{AtomicBool, AtomicUsize, Ordering};
use std::sync::Mutex;

#[derive(Clone, Copy, PartialEq, Eq, Debug)]
struct M {
    score: u32,
    idx: u32,
    len: u32,
}

/// the closure of Worker::run (src/worker.rs), with `len` standing for the summed column lengths
fn worker_less(a: &M, b: &M) -> bool {
    if a.score != b.score {
        return a.score > b.score;
    }
    if a.idx == u32::MAX {
        return false;
    }
    if b.idx == u32::MAX {
        return true;
    }
    if a.len == b.len {
        a.idx < b.idx
    } else {
        a.len < b.len
    }
}

fn less_mode(mode: u8, a: &M, b: &M) -> bool {
    match mode {
        b'T' => worker_less(a, b),
        b'W' => a.score > b.score,
        b'L' => a.score >= b.score,
        _ => (a.score as u64 * 31 + b.idx as u64 * 17 + a.len as u64 + 3 * b.score as u64) % 5 < 2,
    }
}

fn parse_elems(s: &str) -> Vec<M> {
    if s == "-" || s.is_empty() {
        return Vec::new();
    }
    s.split(',')
        .map(|e| {
            let mut p = e.split(':');
            let score = p.next().unwrap().parse().unwrap();
            let idx = p.next().unwrap().parse().unwrap();
            let len = p.next().unwrap().parse().unwrap();
            M { score, idx, len }
        })
        .collect()
}

fn show(v: &[M]) -> String {
    if v.is_empty() {
        return "-".into();
    }
    let mut s = String::with_capacity(v.len() * 12);
    for (n, m) in v.iter().enumerate() {
        if n > 0 {
            s.push(',');
        }
        s.push_str(&format!("{}:{}:{}", m.score, m.idx, m.len));
    }
    s
}

fn pool(pools: &mut HashMap<usize, rayon::ThreadPool>, n: usize) -> &rayon::ThreadPool {
    pools
        .entry(n)
        .or_insert_with(|| rayon::ThreadPoolBuilder::new().num_threads(n).build().unwrap())
}

pub fn run(file: &str) {
    std::panic::set_hook(Box::new(|_| {}));
    let f = std::io::BufReader::new(std::fs::File::open(file).expect("case file"));
    let out = std::io::stdout();
    let mut out = std::io::BufWriter::new(out.lock());
    let mut pools: HashMap<usize, rayon::ThreadPool> = HashMap::new();
    for line in f.lines() {
        let line = line.unwrap();
        let line = line.trim();
        if line.is_empty() {
            continue;
        }
        let p: Vec<&str> = line.split(' ').collect();
        let threads: usize = p[0].parse().unwrap();
        let k: Option<usize> = if p[1] == "-" { None } else { Some(p[1].parse().unwrap()) };
        let mode = p[2].as_bytes()[0];
        let mut v = parse_elems(p.get(3).copied().unwrap_or("-"));
        let canceled = AtomicBool::new(k == Some(0));
        let calls = AtomicUsize::new(0);
        let pl = pool(&mut pools, threads);
        let res = catch_unwind(AssertUnwindSafe(|| {
            pl.install(|| {
                nucleo::verif::par_quicksort(
                    &mut v,
                    |a: &M, b: &M| {
                        let c = calls.fetch_add(1, Ordering::Relaxed) + 1;
                        if Some(c) == k {
                            canceled.store(true, Ordering::Relaxed);
                        }
                        less_mode(mode, a, b)
                    },
                    &canceled,
                )
            })
        }));
        match res {
            Ok(flag) => writeln!(out, "{} {} {}", flag as u8, calls.load(Ordering::Relaxed), show(&v)).unwrap(),
            Err(_) => writeln!(out, "P").unwrap(),
        }
        // one flush per case: if the next case kills or hangs the process the results so far are attributed
        out.flush().unwrap();
    }
}

struct Adv {
    val: Vec<usize>,
    nsolid: usize,
    candidate: usize,
    gas: usize,
}

pub fn adversary(n: usize, desc: bool) {
    let st = Mutex::new(Adv { val: vec![n; n], nsolid: 0, candidate: 0, gas: n });
    let mut items: Vec<u32> = (0..n as u32).collect();
    let canceled = AtomicBool::new(false);
    // a large stack: the point of the adversary is to produce inputs on which the sort recurses deeply
    let pl = rayon::ThreadPoolBuilder::new().num_threads(1).stack_size(4 << 30).build().unwrap();
    pl.install(|| {
        nucleo::verif::par_quicksort(
            &mut items,
            |x: &u32, y: &u32| {
                let (x, y) = (*x as usize, *y as usize);
                let mut s = st.lock().unwrap();
                if s.val[x] == s.gas && s.val[y] == s.gas {
                    let fr = if x == s.candidate { x } else { y };
                    s.val[fr] = s.nsolid;
                    s.nsolid += 1;
                }
                if s.val[x] == s.gas {
                    s.candidate = x;
                } else if s.val[y] == s.gas {
                    s.candidate = y;
                }
                if desc {
                    s.val[x] > s.val[y]
                } else {
                    s.val[x] < s.val[y]
                }
            },
            &canceled,
        )
    });
    let s = st.lock().unwrap();
    let strs: Vec<String> = s.val.iter().map(|v| v.to_string()).collect();
    println!("{}", strs.join(","));
}
