//! Deterministic scheduler over the cfg(nucleo_verif) yield points: every participating thread parks
//! at each yield point until the controller lets it run to the next one.
use std::cell::{Cell, RefCell};
use std::sync::{Arc, Condvar, Mutex};
use std::time::Duration;

#[derive(Clone, Debug, PartialEq)]
pub enum St {
    Gate,                       // waiting at the start gate / asked to go
    Running,
    Parked(&'static str, u64),  // at a yield point
    Finished(String),           // returned (result rendered) or panicked ("PANIC")
}

/// decides per (site, argument) whether the thread parks there (evaluated on the thread itself)
pub type Filter = Arc<dyn Fn(&'static str, u64) -> bool + Send + Sync>;

pub struct Ctl {
    pub st: Mutex<(St, bool)>, // (state, go flag)
    pub cv: Condvar,
    pub ignore: Vec<&'static str>,
    pub filter: Option<Filter>,
}

thread_local! { static CTL: RefCell<Option<Arc<Ctl>>> = RefCell::new(None); }
thread_local! { static RESERVED: Cell<Option<u64>> = Cell::new(None); }

/// first index this thread's push / extend has reserved (argument of push.reserved / extend.reserved), if it got there
pub fn reserved() -> Option<u64> {
    RESERVED.with(|r| r.get())
}
static GLOBAL_CTL: Mutex<Option<Arc<Ctl>>> = Mutex::new(None);

/// controller used by unregistered threads (the pool thread executing Worker::run) at `run.*` sites
pub fn set_global(ctl: Option<Arc<Ctl>>) {
    *GLOBAL_CTL.lock().unwrap() = ctl;
}
pub fn new_ctl(ignore: Vec<&'static str>) -> Arc<Ctl> {
    Arc::new(Ctl { st: Mutex::new((St::Running, false)), cv: Condvar::new(), ignore, filter: None })
}

pub fn install_hook() {
    nucleo::verif::set_hook(Some(Arc::new(|site, arg| {
        if site == "push.reserved" || site == "extend.reserved" {
            RESERVED.with(|r| r.set(Some(arg)));
        }
        let mut ctl = CTL.with(|c| c.borrow().clone());
        if ctl.is_none() && site.starts_with("run.") {
            ctl = GLOBAL_CTL.lock().unwrap().clone();
        }
        if let Some(ctl) = ctl {
            if ctl.ignore.iter().any(|s| *s == site) {
                return;
            }
            if let Some(f) = &ctl.filter {
                if !f(site, arg) {
                    return;
                }
            }
            let mut g = ctl.st.lock().unwrap();
            g.0 = St::Parked(site, arg);
            g.1 = false;
            ctl.cv.notify_all();
            while !g.1 {
                g = ctl.cv.wait(g).unwrap();
            }
            g.0 = St::Running;
        }
    })));
}

pub struct Thread {
    pub ctl: Arc<Ctl>,
    pub handle: Option<std::thread::JoinHandle<()>>,
}

/// spawn a controlled thread; it waits at its start gate until the first `step`
pub fn spawn(ignore: Vec<&'static str>, body: impl FnOnce() -> String + Send + 'static) -> Thread {
    spawn_filtered(ignore, None, body)
}

/// like `spawn`; the thread parks only at the sites the filter accepts
pub fn spawn_filtered(ignore: Vec<&'static str>, filter: Option<Filter>, body: impl FnOnce() -> String + Send + 'static) -> Thread {
    let ctl = Arc::new(Ctl { st: Mutex::new((St::Gate, false)), cv: Condvar::new(), ignore, filter });
    let c2 = ctl.clone();
    let handle = std::thread::spawn(move || {
        CTL.with(|c| *c.borrow_mut() = Some(c2.clone()));
        {
            let mut g = c2.st.lock().unwrap();
            while !g.1 {
                g = c2.cv.wait(g).unwrap();
            }
            g.0 = St::Running;
        }
        let r = std::panic::catch_unwind(std::panic::AssertUnwindSafe(body));
        let mut g = c2.st.lock().unwrap();
        g.0 = St::Finished(r.unwrap_or_else(|_| "PANIC".to_string()));
        c2.cv.notify_all();
    });
    Thread { ctl, handle: Some(handle) }
}

impl Thread {
    /// let the thread run to its next yield point (or completion); returns the new state
    pub fn step(&self) -> St {
        let mut g = self.ctl.st.lock().unwrap();
        if let St::Finished(_) = g.0 {
            return g.0.clone();
        }
        g.1 = true;
        g.0 = St::Running;
        self.ctl.cv.notify_all();
        loop {
            let (ng, to) = self.ctl.cv.wait_timeout(g, Duration::from_millis(2500)).unwrap();
            g = ng;
            match g.0 {
                St::Parked(..) | St::Finished(_) => return g.0.clone(),
                _ => {
                    if to.timed_out() {
                        return St::Running; // stuck (blocked on a real lock)
                    }
                }
            }
        }
    }
    /// like step but does not wait for the thread to park (it may block on a real lock)
    pub fn go(&self) {
        let mut g = self.ctl.st.lock().unwrap();
        if let St::Finished(_) = g.0 {
            return;
        }
        g.1 = true;
        g.0 = St::Running;
        self.ctl.cv.notify_all();
    }
    pub fn state(&self) -> St {
        self.ctl.st.lock().unwrap().0.clone()
    }
    /// wait (bounded) until the thread is parked or finished
    pub fn wait_settled(&self, ms: u64) -> St {
        let mut g = self.ctl.st.lock().unwrap();
        let deadline = std::time::Instant::now() + Duration::from_millis(ms);
        loop {
            match g.0 {
                St::Parked(..) | St::Finished(_) => return g.0.clone(),
                _ => {}
            }
            let now = std::time::Instant::now();
            if now >= deadline {
                return g.0.clone();
            }
            let (ng, _) = self.ctl.cv.wait_timeout(g, deadline - now).unwrap();
            g = ng;
        }
    }
    /// run to completion ignoring further yield points
    pub fn finish(&mut self) -> St {
        loop {
            match self.step() {
                St::Finished(r) => {
                    if let Some(h) = self.handle.take() {
                        let _ = h.join();
                    }
                    return St::Finished(r);
                }
                St::Running => return St::Running,
                _ => {}
            }
        }
    }
}

/// controller-side view of a thread we did not spawn (parks at yield points through the global ctl)
pub struct Foreign {
    pub ctl: Arc<Ctl>,
}
impl Foreign {
    pub fn state(&self) -> St {
        self.ctl.st.lock().unwrap().0.clone()
    }
    /// wait until it is parked (bounded)
    pub fn wait_parked(&self, ms: u64) -> St {
        let mut g = self.ctl.st.lock().unwrap();
        let deadline = std::time::Instant::now() + Duration::from_millis(ms);
        loop {
            if let St::Parked(..) = g.0 {
                return g.0.clone();
            }
            let now = std::time::Instant::now();
            if now >= deadline {
                return g.0.clone();
            }
            let (ng, _) = self.ctl.cv.wait_timeout(g, deadline - now).unwrap();
            g = ng;
        }
    }
    /// release it from its yield point; does not wait
    pub fn go(&self) {
        let mut g = self.ctl.st.lock().unwrap();
        g.1 = true;
        g.0 = St::Running;
        self.ctl.cv.notify_all();
    }
}
