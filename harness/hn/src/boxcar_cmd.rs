//! `hn boxcar FILE`: every line is one history over a fresh boxcar vector:
//!   cap=<n>;sp <t> push <v> [p];sp <t> ext <count> <v1,v2,..|-> [p<k>];st <t>;get <i>;count;snap <s>;drop
//! Output: one line per history, the observations separated by ';'.
use crate::sched::{self, St};
use nucleo::verif::VVec;
use nucleo::Utf32String;
use std::collections::HashMap;
use std::io::{BufRead, Write};
use std::sync::{Arc, Mutex};

struct Val {
    id: u64,
    log: Arc<Mutex<Vec<u64>>>,
}
impl Drop for Val {
    fn drop(&mut self) {
        self.log.lock().unwrap().push(self.id);
    }
}

/// an ExactSizeIterator that reports `reported` but yields `vals`
struct Lying {
    vals: std::vec::IntoIter<Val>,
    reported: usize,
}
impl Iterator for Lying {
    type Item = Val;
    fn next(&mut self) -> Option<Val> {
        self.vals.next()
    }
    fn size_hint(&self) -> (usize, Option<usize>) {
        (self.reported, Some(self.reported))
    }
}
impl ExactSizeIterator for Lying {
    fn len(&self) -> usize {
        self.reported
    }
}

fn site_id(s: &str) -> u32 {
    match s {
        "push.reserved" => 1,
        "alloc.before_cas" => 2,
        "push.before_publish" => 3,
        "extend.reserved" => 4,
        "extend.before_publish" => 5,
        "push.before_reserve" => 6,
        _ => 99,
    }
}

fn show(st: &St) -> String {
    match st {
        St::Parked(s, a) => format!("Y{},{}", site_id(s), a),
        St::Finished(r) => r.clone(),
        St::Running => "STUCK".into(),
        St::Gate => "GATE".into(),
    }
}

pub fn run(file: &str) {
    std::panic::set_hook(Box::new(|_| {}));
    sched::install_hook();
    let f = std::io::BufReader::new(std::fs::File::open(file).unwrap());
    let stdout = std::io::stdout();
    let mut out = std::io::BufWriter::new(stdout.lock());
    for line in f.lines() {
        let line = line.unwrap();
        if line.trim().is_empty() {
            continue;
        }
        let mut obs: Vec<String> = Vec::new();
        let log = Arc::new(Mutex::new(Vec::new()));
        // self-check run inside every fill callback: every item visible at that moment must be complete
        let torn: Arc<Mutex<Vec<String>>> = Arc::new(Mutex::new(Vec::new()));
        let mut vec: Option<Arc<VVec<Val>>> = None;
        let mut threads: HashMap<u64, sched::Thread> = HashMap::new();
        for ev in line.split(';') {
            let p: Vec<&str> = ev.trim().split(' ').collect();
            match p[0] {
                c if c.starts_with("cap=") => {
                    let cap: u32 = c[4..].parse().unwrap();
                    vec = Some(Arc::new(VVec::with_capacity(cap, 1)));
                    obs.push("-".into());
                }
                "sp" => {
                    let t: u64 = p[1].parse().unwrap();
                    let v = vec.clone().unwrap();
                    let log2 = log.clone();
                    let torn2 = torn.clone();
                    let vprobe = v.clone();
                    let probe = move || {
                        let n = vprobe.count().min(200);
                        for i in 0..n {
                            if let Some(item) = vprobe.get(i) {
                                let want = format!("{}", item.data.id * 2 + 1);
                                if item.matcher_columns[0].to_string() != want {
                                    torn2.lock().unwrap().push(format!("{}:{}", i, item.data.id));
                                }
                            }
                        }
                    };
                    if p[2] == "push" {
                        let id: u64 = p[3].parse().unwrap();
                        let fp = p.get(4) == Some(&"p");
                        threads.insert(
                            t,
                            sched::spawn(vec!["push.before_reserve"], move || {
                                let idx = v.push(Val { id, log: log2 }, |val, cols| {
                                    probe();
                                    if fp {
                                        panic!("fill");
                                    }
                                    cols[0] = Utf32String::from(format!("{}", val.id * 2 + 1).as_str());
                                });
                                format!("R{}", idx)
                            }),
                        );
                    } else {
                        let count: usize = p[3].parse().unwrap();
                        let ids: Vec<u64> = if p[4] == "-" { vec![] } else { p[4].split(',').map(|x| x.parse().unwrap()).collect() };
                        let pa: Option<u64> = p.get(5).map(|s| s[1..].parse().unwrap());
                        threads.insert(
                            t,
                            sched::spawn(vec![], move || {
                                let vals: Vec<Val> = ids.iter().map(|&id| Val { id, log: log2.clone() }).collect();
                                let first = ids.first().copied();
                                let _ = first;
                                let idmap: Vec<u64> = ids.clone();
                                let it = Lying { vals: vals.into_iter(), reported: count };
                                v.extend(it, move |val, cols| {
                                    probe();
                                    if let Some(k) = pa {
                                        if idmap.get(k as usize) == Some(&val.id) {
                                            panic!("fill");
                                        }
                                    }
                                    cols[0] = Utf32String::from(format!("{}", val.id * 2 + 1).as_str());
                                });
                                "R-".to_string()
                            }),
                        );
                    }
                    obs.push("-".into());
                }
                "st" => {
                    let t: u64 = p[1].parse().unwrap();
                    let st = threads.get(&t).map(|th| th.step());
                    obs.push(st.map_or("-".into(), |s| show(&s)));
                }
                "get" => {
                    let i: u32 = p[1].parse().unwrap();
                    let v = vec.as_ref().unwrap();
                    obs.push(match v.get(i) {
                        None => "G-".into(),
                        Some(item) => format!("G{},{}", item.data.id, item.matcher_columns[0]),
                    });
                }
                "count" => obs.push(format!("C{}", vec.as_ref().unwrap().count())),
                "snap" => {
                    let s: u32 = p[1].parse().unwrap();
                    let v = vec.as_ref().unwrap().clone();
                    match std::panic::catch_unwind(std::panic::AssertUnwindSafe(|| v.snapshot(s))) {
                        Ok((end, items)) => obs.push(format!(
                            "S{}:{}",
                            end,
                            items.iter().map(|(i, b)| format!("{}{}", i, if *b { "+" } else { "-" })).collect::<Vec<_>>().join(",")
                        )),
                        // snapshot asserts start <= count
                        Err(_) => obs.push("SPANIC".into()),
                    }
                }
                "drop" => {
                    // all threads must be finished or abandoned: finish them first
                    for (_, th) in threads.iter_mut() {
                        th.finish();
                    }
                    threads.clear();
                    let before = log.lock().unwrap().len();
                    let v = vec.take().unwrap();
                    match Arc::try_unwrap(v) {
                        Ok(v) => drop(v),
                        Err(_) => obs.push("DROP-SHARED".into()),
                    }
                    let mut d: Vec<u64> = log.lock().unwrap()[before..].to_vec();
                    d.sort();
                    obs.push(format!("D{}", d.iter().map(|x| x.to_string()).collect::<Vec<_>>().join(",")));
                }
                _ => obs.push("?".into()),
            }
        }
        for (_, th) in threads.iter_mut() {
            th.finish();
        }
        // total drop multiset at the end
        let mut all: Vec<u64> = log.lock().unwrap().clone();
        all.sort();
        obs.push(format!("T{}", all.iter().map(|x| x.to_string()).collect::<Vec<_>>().join(",")));
        let t = torn.lock().unwrap();
        obs.push(if t.is_empty() { "W0".to_string() } else { format!("W{}", t.join(",")) });
        writeln!(out, "{}", obs.join(";")).unwrap();
    }
}
