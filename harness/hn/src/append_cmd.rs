//! `hn append FILE`: lines "<old text>\t<new text>" (new = old + suffix).  Emulates typing: reparse(old,
//! append = false); the tick resets the status; reparse(new, append = true).  Prints the status the
//! MultiPattern reports (1 = Update: only current matches are rescored, 2 = Rescore) and, for every
//! haystack of the pool, whether the old and the new pattern match it; then, after a tab, the hex (UTF-8)
//! of every DERIVED haystack (the new text itself, the needles of the new atoms joined by spaces, and
//! that string upper-cased) that the new pattern matches and the old one does not.
use nucleo::pattern::{CaseMatching, MultiPattern, Normalization};
use nucleo::{Config, Matcher, Utf32String};
use std::io::{BufRead, Write};

pub const HAYSTACKS: [&str; 28] = [
    "foo", "foo$bar", "foo$", "foob", "bfoo", "a b", "a\\ b", "a\\", "a", "ab", "ba", "a$", "$a", "$", "b", "a$b", "a b$",
    "ab$", "!a", "a!", "^a", "a^b", "'a", "a'b", "a\\b", "b a", "aa", "A B",
];

pub fn run(file: &str) {
    let f = std::io::BufReader::new(std::fs::File::open(file).unwrap());
    let stdout = std::io::stdout();
    let mut out = std::io::BufWriter::new(stdout.lock());
    let mut matcher = Matcher::new(Config::DEFAULT);
    let hays: Vec<Utf32String> = HAYSTACKS.iter().map(|h| Utf32String::from(*h)).collect();
    for line in f.lines() {
        let line = line.unwrap();
        let Some((old, new)) = line.split_once('\t') else { continue };
        let mut mp = MultiPattern::new(1);
        mp.reparse(0, old, CaseMatching::Smart, Normalization::Smart, false);
        let old_pat = mp.clone();
        nucleo::verif::reset_pattern_status(&mut mp);
        mp.reparse(0, new, CaseMatching::Smart, Normalization::Smart, true);
        let status = nucleo::verif::pattern_status(&mp);
        let mut bits = String::new();
        for h in &hays {
            let cols = [h.clone()];
            let o = old_pat.score(&cols, &mut matcher).is_some();
            let n = mp.score(&cols, &mut matcher).is_some();
            bits.push(match (o, n) {
                (false, false) => '0',
                (true, false) => '1',
                (false, true) => '2',
                (true, true) => '3',
            });
        }
        let joined: String = mp
            .column_pattern(0)
            .atoms
            .iter()
            .filter(|a| !a.negative)
            .map(|a| a.needle_text().to_string())
            .collect::<Vec<_>>()
            .join(" ");
        let upper: String = joined
            .chars()
            .map(|c| {
                let mut u = c.to_uppercase();
                match (u.next(), u.next()) {
                    (Some(x), None) => x,
                    _ => c,
                }
            })
            .collect();
        let mut dynbad = Vec::new();
        for d in [new.to_string(), joined, upper] {
            let cols = [Utf32String::from(d.as_str())];
            let o = old_pat.score(&cols, &mut matcher).is_some();
            let n = mp.score(&cols, &mut matcher).is_some();
            if n && !o {
                dynbad.push(d.bytes().map(|b| format!("{:02x}", b)).collect::<String>());
            }
        }
        writeln!(out, "{} {}\t{}", status, bits, dynbad.join(",")).unwrap();
    }
}
