//! `hn scratch-probe [ROUNDS] [ITEMS]`: (C09, worker side) the per-thread matcher scratch memory must not be shared.
//! A `Nucleo` with MORE pool threads than the machine has cores (2 x available_parallelism, at least 32), ITEMS items
//! with varied texts, non-trivial fuzzy patterns (several atoms, gaps: the scoring matrix in the matcher's scratch
//! memory is used); tick until the worker is idle; then every match's score and the set of matches are compared with
//! what ONE fresh `Matcher` computes for the same texts, sequentially.  Each round does this for the scoring scan over
//! new items (first pattern) and for the rescoring of the current matches (an appended and an unrelated pattern).
//! No scheduler hook is installed: the pool threads run freely.
//! The first phase with a difference ends the probe.
//! Output: `S <round> <phase> threads=<n> items=<n> matches=<n> expected=<n> wrong=<n> missing=<n> extra=<n>` per phase and
//! up to 5 lines `F <round> <phase> <class> item=<idx> text=<text> pattern=<pattern> expected=<score|-> got=<score|->`.
use nucleo::pattern::{CaseMatching, Normalization};
use nucleo::{Config, Nucleo, Utf32String};
use std::sync::Arc;

const WORDS: [&str; 24] = [
    "src", "lib", "worker", "matcher", "pattern", "boxcar", "snapshot", "fuzzy", "score", "Config", "par_sort", "utf32", "README", "tests",
    "bench", "main", "mod", "chars", "normalize", "case_fold", "prefilter", "Matrix", "slab", "injector",
];
const EXTS: [&str; 6] = [".rs", ".toml", ".md", ".txt", ".lock", ""];

fn text(v: u32, salt: u32) -> String {
    // deterministic, varied in length (about 45..110 characters) and content
    let mut x = (v as u64 + 1).wrapping_mul(0x9E37_79B9_7F4A_7C15) ^ ((salt as u64) << 32 | 0x5bd1e995);
    let mut next = move || {
        x ^= x << 13;
        x ^= x >> 7;
        x ^= x << 17;
        x
    };
    let parts = 1 + (next() % 6) as usize;
    let mut s = String::new();
    for k in 0..parts {
        if k > 0 {
            s.push(if next() % 5 == 0 { '_' } else { '/' });
        }
        s.push_str(WORDS[(next() % WORDS.len() as u64) as usize]);
        if next() % 4 == 0 {
            s.push_str(&format!("{}", next() % 100));
        }
    }
    s.push_str(EXTS[(next() % EXTS.len() as u64) as usize]);
    // a tail with several candidate alignments for the long needle of phase 0 (exercises the score matrix)
    s.push_str(&format!("/a_b-xa.bx/c{}d_y/ab/cd/e{}f-z/abxcdyefz_{}", next() % 7, next() % 5, next() % 3));
    s
}

pub fn run(args: &[String]) {
    let rounds: u32 = args.first().map_or(3, |s| s.parse().expect("ROUNDS"));
    let nitems: u32 = args.get(1).map_or(30_000, |s| s.parse().expect("ITEMS"));
    let cores = std::thread::available_parallelism().map_or(4, |n| n.get());
    let threads = (2 * cores).max(32);
    // (pattern text, append flag): scan of new items; Update (rescore of the matches); Rescore (all items again)
    let phases: [[(&str, bool); 3]; 3] = [
        [("abxcdyefz", false), ("abxcdyefz z", true), ("axyz bd", false)],
        [("axbycz", false), ("axbycz snap t", true), ("!bench fzy bdf", false)],
        [("abcdef", false), ("abcdef ^src", true), ("mtch nrm z_1$", false)],
    ];
    let mut details = 0;
    for round in 0..rounds {
        let mut nucleo: Nucleo<u32> = Nucleo::new(Config::DEFAULT, Arc::new(|| {}), Some(threads), 1);
        let inj = nucleo.injector();
        // round 0: haystacks of one shape (so that a corrupted scoring matrix shows as a wrong score rather than as a
        // panic inside the matcher, which would abort the process before anything can be compared); later rounds: varied
        let texts: Vec<String> = (0..nitems)
            .map(|v| if round == 0 { format!("{v}/a_b-xa.bx/c{}d_y/ab/cd/e{}f-z/abxcdyefz_{}", v % 7, v % 5, v % 3) } else { text(v, round) })
            .collect();
        for v in 0..nitems {
            let t = &texts[v as usize];
            inj.push(v, |_, cols| cols[0] = t.as_str().into());
        }
        for (phase, (ptext, append)) in phases[round as usize % phases.len()].iter().enumerate() {
            nucleo.pattern.reparse(0, ptext, CaseMatching::Smart, Normalization::Smart, *append);
            let mut guard = 0;
            loop {
                let st = nucleo.tick(10);
                guard += 1;
                if !st.running || guard > 100_000 {
                    break;
                }
            }
            // reference: one fresh matcher, sequentially
            let mut matcher = nucleo::Matcher::new(Config::DEFAULT);
            let mut pattern = nucleo::pattern::MultiPattern::new(1);
            pattern.reparse(0, ptext, CaseMatching::Smart, Normalization::Smart, false);
            let expected: Vec<Option<u32>> = texts.iter().map(|t| pattern.score(&[Utf32String::from(t.as_str())], &mut matcher)).collect();
            let nexp = expected.iter().filter(|e| e.is_some()).count();
            let snap = nucleo.snapshot();
            let mut seen = vec![false; nitems as usize];
            let (mut wrong, mut missing, mut extra) = (0u32, 0u32, 0u32);
            let mut report = |class: &str, idx: u32, exp: Option<u32>, got: Option<u32>| {
                if details < 5 {
                    details += 1;
                    let f = |s: Option<u32>| s.map_or("-".to_string(), |x| x.to_string());
                    println!(
                        "F {} {} {} item={} text={} pattern={:?} expected={} got={}",
                        round,
                        phase,
                        class,
                        idx,
                        texts.get(idx as usize).map_or("?", |s| s.as_str()),
                        ptext,
                        f(exp),
                        f(got)
                    );
                }
            };
            for m in snap.matches() {
                if m.idx as usize >= expected.len() {
                    extra += 1;
                    report("extra", m.idx, None, Some(m.score));
                    continue;
                }
                seen[m.idx as usize] = true;
                match expected[m.idx as usize] {
                    Some(s) if s == m.score => {}
                    Some(s) => {
                        wrong += 1;
                        report("wrong_score", m.idx, Some(s), Some(m.score));
                    }
                    None => {
                        extra += 1;
                        report("extra", m.idx, None, Some(m.score));
                    }
                }
            }
            for (idx, e) in expected.iter().enumerate() {
                if e.is_some() && !seen[idx] {
                    missing += 1;
                    report("missing", idx as u32, *e, None);
                }
            }
            println!(
                "S {} {} threads={} items={} count={} matches={} expected={} wrong={} missing={} extra={}",
                round,
                phase,
                threads,
                nitems,
                snap.item_count(),
                snap.matched_item_count(),
                nexp,
                wrong,
                missing,
                extra
            );
            if wrong + missing + extra > 0 {
                // enough: the following phases would only risk a panic inside the matcher
                return;
            }
        }
    }
}
