//! Deterministic single-threaded probes over item types other than the drop-logging `Val` of the histories.
//!
//! `hn layout TYPE`: (C08) for one item type: column counts 1..=5 x capacities x push / extend / mixed:
//!    ~100 items, every index read back; value, columns, alignment of `&T` and of the column slice,
//!    pairwise disjointness of all entries. One process per type, since the debug profile ABORTS on a
//!    misaligned dereference.  Output: `B <case>` before a case, `E ok` / `E fail <class> <what>` after it.
//! `hn leak`: (C11) counting global allocator: live bytes / live allocations must return exactly to the
//!    level before the vector was created once every handle is gone. Output: one `L ok <case>` /
//!    `L fail <class> <case> :: <what>` line per case.
//! `hn nucleo-cols`: (C08) the number of matcher columns through the public Nucleo API, across restarts (see below).
use nucleo::verif::VVec;
use nucleo::Utf32String;
use std::alloc::{GlobalAlloc, Layout, System};
use std::io::Write;
use std::sync::atomic::{AtomicIsize, AtomicUsize, Ordering};

// ---------------------------------------------------------------------------------------------
// counting allocator (installed for the whole binary; three relaxed atomic adds per call)
pub struct Counting;
static LIVE_BYTES: AtomicIsize = AtomicIsize::new(0);
static LIVE_ALLOCS: AtomicIsize = AtomicIsize::new(0);
/// allocations of exactly this size (and alignment 4) are counted separately: the column payloads of
/// the `Nucleo` round of the leak probe (nothing else in the process allocates blocks of that shape)
static WATCH_SIZE: AtomicUsize = AtomicUsize::new(usize::MAX);
static WATCH_LIVE: AtomicIsize = AtomicIsize::new(0);

#[inline]
fn watched(size: usize, align: usize) -> bool {
    size == WATCH_SIZE.load(Ordering::Relaxed) && align == 4
}

unsafe impl GlobalAlloc for Counting {
    #[inline]
    unsafe fn alloc(&self, l: Layout) -> *mut u8 {
        let p = System.alloc(l);
        if !p.is_null() {
            LIVE_BYTES.fetch_add(l.size() as isize, Ordering::Relaxed);
            LIVE_ALLOCS.fetch_add(1, Ordering::Relaxed);
            if watched(l.size(), l.align()) {
                WATCH_LIVE.fetch_add(1, Ordering::Relaxed);
            }
        }
        p
    }
    #[inline]
    unsafe fn alloc_zeroed(&self, l: Layout) -> *mut u8 {
        let p = System.alloc_zeroed(l);
        if !p.is_null() {
            LIVE_BYTES.fetch_add(l.size() as isize, Ordering::Relaxed);
            LIVE_ALLOCS.fetch_add(1, Ordering::Relaxed);
            if watched(l.size(), l.align()) {
                WATCH_LIVE.fetch_add(1, Ordering::Relaxed);
            }
        }
        p
    }
    #[inline]
    unsafe fn dealloc(&self, p: *mut u8, l: Layout) {
        LIVE_BYTES.fetch_sub(l.size() as isize, Ordering::Relaxed);
        LIVE_ALLOCS.fetch_sub(1, Ordering::Relaxed);
        if watched(l.size(), l.align()) {
            WATCH_LIVE.fetch_sub(1, Ordering::Relaxed);
        }
        System.dealloc(p, l)
    }
    #[inline]
    unsafe fn realloc(&self, p: *mut u8, l: Layout, new: usize) -> *mut u8 {
        let q = System.realloc(p, l, new);
        if !q.is_null() {
            LIVE_BYTES.fetch_add(new as isize - l.size() as isize, Ordering::Relaxed);
            if watched(l.size(), l.align()) {
                WATCH_LIVE.fetch_sub(1, Ordering::Relaxed);
            }
            if watched(new, l.align()) {
                WATCH_LIVE.fetch_add(1, Ordering::Relaxed);
            }
        }
        q
    }
}

fn live() -> (isize, isize) {
    (LIVE_BYTES.load(Ordering::SeqCst), LIVE_ALLOCS.load(Ordering::SeqCst))
}

// ---------------------------------------------------------------------------------------------
// layout probe
trait PItem: Sized + PartialEq + 'static {
    fn make(k: u64) -> Self;
    /// what the fill callback derives the column texts from
    fn key(&self) -> u64;
}
macro_rules! int_item {
    ($($t:ty),*) => {$(
        impl PItem for $t {
            fn make(k: u64) -> Self { k.wrapping_mul(0x9E37_79B9_7F4A_7C15).rotate_left(7) as $t ^ k as $t }
            fn key(&self) -> u64 { *self as u64 }
        }
    )*};
}
int_item!(u8, u16, u32, u64, usize);
impl PItem for u128 {
    fn make(k: u64) -> Self {
        ((k as u128) << 70) | ((k as u128 ^ 0x5a5a) << 17) | k as u128
    }
    fn key(&self) -> u64 {
        (*self >> 64) as u64 ^ *self as u64
    }
}
impl PItem for () {
    fn make(_: u64) -> Self {}
    fn key(&self) -> u64 {
        0
    }
}
#[repr(align(16))]
#[derive(PartialEq)]
struct A16(u8);
impl PItem for A16 {
    fn make(k: u64) -> Self {
        A16((k * 7 + 3) as u8)
    }
    fn key(&self) -> u64 {
        self.0 as u64
    }
}
#[repr(align(32))]
#[derive(PartialEq)]
struct A32(u64, u8);
impl PItem for A32 {
    fn make(k: u64) -> Self {
        A32(k * 1_000_003 + 1, k as u8)
    }
    fn key(&self) -> u64 {
        self.0 ^ self.1 as u64
    }
}
#[repr(align(64))]
#[derive(PartialEq)]
struct A64([u8; 3]);
impl PItem for A64 {
    fn make(k: u64) -> Self {
        A64([k as u8, (k >> 3) as u8, 0xA5])
    }
    fn key(&self) -> u64 {
        self.0[0] as u64 * 256 + self.0[1] as u64
    }
}
impl PItem for (u128, u8) {
    fn make(k: u64) -> Self {
        (u128::make(k), k as u8)
    }
    fn key(&self) -> u64 {
        self.0.key() + self.1 as u64
    }
}

fn col_text(key: u64, c: usize) -> String {
    // non-ASCII, value- and column-dependent, of varying length
    format!("{}\u{436}{}:{}", key, c, "\u{44f}".repeat((key % 5) as usize + c))
}

fn layout_case<T: PItem>(cols: u32, cap: u32, mode: &str) -> Result<(), (String, String)> {
    let bad = |c: &str, w: String| Err((c.to_string(), w));
    let v: VVec<T> = VVec::with_capacity(cap, cols);
    let fill = |val: &T, cs: &mut [Utf32String]| {
        for (c, slot) in cs.iter_mut().enumerate() {
            *slot = Utf32String::from(col_text(val.key(), c).as_str());
        }
    };
    let n: u64 = 100;
    let mut next: u64 = 0;
    let push_n = |next: &mut u64, k: u64| -> Result<(), (String, String)> {
        for _ in 0..k {
            let idx = v.push(T::make(*next), fill);
            if idx as u64 != *next {
                return Err(("distinct".into(), format!("push number {} returned index {}", next, idx)));
            }
            *next += 1;
        }
        Ok(())
    };
    let ext_n = |next: &mut u64, k: u64| {
        let items: Vec<T> = (*next..*next + k).map(T::make).collect();
        v.extend(items.into_iter(), fill);
        *next += k;
    };
    match mode {
        "push" => push_n(&mut next, n)?,
        "extend" => ext_n(&mut next, n),
        _ => {
            // 29 pushes, a batch across the first bucket boundary (32), pushes, a batch across the second (96)
            push_n(&mut next, 29)?;
            ext_n(&mut next, 7);
            push_n(&mut next, 4)?;
            ext_n(&mut next, 0);
            ext_n(&mut next, 58);
            push_n(&mut next, 2)?;
        }
    }
    if v.count() as u64 != n {
        return bad("count", format!("count is {} after {} items were added", v.count(), n));
    }
    if v.get(n as u32).is_some() {
        return bad("phantom", format!("get({}) returned an item, only {} were added", n, n));
    }
    let ta = std::mem::align_of::<T>();
    let ca = std::mem::align_of::<Utf32String>();
    let mut spans: Vec<(usize, usize, u64, &str)> = Vec::new();
    for i in 0..n {
        let item = match v.get(i as u32) {
            Some(it) => it,
            None => return bad("stable", format!("get({}) returned nothing after all {} items were added", i, n)),
        };
        let da = item.data as *const T as usize;
        if da % ta != 0 {
            return bad("align", format!("item {}: `&T` handed out by get() is at {:#x}, not a multiple of the type's alignment {}", i, da, ta));
        }
        let cp = item.matcher_columns.as_ptr() as usize;
        if cp % ca != 0 {
            return bad("align", format!("item {}: the matcher-column slice is at {:#x}, not a multiple of the column type's alignment {}", i, cp, ca));
        }
        if item.matcher_columns.len() != cols as usize {
            return bad("torn", format!("item {} has {} matcher columns, the vector was created with {}", i, item.matcher_columns.len(), cols));
        }
        let want = T::make(i);
        if *item.data != want {
            return bad("torn", format!("get({}) returned a value different from the one stored at that index", i));
        }
        for c in 0..cols as usize {
            let w = col_text(want.key(), c);
            let got = item.matcher_columns[c].to_string();
            if got != w {
                return bad("torn", format!("get({}): column {} is `{}`, the fill callback wrote `{}`", i, c, got, w));
            }
        }
        if std::mem::size_of::<T>() > 0 {
            spans.push((da, da + std::mem::size_of::<T>(), i, "value"));
        }
        spans.push((cp, cp + cols as usize * std::mem::size_of::<Utf32String>(), i, "columns"));
    }
    spans.sort();
    for w in spans.windows(2) {
        if w[1].0 < w[0].1 {
            return bad("distinct", format!("storage of item {} ({}) overlaps the storage of item {} ({})", w[0].2, w[0].3, w[1].2, w[1].3));
        }
    }
    // snapshot sees exactly the same indices
    let (end, items) = v.snapshot(0);
    if end as u64 != n || items.len() as u64 != n || items.iter().any(|(_, init)| !init) {
        return bad("stable", format!("snapshot(0) ends at {} with {} entries (some uninitialised), {} items were added", end, items.len(), n));
    }
    Ok(())
}

fn layout_type<T: PItem>(name: &str, only: &[String]) {
    let out = std::io::stdout();
    for cols in 1..=5u32 {
        for cap in [0u32, 1, 33, 100] {
            for mode in ["push", "extend", "mixed"] {
                let case = format!("layout {} cols={} cap={} {}", name, cols, cap, mode);
                if !only.is_empty() && only.join(" ") != case["layout ".len()..] {
                    continue;
                }
                {
                    let mut o = out.lock();
                    writeln!(o, "B {}", case).unwrap();
                    o.flush().unwrap();
                }
                let r = std::panic::catch_unwind(|| layout_case::<T>(cols, cap, mode));
                let mut o = out.lock();
                match r {
                    Ok(Ok(())) => writeln!(o, "E ok").unwrap(),
                    Ok(Err((c, w))) => writeln!(o, "E fail {} {}", c, w).unwrap(),
                    Err(p) => {
                        let m = p.downcast_ref::<String>().cloned().or_else(|| p.downcast_ref::<&str>().map(|s| s.to_string())).unwrap_or_default();
                        writeln!(o, "E fail crash panic: {}", m.replace('\n', " ")).unwrap()
                    }
                }
                o.flush().unwrap();
            }
        }
    }
}

pub const LAYOUT_TYPES: &[&str] = &["unit", "u8", "u16", "u32", "u64", "usize", "u128", "a16", "a32", "a64", "u128u8"];

pub fn layout(args: &[String]) {
    let ty = args.first().map(|s| s.as_str()).unwrap_or("");
    let only = &args[1.min(args.len())..];
    let only: Vec<String> = if only.is_empty() { vec![] } else { args.to_vec() };
    match ty {
        "unit" => layout_type::<()>(ty, &only),
        "u8" => layout_type::<u8>(ty, &only),
        "u16" => layout_type::<u16>(ty, &only),
        "u32" => layout_type::<u32>(ty, &only),
        "u64" => layout_type::<u64>(ty, &only),
        "usize" => layout_type::<usize>(ty, &only),
        "u128" => layout_type::<u128>(ty, &only),
        "a16" => layout_type::<A16>(ty, &only),
        "a32" => layout_type::<A32>(ty, &only),
        "a64" => layout_type::<A64>(ty, &only),
        "u128u8" => layout_type::<(u128, u8)>(ty, &only),
        _ => {
            eprintln!("usage: hn layout <{}> [cols=K cap=N push|extend|mixed]", LAYOUT_TYPES.join("|"));
            std::process::exit(2)
        }
    }
}

// ---------------------------------------------------------------------------------------------
// leak probe
fn leak_text(i: u64, c: usize) -> String {
    format!("\u{e9}l\u{e9}ment {:05} \u{2013} colonne {} {}", i, c, "\u{fc}".repeat((i % 7) as usize))
}

/// creates a vector, adds `n` items with heap-owning columns, drops it; returns (bytes, allocations) still live
fn leak_round<T>(mk: &dyn Fn(u64) -> T, cols: u32, cap: u32, n: u64, mode: &str) -> (isize, isize, isize) {
    let before = live();
    let peak;
    {
        let v: VVec<T> = VVec::with_capacity(cap, cols);
        let ctr = std::cell::Cell::new(0u64);
        let fill = |_: &T, cs: &mut [Utf32String]| {
            let i = ctr.get();
            ctr.set(i + 1);
            for (c, slot) in cs.iter_mut().enumerate() {
                *slot = Utf32String::from(leak_text(i, c).as_str());
            }
        };
        let mut next = 0u64;
        while next < n {
            let batch = match mode {
                "push" => 0,
                "extend" => n,
                _ => [0, 0, 0, 5, 0, 40, 1][(next % 7) as usize],
            }
            .min(n - next);
            if batch == 0 {
                v.push(mk(next), &fill);
                next += 1;
            } else {
                let items: Vec<T> = (next..next + batch).map(mk).collect();
                v.extend(items.into_iter(), &fill);
                next += batch;
            }
        }
        assert_eq!(v.count() as u64, n);
        peak = live().0 - before.0;
        drop(v);
    }
    let after = live();
    (after.0 - before.0, after.1 - before.1, peak)
}

fn leak_type<T>(name: &str, mk: &dyn Fn(u64) -> T, lines: &mut Vec<String>) {
    // warm-up: whatever the runtime initialises lazily is initialised now
    leak_round::<T>(mk, 1, 0, 40, "mixed");
    for cols in [1u32, 3] {
        for cap in [0u32, 100] {
            for (n, mode) in [(70u64, "push"), (70, "extend"), (1500, "mixed"), (1, "push"), (0, "push")] {
                let case = format!("leak {} needs_drop={} cols={} cap={} n={} {}", name, std::mem::needs_drop::<T>(), cols, cap, n, mode);
                let (bytes, allocs, peak) = leak_round::<T>(mk, cols, cap, n, mode);
                if bytes != 0 || allocs != 0 {
                    lines.push(format!(
                        "L fail leak {} :: after the vector (and with it every injected item) was dropped {} bytes in {} allocations were still live ({} bytes were live just before the drop); {} items with {} heap-owning matcher column(s) each had been added",
                        case, bytes, allocs, peak, n, cols
                    ));
                } else {
                    lines.push(format!("L ok {}", case));
                }
            }
        }
    }
}

const WATCH_CHARS: usize = 333;
fn watch_text(i: u64) -> String {
    format!("{:08}{}", i, "\u{436}".repeat(WATCH_CHARS - 8))
}

/// public API: Nucleo<u32> with a one-thread pool, items, a tick, restart, more items, a tick, everything dropped.
/// Column payloads are `Box<[char]>` of exactly WATCH_CHARS chars; live blocks of that shape are counted.
fn leak_nucleo(restart: bool, n: u32, lines: &mut Vec<String>) {
    use nucleo::{Config, Nucleo};
    use std::sync::Arc;
    let case = format!("leak nucleo<u32> n={} restart={}", n, restart);
    WATCH_SIZE.store(WATCH_CHARS * 4, Ordering::SeqCst);
    let base = WATCH_LIVE.load(Ordering::SeqCst);
    let mut peak = 0;
    {
        let mut nu: Nucleo<u32> = Nucleo::new(Config::DEFAULT, Arc::new(|| {}), Some(1), 1);
        let inj = nu.injector();
        for i in 0..n {
            inj.push(i, |v, cols| cols[0] = Utf32String::from(watch_text(*v as u64).as_str()));
        }
        while nu.tick(10).running {}
        assert_eq!(nu.snapshot().item_count(), n);
        peak = peak.max(WATCH_LIVE.load(Ordering::SeqCst) - base);
        if restart {
            nu.restart(false);
            let inj2 = nu.injector();
            inj2.extend((0..n / 2).collect::<Vec<u32>>().into_iter(), |v, cols| cols[0] = Utf32String::from(watch_text(*v as u64 + 7).as_str()));
            while nu.tick(10).running {}
            assert_eq!(nu.snapshot().item_count(), n / 2);
            drop(inj2);
        }
        drop(inj);
        drop(nu);
    }
    // the last handle of a stream may be released by the pool thread a moment after the tick returned
    let t0 = std::time::Instant::now();
    let mut left = WATCH_LIVE.load(Ordering::SeqCst) - base;
    while left != 0 && t0.elapsed() < std::time::Duration::from_secs(4) {
        std::thread::sleep(std::time::Duration::from_millis(5));
        left = WATCH_LIVE.load(Ordering::SeqCst) - base;
    }
    WATCH_SIZE.store(usize::MAX, Ordering::SeqCst);
    if peak < n as isize {
        lines.push(format!("L fail selfcheck {} :: only {} column payloads were seen by the allocator for {} items", case, peak, n));
    } else if left != 0 {
        lines.push(format!(
            "L fail leak {} :: {} matcher-column payloads ({} bytes each) were still allocated 4 s after the Nucleo, its pool and every injector had been dropped; {} items had been injected{}",
            case, left, WATCH_CHARS * 4, n + if restart { n / 2 } else { 0 }, if restart { " (two streams, restart in between)" } else { "" }
        ));
    } else {
        lines.push(format!("L ok {}", case));
    }
}

pub fn leak() {
    let mut lines: Vec<String> = Vec::new();
    leak_type::<u32>("u32", &|i| i as u32, &mut lines);
    leak_type::<&'static str>("&'static str", &|i| ["alpha", "beta", "gamma"][(i % 3) as usize], &mut lines);
    leak_type::<(u8, u8)>("(u8,u8)", &|i| (i as u8, (i >> 8) as u8), &mut lines);
    leak_type::<u128>("u128", &|i| i as u128, &mut lines);
    leak_type::<String>("String", &|i| format!("owned item {}", i), &mut lines);
    leak_type::<Box<u64>>("Box<u64>", &|i| Box::new(i), &mut lines);
    leak_nucleo(false, 300, &mut lines);
    leak_nucleo(true, 300, &mut lines);
    let out = std::io::stdout();
    let mut o = out.lock();
    for l in lines {
        writeln!(o, "{}", l).unwrap();
    }
}

// ---------------------------------------------------------------------------------------------
// `hn nucleo-cols`: (C08) matcher columns through the public API.  Nucleo::new with k = 1, 2, 3 columns (one pool
// thread, no scheduler): push / extend, tick to completion, restart(false), push / extend, tick, restart(true), push /
// extend, tick.  Every fill callback checks the length of the column slice it is handed; every item handed out by
// Injector::get(i), Snapshot::get_item(i) and Snapshot::get_matched_item(n) must have exactly k matcher columns holding
// the texts its fill callback wrote.  Output: one `K ok <case>` / `K fail <class> <case> :: <what>` line per stage.
fn cols_text(v: u32, c: usize) -> String {
    format!("item{}\u{436}col{}", v, c)
}

fn cols_case(k: u32, lines: &mut Vec<String>) {
    use nucleo::{Config, Nucleo};
    use std::sync::{Arc, Mutex};
    let mut nu: Nucleo<u32> = Nucleo::new(Config::DEFAULT, Arc::new(|| {}), Some(1), k);
    let stages = ["initial stream", "stream created by restart(false)", "stream created by restart(true)"];
    let mut next: u32 = 0;
    for (sno, stage) in stages.iter().enumerate() {
        let case = format!("columns nucleo<u32> cols={} {}", k, stage);
        if sno == 1 {
            nu.restart(false);
        } else if sno == 2 {
            nu.restart(true);
        }
        // (operation, value, length of the slice handed to the fill callback)
        let bad: Arc<Mutex<Vec<(&'static str, u32, usize)>>> = Arc::new(Mutex::new(Vec::new()));
        let inj = nu.injector();
        let first = next;
        let fill = |op: &'static str, bad: &Arc<Mutex<Vec<(&'static str, u32, usize)>>>, v: &u32, cols: &mut [Utf32String]| {
            if cols.len() != k as usize {
                bad.lock().unwrap().push((op, *v, cols.len()));
            }
            for c in 0..cols.len().min(k as usize) {
                cols[c] = Utf32String::from(cols_text(*v, c).as_str());
            }
        };
        for _ in 0..3 {
            let b = bad.clone();
            inj.push(next, move |v, cols| fill("push", &b, v, cols));
            next += 1;
        }
        let b = bad.clone();
        inj.extend((next..next + 5).collect::<Vec<u32>>().into_iter(), move |v, cols| fill("extend", &b, v, cols));
        next += 5;
        let b = bad.clone();
        inj.push(next, move |v, cols| fill("push", &b, v, cols));
        next += 1;
        let n = next - first;
        let mut rounds = 0;
        while nu.tick(10).running && rounds < 1000 {
            rounds += 1;
        }
        let mut fails: Vec<String> = Vec::new();
        for (op, v, len) in bad.lock().unwrap().iter() {
            fails.push(format!("the fill callback of Injector::{} for item {} was handed {} matcher columns", op, v, len));
        }
        let mut look = |what: String, it: Option<nucleo::Item<'_, u32>>, want: Option<u32>| match it {
            None => fails.push(format!("{} returned nothing", what)),
            Some(it) => {
                if it.matcher_columns.len() != k as usize {
                    fails.push(format!("{} returned an item with {} matcher columns", what, it.matcher_columns.len()));
                }
                if want.map_or(false, |w| w != *it.data) {
                    fails.push(format!("{} returned item {} instead of {}", what, it.data, want.unwrap()));
                }
                for c in 0..it.matcher_columns.len().min(k as usize) {
                    if it.matcher_columns[c].to_string() != cols_text(*it.data, c) {
                        fails.push(format!("{}: column {} of item {} is `{}`, its fill callback wrote `{}`", what, c, it.data, it.matcher_columns[c], cols_text(*it.data, c)));
                    }
                }
            }
        };
        if inj.injected_items() != n {
            look(format!("injected_items() = {} after {} items;  Injector::get(0)", inj.injected_items(), n), None, None);
        }
        for i in 0..n {
            look(format!("Injector::get({})", i), inj.get(i), Some(first + i));
        }
        let snap = nu.snapshot();
        let mut extra: Vec<String> = Vec::new();
        if snap.item_count() != n || snap.matched_item_count() != n {
            extra.push(format!("the snapshot has {} items / {} matches after {} items were injected and tick reported running=false", snap.item_count(), snap.matched_item_count(), n));
        }
        for i in 0..n {
            look(format!("Snapshot::get_item({})", i), snap.get_item(i), Some(first + i));
        }
        for i in 0..snap.matched_item_count() {
            look(format!("Snapshot::get_matched_item({})", i), snap.get_matched_item(i), None);
        }
        fails.extend(extra);
        if fails.is_empty() {
            lines.push(format!("K ok {}", case));
        } else {
            let more = if fails.len() > 3 { format!(" (and {} more)", fails.len() - 3) } else { String::new() };
            lines.push(format!("K fail columns {} :: the Nucleo was created with {} matcher column(s), but {}{}", case, k, fails[..fails.len().min(3)].join("; "), more));
        }
    }
}

pub fn nucleo_cols() {
    let mut lines: Vec<String> = Vec::new();
    for k in 1..=3u32 {
        cols_case(k, &mut lines);
    }
    let out = std::io::stdout();
    let mut o = out.lock();
    for l in lines {
        writeln!(o, "{}", l).unwrap();
    }
}


/// `hn capacity`: the reservation counter driven past 2^32 by batches whose iterators report absurd lengths (and yield
/// nothing): afterwards no index may be handed out a second time - a push has to fail (or get a fresh index), never an
/// index that already belongs to an item - and the existing items keep their values.  Prints `K ok <case>` /
/// `K fail capacity <case> :: <what>` (same format as the column probe).
pub fn capacity() {
    use std::panic::{catch_unwind, AssertUnwindSafe};
    use std::sync::Arc;
    struct Liar(usize);
    impl Iterator for Liar {
        type Item = u32;
        fn next(&mut self) -> Option<u32> {
            None
        }
    }
    impl ExactSizeIterator for Liar {
        fn len(&self) -> usize {
            self.0
        }
    }
    let prev = std::panic::take_hook();
    std::panic::set_hook(Box::new(|_| {}));
    for (case, n0, first, second) in [
        ("past-2^32-by-50", 100u32, u32::MAX as usize - 1000, 951usize),
        ("past-2^32-by-1", 40u32, u32::MAX as usize - 100, 62usize),
        ("exactly-2^32", 10u32, u32::MAX as usize - 9, 0usize),
    ] {
        let r = catch_unwind(AssertUnwindSafe(|| -> Result<(), String> {
            let nucleo: nucleo::Nucleo<u32> = nucleo::Nucleo::new(nucleo::Config::DEFAULT, Arc::new(|| ()), Some(1), 1);
            let inj = nucleo.injector();
            let fill = |v: &u32, cols: &mut [nucleo::Utf32String]| cols[0] = v.to_string().into();
            for i in 0..n0 {
                let idx = inj.push(i, fill);
                if idx != i {
                    return Err(format!("push {i} was handed index {idx}"));
                }
            }
            // injected_items() never decreases and never drops below the number of completed pushes, whatever the
            // reservation counter does (it saturates at the capacity; round 6, C08-m12: truncated before the clamp)
            let mut last = inj.injected_items();
            if last != n0 {
                return Err(format!("injected_items() = {last} after {n0} pushes"));
            }
            let mut step = |what: &str| -> Result<(), String> {
                let now = inj.injected_items();
                if now < last || now < n0 {
                    return Err(format!("injected_items went from {last} to {now} {what} ({n0} pushes completed)"));
                }
                last = now;
                Ok(())
            };
            let _ = catch_unwind(AssertUnwindSafe(|| inj.extend(Liar(first), fill)));
            step("after the first oversized extend")?;
            if second > 0 {
                let _ = catch_unwind(AssertUnwindSafe(|| inj.extend(Liar(second), fill)));
                step("after the second oversized extend")?;
            }
            let before = inj.injected_items();
            for k in 0..3u32 {
                if let Ok(idx) = catch_unwind(AssertUnwindSafe(|| inj.push(4242 + k, fill))) {
                    if idx < n0 {
                        return Err(format!("after the reservation counter passed 2^32 a push was handed index {idx}, which belongs to an earlier push"));
                    }
                }
            }
            for i in 0..n0 {
                match inj.get(i) {
                    Some(item) if *item.data == i && item.matcher_columns[0].to_string() == i.to_string() => {}
                    Some(item) => return Err(format!("item {i} changed: value {} columns {}", item.data, item.matcher_columns[0])),
                    None => return Err(format!("item {i} is gone")),
                }
            }
            if inj.injected_items() < before || inj.injected_items() < n0 {
                return Err(format!("injected_items went down from {before} to {}", inj.injected_items()));
            }
            Ok(())
        }));
        match r {
            Ok(Ok(())) => println!("K ok {case}"),
            Ok(Err(w)) => println!("K fail capacity {case} :: {w}"),
            Err(_) => println!("K fail capacity {case} :: the probe panicked outside the calls that are allowed to refuse"),
        }
    }
    std::panic::set_hook(prev);
}
