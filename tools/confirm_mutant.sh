#!/bin/bash
# usage: confirm_mutant.sh <prop id> <k> [demo kind]   confirms mutant k of /tmp/wt/<id>/_mut in a scratch worktree of /repo HEAD:
#   suite passes with the patch, demo fails with it and passes without it. Prints a JSON line.
id=$1; k=$2
src=/tmp/wt/$id/_mut
wt=/tmp/wt/confirm_$id_$k
git -C /repo worktree remove --force $wt 2>/dev/null; rm -rf $wt
git -C /repo worktree add -q --detach $wt HEAD || exit 2
cd $wt
export CARGO_NET_OFFLINE=true CARGO_TARGET_DIR=$wt/target
demo=$src/m${k}_demo.rs
place() { # put the demo where it can run: integration test of the right crate
  if grep -q "nucleo_matcher" $demo && ! grep -q "use nucleo::" $demo; then mkdir -p matcher/tests; cp $demo matcher/tests/mdemo.rs; echo "-p nucleo-matcher --test mdemo";
  else mkdir -p tests; cp $demo tests/mdemo.rs; echo "-p nucleo --test mdemo"; fi; }
args=$(place)
base_demo=$(timeout 900 cargo test --offline $args 2>&1 | grep -E "^test result|error(\[|:)" | head -3 | tr '\n' ' ')
if ! git apply --check $src/m$k.diff 2>/dev/null; then echo "{\"id\":\"$id\",\"k\":$k,\"applies\":false}"; cd /; git -C /repo worktree remove --force $wt; exit 0; fi
git apply $src/m$k.diff
rm -f matcher/tests/mdemo.rs tests/mdemo.rs
suite=$(timeout 1200 cargo test --workspace --offline 2>&1 | grep -E "^test result" | tr '\n' ' ')
args=$(place)
mut_demo=$(timeout 900 cargo test --offline $args 2>&1 | grep -E "^test result|error(\[|:)" | head -3 | tr '\n' ' ')
echo "{\"id\":\"$id\",\"k\":$k,\"applies\":true,\"suite_with_patch\":\"$suite\",\"demo_without_patch\":\"$base_demo\",\"demo_with_patch\":\"$mut_demo\"}"
cd /; git -C /repo worktree remove --force $wt
