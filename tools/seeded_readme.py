#!/usr/bin/env python3
"""Writes seeded/README.md from seeded/*/meta.json: which check reports which seeded change."""
import glob, json, os
ROOT = os.path.dirname(os.path.dirname(os.path.abspath(__file__)))
rows = []
for d in sorted(glob.glob(os.path.join(ROOT, "seeded", "*-m*"))):
    m = json.load(open(os.path.join(d, "meta.json")))
    name = os.path.basename(d)
    checks = m.get("checks", {})
    own = m.get("property")
    cols = []
    for c, r in sorted(checks.items()):
        if isinstance(r, dict):
            cols.append("%s: %s" % (c, r.get("reported")))
        else:
            cols.append("%s: %s" % (c, r))
    ownr = checks.get(own, {}).get("reported") if isinstance(checks.get(own), dict) else None
    rows.append((name, own, m.get("summary", "")[:160].replace("|", "/"), m.get("needs", "")[:140].replace("|", "/"), "yes" if str(m.get("ported", "")).lower().startswith("true") or m.get("ported") is True else "no", "; ".join(cols), ownr))
out = ["# Seeded changes (mutants) and the checks that report them", "",
       "Each directory holds `patch.diff` (applies to /repo HEAD with `git -C /repo apply`), `demo.rs` (fails with the patch, passes without; header says where to put it and the command) and `meta.json` (what it breaks, what it needs to manifest, the confirmation commands and results, and the outcome of running the checks with the patch applied). All changes were produced by sub-agents that saw only the property text and a scratch worktree, confirmed in a scratch worktree (test-suite green with the patch), and then run against the checks.", "",
       "`failing input found` = the check printed VIOLATION lines with a concrete replay; `no-failing-input-found` = a proof obligation or the correspondence broke but the search found no input on which the property fails; `not reported` = the check stayed quiet.", "",
       "| change | property | what it changes | needs | ported | checks |", "|---|---|---|---|---|---|"]
for r in rows:
    out.append("| %s | %s | %s | %s | %s | %s |" % r[:6])
tot = len(rows)
caught = sum(1 for r in rows if r[6] in ("failing input found", "no-failing-input-found"))
out += ["", "%d changes; %d reported by the check of the property they were written against (%d with a concrete failing input)." % (tot, caught, sum(1 for r in rows if r[6] == "failing input found"))]
open(os.path.join(ROOT, "seeded", "README.md"), "w").write("\n".join(out) + "\n")
print(out[-1])
