#!/usr/bin/env python3
"""Writes /verif/MANIFEST.json from the table below (kept in one place so it stays valid)."""
import json, os, subprocess
ROOT = os.path.dirname(os.path.dirname(os.path.abspath(__file__)))
ALL = ["C%02d" % i for i in range(1, 21)]
TITLES = {}
for l in open(os.path.join(ROOT, "properties.jsonl")):
    d = json.loads(l)
    TITLES[d["id"]] = d["title"]

CLAIMED = {
    "C16": dict(
        text="Machine-checked Coq theorems (Props/C16.v) over the translated tables and a hand model of chars.rs: folding = Unicode simple folding (reference table), block confinement, NFKD rule, idempotence of each map, ASCII behaviour, and agreement of Char::normalize with Char::char_class_and_normalize for every code point, configuration and representation. The tables are regenerated from /repo on every run; the hand-modelled logic is tied by an exhaustive sweep of all 1,112,064 scalars x 8 configurations through the real code and the extracted model.",
        design_ref="DESIGN.md section 6, C16",
        note="Trusted: Coq kernel, translator, extraction (ExtrOcamlBasic only), Rust/OCaml harness; Rust std char predicates modelled by dumped range tables; reference Unicode data from Perl Unicode::UCD / Python unicodedata 14.0.0. No axioms (Print Assumptions: closed).",
        technique="Coq proof over translator-regenerated tables + exhaustive model/implementation correspondence",
    ),
    "C01": dict(
        text="Coq theorems over a hand model of the whole fuzzy dispatch (prefilters, greedy scan, equal-length and single-char shortcuts, slab guard, DP setup): the greedy entry point returns Match exactly when the needle is a subsequence of the normalised haystack and never panics (C01_greedy_decision); the optimal entry point likewise decides the relation and never panics (C01_fuzzy_decision, using the DP panic-freedom proof); the entry points agree and the decision is representation-independent outside known finding K1 (refuted witness included); K1 itself is characterised exactly (C01_K1_characterised: inside the known class every algorithm answers NoMatch for every non-empty needle, so the excluded class hides no panic or wrong match; C01_empty_needle: the empty needle matches with score 0). All for every configuration and every string length. Model tied to the code by a differential run (decision of both variants of both entry points, 16 configs x 4 representation pairs, sizes beyond the matrix/u16 limits; thorough: exhaustive small strings) and by the spec oracle subseq_b on the implementation's answers.",
        design_ref="DESIGN.md section 6, C01",
        note="Trusted: Coq kernel, translator (constants, presets, slab guard), extraction, harness; memchr family and Rust std char predicates modelled by their specification. Known finding K1 excluded by hypothesis and listed in known_findings.json. Axioms: none.",
        technique="Coq proof (list induction, greedy-scan completeness) over a hand model + differential correspondence",
    ),
    "C05": dict(
        text="Coq theorems: prefix/postfix/exact entry points succeed exactly when the trimmed-equality relations of the property hold (C05_exact_kinds); substring matching succeeds exactly when the needle occurs contiguously in the normalised haystack and reports the leftmost occurrence with the highest first-character bonus (C05_substring, with the argmax lemma C05_best_pos), for every configuration/haystack/normalised needle outside K1. The model enumerates occurrences (memchr/memmem by specification); the Rust prefilter selection is tied by the differential run on (decision, start index), including needles starting with several non-letters, occurrences ending at the last character, overlapping occurrences, 8 kinds of whitespace.",
        design_ref="DESIGN.md section 6, C05",
        note="Trusted: Coq kernel, translator, extraction, harness; memchr/memmem modelled by specification. Whitespace for trimming is the predicate the code applies to that representation. Axioms: none.",
        technique="Coq proof over a hand model + differential correspondence with spec oracle",
    ),
    "C02": dict(
        text="Coq theorems: every algorithm that scores through calculate_score (greedy incl. its backward minimisation and forward re-walk, substring, prefix, postfix, exact, the equal-length / tight-window / single-character shortcuts) reports exactly one strictly increasing in-range index per needle character whose normalised haystack character equals it (C02_linear_witness), contiguous and anchored as the kind requires for substring/prefix/postfix/exact (C02_shape); the prior content of the caller's vector is a prefix of the result and untouched on failure. The DP's reconstruct_optimal_path is proved to report a valid embedding for every configuration (C02_dp_witness: row invariant + back-pointer walk, Proofs/DPInv.v, DPWalk.v), so all six algorithms are covered.",
        design_ref="DESIGN.md section 6, C02",
        note="Trusted: Coq kernel, translator, extraction, harness; memchr/memmem by specification. Axioms: none.",
        technique="Coq proof over a hand model + differential correspondence with embedding oracle",
    ),
    "C03": dict(
        text="Coq theorems: the bonus rule equals the literal fzf table for every configuration and the presets carry 10/9 and 8/9 (C03_bonus_table, C03_presets: a changed constant or preset in score.rs/config.rs breaks them at the next run because GenScore.v is regenerated); calculate_score and the single-character scorers return fzf_score (literal constants) of the alignment they report for needles up to 2500 characters (C03_linear_score), every linear scorer saturates at 65535 instead of wrapping (C03_no_wrap), same alignment => same score (C03_same_alignment); the naive statements without needle_ok / bonus bound are refuted with witnesses. The optimal entry point including the DP is covered by C03_dp_score (every DP cell's score is the fzf state of the partial alignment reconstruct returns from it).",
        design_ref="DESIGN.md section 6, C03",
        note="Trusted: Coq kernel, translator, extraction, harness. Scores saturate (fix commit 1d227ff) - equality with the scheme is claimed below saturation. Axioms: none.",
        technique="Coq refinement proof (loop invariant) to a literal spec + translator-regenerated constants + differential correspondence",
    ),
    "C04": dict(
        text="Coq theorems: the best-position search behind one-character needles and substring matching returns the leftmost candidate with the maximal bonus and its early exit is sound for every configuration (C04_best_pos, C04_max_bonus: the clause that failed under the path configuration before fix 13b35fc); the linear prefix bonus lies in [0,8]. C04_upper: the optimal matcher's score never exceeds the maximum of the scheme over ALL alignments (enumeration proved complete); C04_single: for a one-character needle it equals that maximum (any configuration); C04_slab_guard: the translated guard of MatrixSlab::alloc is the documented limit. C04_recurrence: on the matrix path the score is never below the documented two-matrix recurrence evaluated naively over the whole haystack (exact cell-by-cell correspondence of the windowed DP with Spec/Matching.naive_score); the prefix-preference bounds (never lower, at most +8) are proved for all five linear algorithms, every fuzzy call outside the matrix path and two-character needles on it (C04_prefix_outside_K2) and REFUTED on the matrix path for needles of three or more characters (C04_prefix_refuted = known finding K2, reproduced on the real code). Oracles on the implementation (naive recurrence, brute force for haystacks <= 9, every input with prefer_prefix off and on) tie the theorems to the code and search for failing inputs.",
        design_ref="DESIGN.md section 6, C04",
        note="Trusted: Coq kernel, translator, extraction, harness; brute force limited to haystacks of at most 9 characters. Axioms: none.",
        technique="Coq proof (argmax with early exit) + brute-force oracle on the implementation",
    ),
    "C10": dict(
        text="Coq theorems: whenever MatrixSlab::alloc hands out views they lie inside the 133120-byte slab, are pairwise disjoint and aligned (C10_layout), over element-count expressions translated from MatrixLayout::new and fieds_from_ptr on every run (the `* haystack_len` extent of the pinned tree made this theorem fail; fixed in 5627689); the greedy and the optimal entry point (DP included) never panic (C10_greedy_total, C10_dp_no_panic: no u16 underflow in the row-offset arithmetic, no out-of-range index, the prefilter assertion never fires), linear scores saturate (C10_no_wrap), and the optimal matcher's result is independent of what earlier calls left in the scratch row (C10_history). Tie: every case runs on one shared Matcher and on a fresh Matcher per call in the debug profile (overflow checks on; thorough: also release), sizes around every guard, needles of 2500-4000 characters, late starts with prefer_prefix; the cfg facade exports the real view extents which are compared with the model. Partial: panic-freedom of substring/prefix/postfix/exact is covered only through their decision theorems (C05) and the harness.",
        design_ref="DESIGN.md section 6, C10",
        note="Trusted: Coq kernel, translator (layout expressions), extraction, harness; pointer provenance not modelled. Axioms: none.",
        technique="Coq arithmetic proof over translated layout expressions + call-sequence differential harness",
    ),
    "C17": dict(
        text="Coq theorems (Props/C17.v, 18 theorems) over a hand model of utf32_str.rs + chars::graphemes with the grapheme segmentation as an INPUT of the model: Ascii form iff all-ASCII and no CR LF; bytes = text; otherwise first code point per cluster (LF for CR LF); length = number of clusters (the Ascii-form clause is proved equivalent to 'ASCII CRLF-free text has singleton clusters', which the harness validates exhaustively for all ASCII strings of length 1 and 2); all constructors agree for any prior buffer; get/first/last/slice/slice_u32 (all nine RangeBounds shapes, debug and release arithmetic)/chars in both directions/Display/Debug agree with the content. The proof is thin by nature; the weight is on the correspondence: every constructor and accessor of the real type on structured grapheme-rich strings, all ranges of short strings, malformed streams.",
        design_ref="DESIGN.md section 6, C17",
        note="Trusted: Coq kernel, extraction, harness; UAX#29 segmentation (unicode-segmentation crate) and char::escape_debug are inputs of the model obtained from the real crates per case; hypotheses seg_ok / seg_ascii_singletons are checked on every case. Utf32Str::first/last are pub(crate): modelled, tied by reading only. Axioms: none.",
        technique="Coq proof over a hand model parameterised by the segmentation + differential correspondence",
    ),
    "C11": dict(
        text="Coq theorems over the yield-point-granular interleaving model of boxcar.rs (Model/Boxcar.v): after every writer has finished and the vector is dropped, every value handed to push or yielded by / left inside an extend iterator has drop count exactly 1 (C11_exactly_once), nothing is ever dropped twice (C11_never_twice) and nothing reachable through the vector is dropped before it (C11_not_early), for every well-formed history: any number of threads, panicking fills, iterators that report any length and yield any list, any interleaving, any capacity. The theorem uses the TRANSLATED constant saying what Drop does at a null bucket (break/continue); the pinned tree's `break` made it unprovable, C11_break_leaks is the machine-checked witness, fixed in db8cd0c. Tie: scheduled histories with drop-logging payloads on the real vector (threads parked at every yield point), every observation compared with the extracted model, oracle = each created id exactly once in the drop log.",
        design_ref="DESIGN.md section 6, C11",
        note="Trusted: Coq kernel, translator (Drop's null-bucket handling, constants), extraction, scheduler harness; SC interleaving at yield-point granularity; Arc's last-owner semantics (handle bookkeeping is C20); column strings have no drop hook (model only). Axioms: none.",
        technique="Coq inductive invariant with conservation law over an interleaving LTS + scheduled-history correspondence",
    ),
    "C15": dict(
        text="Coq theorems (Props/C15.v, 20) over a model of Atom/Pattern/MultiPattern scoring built on top of the matcher model: atom score = inner match with negation swapping None/Some 0; the result is independent of the ignore_case/normalize fields the shared matcher was left with; pattern = conjunction with u32 sum (empty -> Some 0); indices variant returns the same score and appends exactly the positive atoms' indices in atom order; multi-column = conjunction over zipped columns; match_list = the unique stable descending-score sort of the matching inputs. One genuine defect found by the check and fixed (51582c7: Atom::match_list ignored `negative` for an empty needle; refutation witness kept as a theorem). Tie: ~1.5 M API calls per run on one shared Matcher with randomly flipped config flags vs the extracted model, oracle = every clause on the implementation's output.",
        design_ref="DESIGN.md section 6, C15",
        note="Trusted: Coq kernel, extraction, harness; slice::sort_by_key modelled by its contract (stable) - the model's sort is proved to be the unique stable descending permutation; atoms' fields are read from the real parser (parsing is C14), Utf32Str::new is a parameter (C17); hypotheses no_panic (C10) and score < 2^16. Axioms: none.",
        technique="Coq proof over a compositional model + differential correspondence with clause oracle",
    ),
    "C14": dict(
        text="Coq theorems (Props/C14.v, 11) over a hand model of pattern_atoms / Atom::parse / Atom::new_inner (both the ASCII and the non-ASCII branch) / Pattern::parse,new,reparse with the grapheme segmentation as a parameter: parsing the escaped form of any escapable literal text yields exactly one fuzzy non-negated atom with that needle, for ASCII and non-ASCII text (C14_roundtrip); the full marker/negation table; splitting = maximal runs between unescaped whitespace; smart case / smart normalization / folded needles; reparse = parse; every parsed needle is normalised (the hypothesis of C01-C05). The round-trip clause failed on the pinned tree in the non-ASCII branch (escaped space kept its backslash, other backslashes doubled): found by the check, fixed in 9df3ba5, pinned behaviour kept executable with a machine-checked refutation. Tie: ~450k parser calls per run (structured + malformed streams, all 6 settings; thorough: all strings to length 6 over 11 symbols) compared on (kind, negative, needle, representation, ignore_case, normalize) read from Debug output; oracle = extracted spec on the implementation's atoms.",
        design_ref="DESIGN.md section 6, C14",
        note="Trusted: Coq kernel, extraction, harness; grapheme segmentation is a parameter (seg_faithful on seg_simple texts is validated on every run; for texts with combining marks etc. the real crate's segmentation is fed to the model); private flags read from Atom's Debug output. Axioms: none.",
        technique="Coq proof over a hand model parameterised by segmentation + differential correspondence with spec oracle",
    ),
    "C08": dict(
        text="Coq theorems over the yield-point-granular interleaving model of boxcar.rs: Location::of is injective, in range and tiles the index space for every valid u32 index (C08_location*, arithmetic with N.log2, no sweep); a reservation returns exactly the next free indices (distinct, gap-free: C08_reserve, C08_exclusive); a lookup returns nothing or a completely written item of an assigned index with exactly the columns its fill produced (C08_no_phantom); when push returns its item is visible (C08_push_visible) and stays visible at the same index with the same content forever (C08_stable); an index owned by an unfinished writer is invisible (C08_owned_invisible); the counter never decreases (C08_count_mono). For every well-formed history: any number of threads, push / extend of any batch size with lying iterators and panicking fills, any interleaving, any capacity. Tie: real threads parked by a scheduler at every yield point (after fetch_add, before every bucket CAS, before every publication), stepped by random schedules incl. bucket-boundary races; every observation compared with the extracted model and checked by the spec oracle.",
        design_ref="DESIGN.md section 6, C08",
        note="Trusted: Coq kernel, translator (SKIP, BUCKETS, MAX_ENTRIES; bucket_init_before_publish - the structural reading of get_or_alloc / Bucket::alloc behind the obligation C08_bucket_init_before_publish: flags are cleared before the CAS that publishes a bucket and the winner does nothing more to it), extraction, scheduler harness; sequential consistency at yield-point granularity (release/acquire is C09). Axioms: none.",
        technique="Coq inductive invariant over an interleaving LTS + scheduled-history correspondence",
    ),
    "C09": dict(
        text="Coq theorems over a hand-written release/acquire machine (per-object views, stale reads allowed, any number of threads) of the vector's atomic protocol, parameterised by the memory orderings: orderings_ok o => no reachable racing step (C09_race_free, invariant proof); the orderings TRANSLATED from the current source satisfy orderings_ok (C09_current_ok: this obligation breaks as soon as someone weakens a needed ordering); every conjunct is necessary (11 machine-checked racing executions, C09_need_*); the pinned tree's Relaxed bucket-pointer loads in get / Iter::next race (C09_pinned_races; fixed in b3cd6a2). The check additionally evaluates the required conjunction directly on the translated table (oracle independent of the Coq predicate), ties the site order by scheduled histories, and runs a Miri probe in the thorough tier. Partial: the worker clause (per-thread matcher scratch, result list accessed only under the mutex / inside fork-join) rests on trusted rayon and parking_lot happens-before edges and is not modelled.",
        design_ref="DESIGN.md section 6, C09",
        note="Trusted: Coq kernel, translator (atomic site table), the hand-written RC11-style semantics of Model/BoxcarRA.v (SeqCst treated as AcqRel, no load buffering), program order of the vector's accesses hand-modelled; compiler/hardware conformance and third-party crates are outside. Axioms: none.",
        technique="Coq invariant proof over a release/acquire transition system parameterised by translator-regenerated orderings",
    ),
    "C13": dict(
        text="Coq theorems over the protocol model (Model/Nucleo.v: the UI thread's tick as a sequence of steps, the background run holding the worker mutex, the pool closure's post-unlock phase, flags, ghost obligation g_owed): while a notification is owed (a tick answered `running` and neither a worker notification nor a later tick/restart happened since) the system is never quiescent (C13_no_lost_wakeup); the closure that has released the lock and is about to look at the flag did complete and finds the flag armed, so it notifies (C13_will_notify); the worker notifies only after it has released the lock (C13_notify_after_unlock). For every interleaving at yield-point granularity, timeout 0 or long. The pinned tree's protocol violates this: the check found the lost wake-up as a deterministic schedule on the real code (findings/C13-lost-wakeup-witness.json), fixed in 154d49e. Tie: model-guided scheduled histories on the real Nucleo (UI thread, pool thread and injector threads parked at the yield points in tick_inner / Worker::run / the spawn closure), every observation compared with the extracted model, oracle on the notification events.",
        design_ref="DESIGN.md section 6, C13",
        note="Trusted: Coq kernel, extraction, scheduler harness; real time not modelled ('timeout' is a scheduler choice, enabled exactly while the lock is held); SC interleaving of the flag/lock accesses (the fix uses SeqCst + fences for the Dekker pattern); rayon spawn / parking_lot mutex semantics. Axioms: none.",
        technique="Coq control-state invariant over the protocol LTS + scheduled-history correspondence",
    ),
    "C18": dict(
        text="Coq theorems over a concrete list model of EVERY function of par_sort.rs (shift helpers, insertion sort, partial insertion sort, heapsort, partition, partition_equal, break_patterns with its xorshift, choose_pivot, recurse, par_quicksort; cancel flag = oracle nat->bool; rayon::join sequentialised) and of the worker comparator: the result is always a permutation (C18_perm_partial), sorted with flag false when the flag is never raised (C18_sorted_partial), `true` only if the flag was seen raised (C18_cancel_partial), no index out of range (C18_no_panic_partial), sorted permutations under a total order are unique hence thread-count independent (C18_unique, C18_schedule_independent_partial), the worker comparator is a strict total order on matches with distinct indices with placeholders last (C18_cmp_total); insertion sort, heapsort, partial insertion sort, partition_equal are proved sorted/permuting for any strict weak order, and the block partition (partition_in_blocks, the BlockQuicksort cyclic-swap loop) is proved to satisfy its contract for every comparator (C18_pib_contract), so the UNCONDITIONAL theorems C18_perm / C18_sorted / C18_cancel / C18_no_panic / C18_schedule_independent hold for the executable model of the whole file (the `_partial` versions over an arbitrary contract-satisfying partition are kept). One genuine defect found by the check and fixed (73be869): imbalanced partitions were not charged to the heapsort limit on the parallel path, so an adaptive adversary caused quadratic time and a stack overflow from ~16000 elements. Tie: exact equality of flag, final array and comparator-call count with the extracted model whenever the schedule is deterministic (never cancelled / cancelled at a given comparator call with 1 thread), observables otherwise; sorted/reversed/organ-pipe/few-keys/adversarial (McIlroy antiquicksort) inputs, 1-8 threads.",
        design_ref="DESIGN.md section 6, C18",
        note="Trusted: Coq kernel, extraction, harness; rayon::join = left then right on disjoint halves; stack depth / running time outside the list model (the finding above was caught by the oracle on the implementation). Axioms: none (recursion on fuel).",
        technique="Coq proof over a concrete list model of all of par_sort.rs + differential correspondence incl. adversarial inputs",
    ),
    "C06": dict(
        text="Coq theorem over the protocol model (Model/Nucleo.v, Proofs/SnapshotFacts.v, 2300 lines, an inductive invariant through every phase of Worker::run, tick_inner and the injectors): in EVERY state reachable by a well-formed history with truthful append flags - any interleaving, any timeout / cancellation, runs stopped anywhere, whatever the parallel scan happened to see - the snapshot's matches are duplicate-free, never a placeholder, initialised items of the snapshot's stream carrying exactly the score of the snapshot's pattern; a set of exactly item_count() initialised processed items contains all matches and every processed item the pattern matches is reported; the order is score descending, column length ascending, index ascending, or index order for the empty pattern (C06_snapshot). Hypothesis: no stream exceeds u32::MAX reservations (guaranteed by boxcar's capacity check, C11); without it the statement is refuted for the unbounded model (C06_unbounded_refuted). Tie: model-guided scheduled histories (17 styles: writers parked mid-push, restart-heavy incl. back-to-back restarts, zero-timeout ticks, cancel-heavy, retype, stale run at restart, bulk extends with ties, cancelled run then empty pattern, scan cancelled by an append edit, two columns typed between two ticks, run finishing right after spawn, tick stepped into the held lock, cancelled Rescore then append) replayed on the real Nucleo; every observation compared with the extracted model and checked by an independent oracle (scores from the real Pattern::score).",
        design_ref="DESIGN.md section 6, C06",
        note="Trusted: Coq kernel, extraction, scheduler harness; interleavings at yield-point granularity with the scan's view over-approximated by a parameter; the event alphabet includes Nucleo::update_config with the unchanged configuration (EConfig / `cfg`: takes the worker lock, changes nothing); every observation also reads Snapshot::matched_items(range) (four bound shapes, len, rev) against matches(); matcher scores are a table computed by the real Pattern::score (matcher correctness is C01-C05, pattern scoring C15); par_sort's contract is C18. Axioms: none.",
        technique="Coq inductive invariant over the protocol LTS + scheduled-history correspondence",
    ),
    "C07": dict(
        text="Protocol half: Coq theorem C07_converges over the protocol model - in every reachable (truthful) quiescent state (UI idle, lock free, last tick said `not running`, nothing pending, all items published before that tick) the snapshot is of the current stream and pattern, counts every item and contains exactly the items a from-scratch scan matches (scores and order by C06_snapshot), whatever edits (append / non-append), ticks, timeouts, cancellations and restarts led there. Text half: C07_append_refines (Spec/AppendSpec.v, Proofs/AppendFacts.v): for every seg-simple old text and suffix, every case / normalisation setting, if the translated condition of MultiPattern::reparse allows `Update` then every haystack matched by the new atoms is matched by the old atoms, outside known finding K3 (machine-checked refutation C07_append_K3_refuted); C07_append_refines_run states the same against the matcher model. The proof attempt found a second unsound append case (escaped trailing '$'), repaired by fix bc017c9 (C07_append_old_condition_refuted documents it). Tie: scheduled histories as for C06 plus ~9000 (quick) / 75000 (thorough) typed (old, old+suffix) pairs through the real MultiPattern::reparse: the Update/Rescore decision is compared with the extracted AppendSpec.update_allowed, and under Update no haystack of a pool (28 fixed + 3 derived from the new pattern) may be newly matched.",
        design_ref="DESIGN.md section 6, C07",
        note="Known finding K3 (U+0185/U+2C65/U+2C66 with smart normalisation) is reported as KNOWN-FINDING. Trusted: as C06; the append theorem is over the pattern parser model (tied to the code by C14's correspondence) restricted to seg-simple texts (grapheme segmentation = CRLF rule). Axioms: none.",
        technique="Coq inductive invariant over the protocol LTS + theorem over the parser model + scheduled-history and typed-pair correspondence",
    ),
    "C12": dict(
        text="Coq theorems over the protocol model (Model/Nucleo.v): restart(true) empties and re-targets the snapshot at once, restart(false) leaves it untouched, the new stream id is fresh (C12_restart); nothing but a tick or restart(true) ever changes the snapshot - in particular no injector activity on any stream (C12_snapshot_stable); a tick only ever installs a snapshot of the current stream (C12_pickup_current); every index in the snapshot is an initialised item of the snapshot's own stream, so the streams are never mixed and the snapshot stays safe to read (C12_no_mix), for every history and interleaving. Tie: model-guided random walks over the enabled events of the extracted model (17 styles incl. writers parked between reservation and publication, restart-heavy with back-to-back restarts, zero-timeout ticks racing the end of the run, ticks stepped into the held worker lock, bulk extends), replayed on the real Nucleo (two matcher columns, push and extend) by the scheduler; every observation (tick status, snapshot pattern/count/matches/item data, active_injectors, notify count, unchecked reads of uninitialised entries) compared with the model and checked by the property oracle.",
        design_ref="DESIGN.md section 6, C12",
        note="Trusted: Coq kernel, extraction, scheduler harness (UI thread, one pool thread and injector threads parked at the cfg(nucleo_verif) yield points); interleavings at yield-point granularity with the scan's view of the item stream over-approximated by a parameter; scores/lengths are a table computed by the real Pattern::score; rayon spawn, parking_lot mutex and Arc semantics. Axioms: none.",
        technique="Coq inductive invariants over the protocol LTS + scheduled-history correspondence",
    ),
    "C19": dict(
        text="Coq theorems over the protocol model with ghost fields recording the snapshot and the number of published items of the current stream when the tick began: changed = false implies the snapshot is identical to the one before the call (C19_unchanged); running = false implies every item of the current stream whose push had completed before the call is counted, the snapshot's pattern is the matcher's current pattern and its stream is the current one (C19_idle), for every history and interleaving. Tie: model-guided random walks over the enabled events of the extracted model (17 styles incl. writers parked between reservation and publication, restart-heavy with back-to-back restarts, zero-timeout ticks racing the end of the run, ticks stepped into the held worker lock, bulk extends), replayed on the real Nucleo (two matcher columns, push and extend) by the scheduler; every observation (tick status, snapshot pattern/count/matches/item data, active_injectors, notify count, unchecked reads of uninitialised entries) compared with the model and checked by the property oracle.",
        design_ref="DESIGN.md section 6, C19",
        note="Trusted: Coq kernel, extraction, scheduler harness (UI thread, one pool thread and injector threads parked at the cfg(nucleo_verif) yield points); interleavings at yield-point granularity with the scan's view of the item stream over-approximated by a parameter; scores/lengths are a table computed by the real Pattern::score; rayon spawn, parking_lot mutex and Arc semantics. Axioms: none.",
        technique="Coq inductive invariants over the protocol LTS + scheduled-history correspondence",
    ),
    "C20": dict(
        text="Coq theorem over the protocol model: whenever the UI thread is between API calls, active_injectors (strong count of the current stream minus the matcher's own references) equals the number of live injector handles of the current stream, and the usize subtraction never underflows (C20_count), for every history of injector/clone/drop/restart/edit/tick with the background run at any stage. Tie: model-guided random walks over the enabled events of the extracted model (17 styles incl. writers parked between reservation and publication, restart-heavy with back-to-back restarts, zero-timeout ticks racing the end of the run, ticks stepped into the held worker lock, bulk extends), replayed on the real Nucleo (two matcher columns, push and extend) by the scheduler; every observation (tick status, snapshot pattern/count/matches/item data, active_injectors, notify count, unchecked reads of uninitialised entries) compared with the model and checked by the property oracle.",
        design_ref="DESIGN.md section 6, C20",
        note="Trusted: Coq kernel, extraction, scheduler harness (UI thread, one pool thread and injector threads parked at the cfg(nucleo_verif) yield points); interleavings at yield-point granularity with the scan's view of the item stream over-approximated by a parameter; scores/lengths are a table computed by the real Pattern::score; rayon spawn, parking_lot mutex and Arc semantics. Axioms: none.",
        technique="Coq bookkeeping invariant over the protocol LTS + scheduled-history correspondence",
    ),
}
PENDING_REASON = "not claimed yet: the Coq model, theorems and code tie for this property are still being built in this session (design in DESIGN.md section 6); no other technique is substituted"


def main():
    hooks = subprocess.run(["git", "-C", "/repo", "log", "--format=%H %s"], capture_output=True, text=True).stdout.splitlines()
    hook_commits = [l.split()[0] for l in hooks if " verif hook" in l]
    m = {
        "version": 1,
        "setup_cmd": "./check --setup",
        "hooks": {
            "guard": "--cfg nucleo_verif",
            "enable": "RUSTFLAGS='--cfg nucleo_verif' (set in harness/*/.cargo/config.toml; the harness crates depend on /repo by path)",
            "baseline_off_cmd": "cd /repo && cargo test --workspace --no-fail-fast --offline",
            "source_commits": hook_commits,
            "add_only": True,
        },
        "engines": [
            {"name": "coq", "path": "coq/", "serves_properties": sorted(CLAIMED), "kind_free_text": "Coq 8.16.1 development: Gen (translated from /repo each run), Model, Proofs, Props"},
            {"name": "translator", "path": "tools/translate.py", "serves_properties": sorted(CLAIMED), "kind_free_text": "Rust source -> Gallina definitions (tables, constants, presets, layout extents, atomic orderings)"},
            {"name": "extracted-model", "path": "ocaml/", "serves_properties": sorted(CLAIMED), "kind_free_text": "OCaml extraction of the executable models + line-oriented driver"},
            {"name": "hn", "path": "harness/hn", "serves_properties": sorted(c for c in CLAIMED if c in ("C06","C07","C08","C09","C11","C12","C13","C18","C19","C20")), "kind_free_text": "Rust scheduler harness (yield-point scheduler, boxcar / protocol histories, par_sort, layout / leak / capacity / column / scratch probes) running nucleo built from /repo with --cfg nucleo_verif"},
            {"name": "hm", "path": "harness/hm", "serves_properties": sorted(c for c in CLAIMED if c in ("C01","C02","C03","C04","C05","C10","C14","C15","C16","C17")), "kind_free_text": "Rust harness running nucleo-matcher built from /repo with --cfg nucleo_verif"},
        ],
        "checks": [],
        "not_applicable": [],
        "notes": "All checks are `./check <id>`; VERIF_SEED and VERIF_TIER are honoured. known_findings.json lists three known findings (K1: C01/C05, K2: C04, K3: C07 - printed as KNOWN-FINDING lines, exit 0) and the defects repaired by fix: commits (fixed entries suppress nothing). When the translator cannot regenerate GenScore.v / GenTables.v the kept file is validated against the built code by values (tools/fallback.py; reported as a note: line and in the evidence field translator_fallback). seeded/ holds 236 confirmed source changes (six rounds) with the verdict of every check that was run on them (seeded/README.md); DESIGN.md section 0 is the build status.",
    }
    for cid in ALL:
        if cid in CLAIMED:
            c = CLAIMED[cid]
            m["checks"].append({
                "property_id": cid,
                "quick_cmd": "./check %s --tier quick" % cid,
                "thorough_cmd": "./check %s --tier thorough" % cid,
                "evidence_file": "/verif/evidence/%s.json" % cid,
                "replay_cmd_template": "./check %s --replay {path}" % cid,
                "engine": "coq",
                "level_claimed": {"category": "proof", "text": c["text"], "design_ref": c["design_ref"]},
                "level_note": c["note"],
                "technique": c["technique"],
            })
        else:
            m["not_applicable"].append({"property_id": cid, "reason": PENDING_REASON})
    with open(os.path.join(ROOT, "MANIFEST.json"), "w") as f:
        json.dump(m, f, indent=1)
    print("MANIFEST.json: %d checks, %d not claimed" % (len(m["checks"]), len(m["not_applicable"])))


if __name__ == "__main__":
    main()
