#!/usr/bin/env python3
"""Case generator for the matcher correspondence (C01-C05, C10).  Every random choice derives from one
PRNG seeded with VERIF_SEED.  Output: one case per line
   <cfg bits: paths ignore_case normalize prefer_prefix> <algo> <hrepr> <nrepr> <haystack cps> <needle cps>
Streams (mostly-valid inputs plus separate malformed / limit-sized ones):
   derived    needle = normalised subsequence of the haystack (mostly matching), lightly perturbed
   contig     needle = normalised contiguous slice (substring/prefix/postfix/exact shapes, whitespace trimming)
   random     independent haystack / needle (mostly non-matching)
   edge       empty, equal length, longer needle, single character
   limits     sizes around the matrix / u16 limits, very long needles
   exhaustive (thorough) all strings up to a length bound over a small alphabet
"""
import json
import os
import random
import re

HERE = os.path.dirname(os.path.abspath(__file__))
GEN = os.path.join(os.path.dirname(HERE), "coq", "Gen")

ASCII_ALPHA = [ord(c) for c in "abcAB12/:,-_ .\t\\xyZ;|$^!'" + "09z@[`{"]   # incl. the edges of the digit / letter ranges and their +-32 twins
UNI_ALPHA = [0xE4, 0xC4, 0x17F, 0x3C2, 0x3C3, 0x3A3, 0xB5, 0x3BC, 0x1C5, 0x2079, 0xBA, 0x4F60, 0x345, 0xE9, 0xC9,
             0xDF, 0x1E9E, 0xC6, 0x194, 0x263, 0xA0, 0x3000, 0x0A, 0x1E0B, 0x1E921, 0x1E943, 0x212A, 0x130, 0x2160]
ALGOS = "FGSPOE"

_tables = None


def tables():
    """fold table and normalize tables, only used to derive normalised needles (generator quality)"""
    global _tables
    if _tables is None:
        ref = json.load(open(os.path.join(GEN, "unicode_ref.json")))
        src = open(os.path.join(GEN, "GenTables.v")).read()
        t = {}
        for name in ("latin_1ab", "latin_extended_additional", "superscripts_and_subscripts"):
            m = re.search(r"Definition %s : list N :=\s*\[(.*?)\]\." % name, src, re.S)
            t[name] = [int(x) for x in re.findall(r"\d+", m.group(1))]
        _tables = ({a: b for a, b in ref["fold"]}, t)
    return _tables


def normalize(c):
    _, t = tables()
    if 0xA0 <= c <= 0x29F:
        return t["latin_1ab"][c - 0xA0]
    if 0x1E00 <= c <= 0x1EFF:
        return t["latin_extended_additional"][c - 0x1E00]
    if 0x2070 <= c <= 0x209F:
        return t["superscripts_and_subscripts"][c - 0x2070]
    return c


def norm(cfg, repr_, c):
    ic, nm = cfg[1] == "1", cfg[2] == "1"
    if repr_ == "A":
        return c + 32 if ic and 65 <= c <= 90 else c
    if nm:
        c = normalize(c)
    if ic:
        c = tables()[0].get(c, c)
    return c


def fix_needle(cfg, n):
    """make a needle 'already normalised' (fixed point of norm in char representation), best effort"""
    out = []
    for c in n:
        for _ in range(3):
            c2 = norm(cfg, "U", c)
            if c2 == c:
                break
            c = c2
        out.append(c)
    return out


def cps(l):
    return ",".join(str(c) for c in l) if l else "-"


def tags(h, n, rng, all_tags):
    """representation combinations that are legal for the content"""
    hs = ["A", "U"] if all(c < 128 for c in h) else ["U"]
    ns = ["A", "U"] if all(c < 128 for c in n) else ["U"]
    combos = [(a, b) for a in hs for b in ns]
    if all_tags:
        return combos
    return [rng.choice(combos)]


def rand_cfg(rng):
    return "".join(rng.choice("01") for _ in range(4))


def rand_string(rng, length, uni_p):
    out = []
    for _ in range(length):
        if rng.random() < uni_p:
            out.append(rng.choice(UNI_ALPHA))
        else:
            out.append(rng.choice(ASCII_ALPHA))
    return out


def emit(lines, cfg, algos, h, n, rng, all_tags=False):
    for hr, nr in tags(h, n, rng, all_tags):
        for a in algos:
            lines.append("%s %s %s %s %s %s" % (cfg, a, hr, nr, cps(h), cps(n)))


def gen(seed, tier, want=None):
    rng = random.Random(seed)
    lines = []
    nbase = 1500 if tier == "quick" else 12000
    # ---- derived ----
    for k in range(nbase):
        cfg = rand_cfg(rng)
        L = rng.choice([1, 2, 3, 4, 5, 6, 8, 10, 14, 20, 30]) if rng.random() < 0.9 else rng.randint(31, 200)
        uni_p = rng.choice([0, 0, 0.1, 0.4])
        h = rand_string(rng, L, uni_p)
        m = rng.randint(1, min(L, rng.choice([1, 2, 3, 4, 6, 10])))
        pos = sorted(rng.sample(range(L), m))
        hr = "A" if all(c < 128 for c in h) else "U"
        n = fix_needle(cfg, [norm(cfg, hr, h[i]) for i in pos])
        r = rng.random()
        if r < 0.12 and len(n) >= 2:  # perturb: swap
            i = rng.randrange(len(n) - 1)
            n[i], n[i + 1] = n[i + 1], n[i]
        elif r < 0.2:  # perturb: foreign char
            n[rng.randrange(len(n))] = rng.choice([ord("q"), ord("7"), 0x3C3, ord("%")])
        elif r < 0.25 and L > 1:  # delete a used haystack char
            del h[pos[rng.randrange(len(pos))]]
        emit(lines, cfg, ALGOS if k % 3 == 0 else "FG", h, n, rng, all_tags=(k % 4 == 0))
    # ---- contiguous ----
    for k in range(nbase):
        cfg = rand_cfg(rng)
        L = rng.choice([2, 3, 4, 5, 6, 8, 12, 20])
        uni_p = rng.choice([0, 0, 0.15, 0.4])
        h = rand_string(rng, L, uni_p)
        ws = [32, 9, 10, 13, 12, 11, 0xA0, 0x3000]
        if rng.random() < 0.5:
            h = [rng.choice(ws) for _ in range(rng.randint(0, 2))] + h
        if rng.random() < 0.5:
            h = h + [rng.choice(ws) for _ in range(rng.randint(0, 2))]
        L = len(h)
        m = rng.randint(1, min(L, 5))
        where = rng.random()
        if where < 0.25:
            s = 0
        elif where < 0.5:
            s = L - m
        else:
            s = rng.randint(0, L - m)
        hr = "A" if all(c < 128 for c in h) else "U"
        n = fix_needle(cfg, [norm(cfg, hr, c) for c in h[s:s + m]])
        r = rng.random()
        if r < 0.1:
            n[rng.randrange(len(n))] = rng.choice([ord("q"), ord("-"), 0x3C3])
        elif r < 0.2:
            # needle with leading non-letters ("--b" shapes)
            n = [rng.choice([45, 47, 49]) for _ in range(rng.randint(1, 2))] + n[:2]
            if rng.random() < 0.7:
                p = rng.randint(0, max(0, L - len(n)))
                h[p:p + len(n)] = n
                if rng.random() < 0.5:
                    h.insert(p, n[0])
        if len(n) > len(h) and rng.random() < 0.8:
            n = n[:len(h)]
        emit(lines, cfg, "SPOE" if k % 2 else "SPOEFG", h, n, rng, all_tags=(k % 4 == 0))
    # ---- gap-vs-run ties: first needle character, k fillers, then the needle again with a camelCase / boundary
    #      bonus in the middle of the run: the M cell (continue the run) and the P cell (come from the gap) of the
    #      score matrix tie exactly for particular k, and the carried consecutive bonus then differs ----
    for k in range(1, (40 if nbase < 5000 else 90)):
        for nd, mid in (("abc", "aBc"), ("abcd", "aBcd"), ("abc", "a/bc"), ("xyz", "xY z"[0:2] + "z"), ("ab", "aB")):
            cfg = rand_cfg(rng)
            h = [ord(nd[0])] + [ord("x") if nd[0] != "x" else ord("q")] * k + [ord(c) for c in mid]
            n_ = [ord(c) for c in nd]
            emit(lines, cfg, "F", h, fix_needle(cfg, n_), rng, all_tags=(k % 5 == 0))
    # ---- decoys: a true occurrence inside a word followed by a better-placed FALSE candidate that shares
    #      only its first character(s) with the needle (and the other way round) ----
    for k in range(nbase // 6):
        cfg = rand_cfg(rng)
        word = [rng.choice([ord("f"), ord("o"), ord("x"), ord("b")]) for _ in range(rng.randint(2, 4))]
        pre = [rng.choice([ord("x"), ord("y"), ord("q")]) for _ in range(rng.randint(1, 3))]
        sep = rng.choice([32, 47, 45, 95])
        cut = rng.randint(1, len(word) - 1)
        decoy = word[:cut] + [ord("z")]
        if rng.random() < 0.5:
            h = pre + word + [sep] + decoy
        else:
            h = decoy + [sep] + pre + word + [sep] + decoy
        if rng.random() < 0.3:
            h = h + [0xE4]
        emit(lines, cfg, "SFG", h, fix_needle(cfg, word), rng, all_tags=(k % 3 == 0))
    # ---- truncated occurrence at the very end: the haystack ENDS with a proper prefix of the needle (with and
    #      without a complete occurrence earlier), needles starting with 0..3 non-letters: every candidate scan that
    #      looks at the last needle_len - 1 positions must still clamp / reject there (round 6, C05-m11 / C10-m11) ----
    for k in range(nbase // 5):
        cfg = rand_cfg(rng)
        lead = [rng.choice([45, 47, 49, 46, 95, 32]) for _ in range(rng.choice([0, 1, 1, 2, 2, 3]))]
        tail = [rng.choice([ord("a"), ord("b"), ord("c"), ord("Z"), 45, 49]) for _ in range(rng.randint(1, 3))]
        n_ = lead + tail
        if len(n_) < 2:
            n_ = n_ + [ord("b")]
        t = rng.randint(1, len(n_) - 1)
        body = rand_string(rng, rng.randint(0, 8), rng.choice([0, 0, 0.2]))
        if rng.random() < 0.5:
            p_ = rng.randint(0, len(body))
            body = body[:p_] + n_ + body[p_:]
        h = body + n_[:t]
        if rng.random() < 0.15:
            h = h + [rng.choice([32, 0xE4])]
        emit(lines, cfg, "SPOEFG" if k % 2 else "S", h, fix_needle(cfg, n_), rng, all_tags=(k % 3 == 0))
    # ---- random ----
    for k in range(nbase // 3):
        cfg = rand_cfg(rng)
        h = rand_string(rng, rng.randint(0, 12), rng.choice([0, 0.3]))
        n = fix_needle(cfg, rand_string(rng, rng.randint(0, 4), rng.choice([0, 0.3])))
        if cfg[1] == "1":
            n = [c + 32 if 65 <= c <= 90 else c for c in n]
        emit(lines, cfg, ALGOS, h, n, rng)
    # ---- edge ----
    for k in range(nbase // 5):
        cfg = rand_cfg(rng)
        h = rand_string(rng, rng.randint(0, 6), rng.choice([0, 0.3]))
        kind = rng.randrange(4)
        hr = "A" if all(c < 128 for c in h) else "U"
        if kind == 0:
            n = []
        elif kind == 1:
            n = fix_needle(cfg, [norm(cfg, hr, c) for c in h])  # equal length
        elif kind == 2:
            n = fix_needle(cfg, [norm(cfg, hr, c) for c in h]) + [ord("a")]  # longer
        else:
            n = fix_needle(cfg, [norm(cfg, hr, rng.choice(h))]) if h else [ord("a")]
        emit(lines, cfg, ALGOS, h, n, rng, all_tags=True)
    # ---- midsize: windows of 2049..2900 columns with short needles whose greedy alignment is poor ----
    for k in range(12 if tier == "quick" else 120):
        cfg = rand_cfg(rng)[:3] + "0"
        W = rng.randint(2049, 2900)
        m = rng.randint(2, 6)
        word = [rng.choice([ord("x"), ord("y"), ord("z")]) for _ in range(m)]
        filler = [rng.choice([ord("q"), ord("_"), ord("0")]) for _ in range(W)]
        # a scattered (poor) occurrence early, a compact word-boundary occurrence late
        h = list(filler)
        p = 1
        for c in word:
            h[p] = c
            p += rng.randint(2, 5)
        q = rng.randint(W // 2, W - m - 2)
        h[q - 1] = ord(" ")
        h[q:q + m] = word
        emit(lines, cfg, "FG", h, word, rng)
    # ---- limits ----
    nl = 6 if tier == "quick" else 40
    for k in range(nl):
        cfg = rand_cfg(rng)
        kind = k % 6
        if kind == 0:   # cells around 102400
            m = rng.choice([2, 3, 50, 100])
            W = 102400 // m + rng.choice([-1, 0, 1])
        elif kind == 1:  # needle around 2048
            m = 2048 + rng.choice([-1, 0, 1]); W = m + rng.randint(1, 40)
        elif kind == 2:  # haystack around 65535
            m = rng.choice([1, 2]); W = 65535 + rng.choice([-1, 0, 1, 2])
        elif kind == 3:  # very long needle (u16 range of the score)
            m = rng.choice([2500, 2521, 2600, 4000]); W = m + rng.choice([0, 1, 5])
        elif kind == 4:  # large start offset with prefix preference
            m = 2; W = rng.choice([21900, 70000])
            cfg = cfg[:3] + "1"
        else:
            m = rng.randint(2, 30); W = rng.randint(1000, 5000)
        uni = rng.random() < 0.4
        base = [ord(c) for c in "ab/ -Xy1"] + ([0xE4, 0x4F60] if uni else [])
        h = [rng.choice(base) for _ in range(W)]
        if kind == 4:
            h = [ord("x")] * (W - 3) + [ord("q"), ord(" "), ord("z")]
            n = [ord("q"), ord("z")]
        else:
            pos = sorted(rng.sample(range(W), min(m, W)))
            hr = "A" if all(c < 128 for c in h) else "U"
            n = fix_needle(cfg, [norm(cfg, hr, h[i]) for i in pos])
        emit(lines, cfg, "FG" if kind != 3 else "FGSE", h, n, rng)
        if kind == 0:
            # more than 65536 matrix cells (offsets into the back-pointer matrix must not be narrowed to 16 bits)
            for W2, m2 in ((1000, 100), (1100, 90), (40000, 2)):
                h2 = [rng.choice([ord(c) for c in "ab/ -Xy1"]) for _ in range(W2)]
                pos2 = sorted(rng.sample(range(W2), m2))
                pos2[0], pos2[-1] = 0, W2 - 1
                emit(lines, cfg, "FG", h2, fix_needle(cfg, [norm(cfg, "A", h2[i]) for i in pos2]), rng)
                # ... and with every row as wide as possible (each needle character found at once)
                h3 = [ord("a")] * W2
                for j in range(7, W2, 53):
                    h3[j] = ord("b")
                emit(lines, cfg, "FG", h3, [ord("a")] * m2, rng)
        if kind == 3:
            # every needle length around the point where the u16 score saturates (26 per character: 65535 / 26 = 2520),
            # as a whole-haystack match with the largest bonuses, all algorithms, with and without prefix preference
            for m3 in (2519, 2521, 2600, 4000):
                h4 = []
                while len(h4) < m3:
                    h4 += [rng.choice([ord(c) for c in "abXy1"]), 32] if len(h4) % 7 else [ord("/"), rng.choice([ord(c) for c in "abXy1"])]
                h4 = h4[:m3]
                for pp in "01":
                    emit(lines, cfg[:3] + pp, "FGSPOE", h4, fix_needle(cfg, [norm(cfg, "A", c) for c in h4]), rng)
        if kind == 4:
            # the match window beyond index 65535 (indices must not be narrowed to 16 bits), with and without a gap
            for W2, tail in ((70003, "q z"), (65536 + rng.randint(1, 900), "q--z"), (131075, "qz z")):
                h2 = [ord("x")] * (W2 - len(tail)) + [ord(c) for c in tail]
                emit(lines, cfg[:3] + rng.choice("01"), "FGS", h2, [ord("q"), ord("z")] if "qz" not in tail else [ord("z"), ord("z")], rng)
            # the window starts just beyond a multiple of 65536 with prefix preference ON: the decayed prefix bonus is
            # computed from start - 1, which must saturate (not wrap) when narrowed to 16 bits (round 6, C10-m12)
            for d in (1, 3, 9):
                h2 = [ord("x")] * (65536 + d) + [ord(c) for c in "q z"]
                emit(lines, cfg[:3] + "1", "FG", h2, [ord("q"), ord("z")], rng)
    # ---- greedy fallback on a large NON-ASCII haystack (window from the first needle character to the LAST occurrence of
    #      the last one far above the matrix limit): repeated last needle character, missing middle character, and the
    #      plain match - the fallback must find the tight end itself (round 6, C02-m11) ----
    for W2 in ((20000, 9000) if tier == "quick" else (20000, 9000, 30011, 66000)):
        cfg = rand_cfg(rng)
        fill = rng.choice([0xE9, 0x4F60, 0x3C3])
        for tail, nd in (("b b", "ab"), ("b b", "axb"), ("b", "ab"), ("xb-b", "axb"), ("cb c", "abc")):
            h2 = [ord("a")] + [fill] * W2 + [ord(c) for c in tail]
            emit(lines, cfg, "FG", h2, fix_needle(cfg, [ord(c) for c in nd]), rng)
    # ---- range edges and case twins: one- and two-character needles over the characters at the edges of the ASCII
    #      digit / letter ranges and their +-32 neighbours ('@' 'A' 'Z' '[' '`' 'a' 'z' '{' '0' '9' '/' ':'), haystacks that hold
    #      the needle character, its case twin and its +-32 neighbour at differently rewarded positions ----
    edge_chars = [ord(c) for c in "@AZ[`az{09/:"]
    for k in range(nbase // 5):
        cfg = rand_cfg(rng)
        c0 = rng.choice(edge_chars)
        twins = [c0, c0 ^ 32, c0 + 32 if c0 + 32 < 127 else c0 - 32, c0 - 32 if c0 - 32 > 32 else c0 + 32]
        seps = [32, 47, 45, 95, 120, 49]
        hay = []
        for _ in range(rng.randint(2, 5)):
            hay += [rng.choice(seps)] * rng.randint(0, 2) + [rng.choice(twins)]
        hay += [rng.choice(seps)] * rng.randint(0, 1)
        nd = [c0] if rng.random() < 0.7 else [c0, rng.choice(twins)]
        emit(lines, cfg, "FGSPOE", hay, fix_needle(cfg, nd), rng, all_tags=(k % 3 == 0))
    # ---- occurrences behind different kinds of boundaries: the same word after whitespace, after a path delimiter, after
    #      another non-word character, inside a word and at the very start (the best-placed one must win; the early exit
    #      "cannot get better" of the scanners must use the largest bonus of the configuration) ----
    for k in range(nbase // 8):
        cfg = rand_cfg(rng)
        word = [rng.choice([ord(c) for c in "fobaz9"]) for _ in range(rng.randint(1, 4))]
        befores = [[32], [47], [45], [58], [120], [9], [92]]
        rng.shuffle(befores)
        hay = [] if rng.random() < 0.5 else [ord("a")]
        for b in befores[:rng.randint(2, 4)]:
            hay += b + word
            if rng.random() < 0.3:
                hay += [ord("q")]
        emit(lines, cfg, "FGSPO", hay, fix_needle(cfg, word), rng, all_tags=(k % 4 == 0))
    # ---- low-byte collisions: non-ASCII haystack characters whose low byte equals an ASCII needle byte (a truncating
    #      comparison between a code point and a byte would accept them) ----
    for k in range(nbase // 10):
        cfg = rand_cfg(rng)
        word = [rng.choice([ord(c) for c in "abrz/ 1X"]) for _ in range(rng.randint(2, 5))]
        hay = list(word)
        for j in rng.sample(range(len(word)), rng.randint(1, len(word))):
            hay[j] = rng.choice([0x3000, 0x0100, 0x4E00, 0x1E00, 0x10400]) + word[j]
        hay = [rng.choice([ord("x"), 0x3042])] * rng.randint(0, 2) + hay + [ord("y")] * rng.randint(0, 2)
        emit(lines, cfg, "FGSPOE", hay, fix_needle(cfg, word), rng, all_tags=True)
    return lines


def exhaustive(alpha_h, alpha_n, maxh, maxn, cfgs, algos, tagsets):
    """all (h, n) with |h| <= maxh over alpha_h and 1 <= |n| <= maxn over alpha_n"""
    import itertools
    lines = []
    hs = [list(t) for L in range(0, maxh + 1) for t in itertools.product(alpha_h, repeat=L)]
    ns = [list(t) for L in range(1, maxn + 1) for t in itertools.product(alpha_n, repeat=L)]
    for cfg in cfgs:
        for h in hs:
            for n in ns:
                for hr, nr in tagsets:
                    if hr == "A" and any(c >= 128 for c in h):
                        continue
                    if nr == "A" and any(c >= 128 for c in n):
                        continue
                    for a in algos:
                        lines.append("%s %s %s %s %s %s" % (cfg, a, hr, nr, cps(h), cps(n)))
    return lines


if __name__ == "__main__":
    import sys
    seed = int(os.environ.get("VERIF_SEED", "1"))
    tier = sys.argv[1] if len(sys.argv) > 1 else "quick"
    for l in gen(seed, tier):
        print(l)
