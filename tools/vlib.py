"""Shared machinery of ./check: translator, Coq build + audit, extraction, harness builds, evidence."""
import fcntl
import glob
import json
import os
import re
import subprocess
import sys
import time

ROOT = os.path.dirname(os.path.dirname(os.path.abspath(__file__)))
COQ = os.path.join(ROOT, "coq")
OCAML = os.path.join(ROOT, "ocaml")
REPO = os.environ.get("VERIF_REPO", "/repo")
REPLAYS = os.path.join(ROOT, "replays")
EVID = os.path.join(ROOT, "evidence")
SCRATCH = os.path.join(ROOT, ".scratch")
NPROC = os.cpu_count() or 4

ENV = dict(os.environ)
ENV.update({"CARGO_NET_OFFLINE": "true", "CARGO_TERM_COLOR": "never"})

# the extracted models are not tail recursive: give every child process (the OCaml driver in particular) a large
# stack; long haystacks (100 000+ characters) otherwise overflow the default 8 MiB
try:
    import resource as _resource

    _soft, _hard = _resource.getrlimit(_resource.RLIMIT_STACK)
    _want = 4 << 30
    if _hard != _resource.RLIM_INFINITY:
        _want = min(_want, _hard)
    if _soft == _resource.RLIM_INFINITY or _soft < _want:
        _resource.setrlimit(_resource.RLIMIT_STACK, (_want, _hard))
except Exception:  # noqa
    pass

TRUSTED_BASE_COMMON = [
    "Coq 8.16.1 kernel (coqc, full .vo builds; vm_compute used for finite computations; native_compute not used)",
    "tools/translate.py (translator from the Rust sources to coq/Gen/*.v: a small Rust front end - tokenizer, expression parser, evaluator - for the matcher crate, a function-body scanner with helper inlining and ordering resolution for boxcar.rs; unrecognised constructs are errors)",
    "extraction with ExtrOcamlBasic only (bool, option, unit, list, prod, sumbool -> OCaml types; no Extract Constant / Extract Inductive of our own), OCaml 4.13.1, the hand-written driver (ocaml/*.ml)",
    "the Rust correspondence harness (harness/*) and this check script (diff, oracle evaluation)",
    "axioms: none declared by the development; Print Assumptions output of every property theorem is compared with an allow-list on every run",
]

ALLOWED_AXIOMS = {
    # std-library axioms that Equations / Program may pull in (named in DESIGN.md section 4)
    "functional_extensionality_dep",
    "FunctionalExtensionality.functional_extensionality_dep",
    "Coq.Logic.FunctionalExtensionality.functional_extensionality_dep",
}


class Lock:
    """one build at a time (checks may be started concurrently)"""

    def __init__(self, name="build"):
        os.makedirs(SCRATCH, exist_ok=True)
        self.path = os.path.join(SCRATCH, name + ".lock")

    def __enter__(self):
        self.f = open(self.path, "w")
        fcntl.flock(self.f, fcntl.LOCK_EX)
        return self

    def __exit__(self, *a):
        fcntl.flock(self.f, fcntl.LOCK_UN)
        self.f.close()


def run(cmd, cwd=None, timeout=1200, env=None, input=None):
    t0 = time.time()
    try:
        p = subprocess.run(cmd, cwd=cwd, env=env or ENV, capture_output=True, text=True, timeout=timeout, input=input)
        return p.returncode, p.stdout, p.stderr, time.time() - t0
    except subprocess.TimeoutExpired as e:
        return 124, (e.stdout or b"").decode(errors="replace") if isinstance(e.stdout, bytes) else (e.stdout or ""), "TIMEOUT after %ss" % timeout, time.time() - t0


def translate():
    rc, out, err, _ = run([sys.executable, os.path.join(ROOT, "tools", "translate.py")])
    try:
        info = json.loads(out.strip().splitlines()[-1])
    except Exception:
        info = {"error": "translator crashed: " + err[-500:]}
    return info


def coq_requires(path):
    """logical names (relative to the NV root where known) required by one .v file"""
    try:
        txt = strip_coq_comments(open(path, encoding="utf-8").read())
    except OSError:
        return []
    out = []
    for m in re.finditer(r"(?:\bFrom\s+([\w.]+)\s+)?\bRequire\b(.*?)\.(?=\s|$)", txt, re.S):
        root = m.group(1)
        for tok in m.group(2).split():
            if tok in ("Import", "Export") or tok.startswith("-(") or tok.startswith("("):
                continue
            out.append((root, tok))
    return out


def gen_deps(cid):
    """names of the coq/Gen/*.v files that Props/<cid>.v requires, transitively (scan of the Require lines through
    the development); None when the dependency cannot be determined (callers then assume: all of them)"""
    start = os.path.join(COQ, "Props", cid + ".v")
    if not os.path.exists(start):
        return None
    allv = []
    for d, _, fs in os.walk(COQ):
        for f in fs:
            if f.endswith(".v"):
                allv.append(os.path.relpath(os.path.join(d, f), COQ))
    seen, todo, gens = set(), [os.path.relpath(start, COQ)], set()
    while todo:
        rel = todo.pop()
        if rel in seen:
            continue
        seen.add(rel)
        if os.path.dirname(rel) == "Gen":
            gens.add(os.path.basename(rel))
        for root, name in coq_requires(os.path.join(COQ, rel)):
            if root is not None and root.split(".")[0] != "NV":
                continue  # From Coq ... / other libraries
            parts = (root.split(".")[1:] if root else []) + name.split(".")
            if parts and parts[0] == "NV":
                parts = parts[1:]
            cand = "/".join(parts) + ".v"
            hits = [cand] if cand in allv else []
            if not hits and root is None:  # `Require Import X.Y` without From: match as a suffix
                hits = [v for v in allv if v == cand or v.endswith("/" + cand)]
                if len(hits) > 1:
                    return None
            if not hits:
                if root is not None:
                    return None  # a NV module we cannot locate: do not guess
                continue  # standard library / plugin
            todo.extend(hits)
    return gens


def translator_errors_for(cid, info):
    """[(generated file, message)]: the translator failures that concern property cid.  A failure to generate
    Gen/X.v concerns the properties whose Props/Cxx.v transitively requires Gen/X.v; a failure that is not
    attributed to a file (crash of the translator as a whole), or an undeterminable dependency, concerns all."""
    if "error" not in info:
        return []
    errs = info.get("errors")
    if not isinstance(errs, dict) or not errs:
        return [("*", info["error"])]
    deps = gen_deps(cid)
    out = []
    for f, msg in sorted(errs.items()):
        if deps is None or f in deps:
            out.append((f, msg))
    return out


def ensure_static_gen():
    """GenStdUnicode.v / GenUnicodeRef.v do not depend on /repo; (re)generate when missing"""
    need = [os.path.join(COQ, "Gen", f) for f in ("GenStdUnicode.v", "GenUnicodeRef.v", "unicode_ref.json")]
    if all(os.path.exists(p) for p in need):
        return
    hm = build_harness("hm")
    rc, out, err, _ = run([sys.executable, os.path.join(ROOT, "tools", "gen_static.py"), hm])
    if rc != 0:
        raise RuntimeError("gen_static failed: " + err)


def coq_makefile():
    mk = os.path.join(COQ, "Makefile")
    cp = os.path.join(COQ, "_CoqProject")
    if not os.path.exists(mk) or os.path.getmtime(mk) < os.path.getmtime(cp):
        rc, out, err, _ = run(["coq_makefile", "-f", "_CoqProject", "-o", "Makefile"], cwd=COQ)
        if rc != 0:
            raise RuntimeError("coq_makefile failed: " + err)


def coq_make(targets, timeout=1500):
    """make -k the given .vo targets; returns (ok, failures) with failures = [(file, line, message)]"""
    coq_makefile()
    rc, out, err, dt = run(["make", "-k", "-j%d" % NPROC] + targets, cwd=COQ, timeout=timeout)
    text = out + "\n" + err
    fails = []
    for m in re.finditer(r'File "\./([^"]+)", line (\d+), characters [\d-]+:\n((?:Error|Anomaly).*?)(?=\n\n|\nmake|\nFile|\Z)', text, re.S):
        fails.append((m.group(1), int(m.group(2)), " ".join(m.group(3).split())[:400]))
    if rc == 124:
        fails.append(("<make>", 0, "timeout"))
    ok = rc == 0
    if not ok and not fails:
        fails.append(("<make>", 0, text[-600:]))
    return ok, fails, dt


FORBIDDEN = re.compile(
    r"\b(Admitted|admit|Axiom|Axioms|Parameter|Parameters|Conjecture|Conjectures|Admit Obligations|Unset Guard Checking|Unset Positivity Checking|Unset Universe Checking|bypass_check|Hypothesis|Hypotheses|Variable|Variables)\b|type-in-type|impredicative-set"
)


def strip_coq_comments(s):
    out = []
    depth = 0
    i = 0
    while i < len(s):
        if s.startswith("(*", i):
            depth += 1
            i += 2
        elif s.startswith("*)", i) and depth:
            depth -= 1
            i += 2
        else:
            if depth == 0:
                out.append(s[i])
            i += 1
    return "".join(out)


def audit():
    """textual audit of the whole development; Variable/Hypothesis are allowed inside a Section only"""
    bad = []
    files = glob.glob(os.path.join(COQ, "**", "*.v"), recursive=True) + [os.path.join(COQ, "_CoqProject")]
    for f in files:
        src = strip_coq_comments(open(f, encoding="utf-8").read())
        depth = 0
        for ln, line in enumerate(src.splitlines(), 1):
            if re.match(r"\s*Section\b", line):
                depth += 1
            if re.match(r"\s*End\b", line) and depth:
                depth -= 1
            for m in FORBIDDEN.finditer(line):
                w = m.group(0)
                if w in ("Variable", "Variables", "Hypothesis", "Hypotheses") and depth > 0:
                    continue
                if w in ("Variable", "Variables", "Hypothesis", "Hypotheses") and not re.match(r"\s*(Variable|Variables|Hypothesis|Hypotheses)\b", line):
                    continue
                bad.append("%s:%d: %s" % (os.path.relpath(f, ROOT), ln, w))
    return bad


def props_check(cid):
    """compile Props/<cid>.v (after its dependencies) and parse the Print Assumptions output.
    returns dict(ok, theorems=[names], assumptions={name: 'closed' | [axioms]}, failures=[...])"""
    src_path = os.path.join(COQ, "Props", cid + ".v")
    src = strip_coq_comments(open(src_path, encoding="utf-8").read())
    theorems = re.findall(r"^\s*(?:Theorem|Example|Corollary)\s+(\w+)", src, re.M)
    printed = re.findall(r"Print Assumptions\s+(\w+)\s*\.", src)
    ok, fails, dt = coq_make(["Props/%s.vo" % cid])
    res = {"theorems": theorems, "assumptions": {}, "failures": fails, "ok": ok, "make_s": round(dt, 1)}
    if not ok:
        return res
    os.makedirs(SCRATCH, exist_ok=True)
    rc, out, err, _ = run(["coqc", "-Q", ".", "NV", "-w", "-notation-overridden,-deprecated-hint-without-locality", "-o", os.path.join(SCRATCH, cid + ".vo"), "Props/%s.v" % cid], cwd=COQ, timeout=900)
    if rc != 0:
        res["ok"] = False
        res["failures"] = [("Props/%s.v" % cid, 0, (err or out)[-400:])]
        return res
    # output: one block per Print Assumptions, in order
    blocks = re.split(r"(?=Closed under the global context|Axioms:)", out)
    blocks = [b for b in blocks if b.startswith("Closed") or b.startswith("Axioms:")]
    for name, b in zip(printed, blocks):
        if b.startswith("Closed"):
            res["assumptions"][name] = "closed"
        else:
            axs = re.findall(r"^(\S+)\s*:", b[len("Axioms:") :], re.M)
            res["assumptions"][name] = axs
    need_print = re.findall(r"^\s*(?:Theorem|Corollary)\s+(\w+)", src, re.M)
    res["unprinted"] = [t for t in need_print if t.startswith(cid) and t not in printed]
    bad_ax = {n: [a for a in v if a.split(".")[-1] not in {x.split(".")[-1] for x in ALLOWED_AXIOMS}] for n, v in res["assumptions"].items() if v != "closed"}
    res["bad_axioms"] = {n: v for n, v in bad_ax.items() if v}
    if len(blocks) != len(printed):
        res["ok"] = False
        res["failures"] = [("Props/%s.v" % cid, 0, "Print Assumptions output not understood")]
    return res


def coqchk(cid):
    """independent re-check of Props/<cid>.vo and everything it depends on; returns dict(ok, axioms, seconds)"""
    rc, out, err, dt = run(["coqchk", "-silent", "-o", "-Q", ".", "NV", "NV.Props.%s" % cid], cwd=COQ, timeout=3000)
    text = out + err
    m = re.search(r"\* Axioms:(.*?)\n\s*\n\* Constants/Inductives relying on type-in-type:(.*?)\n\s*\n\* Constants/Inductives relying on unsafe \(co\)fixpoints:(.*?)\n\s*\n\* Inductives whose positivity is assumed:(.*?)\n", text, re.S)
    if rc != 0 or not m:
        return {"ok": False, "rc": rc, "tail": text[-400:], "seconds": round(dt)}
    fields = [" ".join(x.split()) for x in m.groups()]
    return {"ok": all(f == "<none>" for f in fields), "axioms": fields[0], "type_in_type": fields[1], "unsafe_fix": fields[2], "positivity": fields[3], "seconds": round(dt)}


def build_ocaml():
    # everything Extract.v requires must be compiled against the current Gen files first
    src = open(os.path.join(COQ, "Extract", "Extract.v")).read()
    mods = re.findall(r"\b((?:Model|Spec|Gen|Base)\.\w+)", strip_coq_comments(src))
    targets = sorted({m.replace(".", "/") + ".vo" for m in mods})
    ok, fails, _ = coq_make(targets)
    if not ok:
        raise RuntimeError("models no longer compile: " + "; ".join("%s:%s %s" % f for f in fails)[:600])
    rc, out, err, _ = run([os.path.join(OCAML, "build.sh")], timeout=900)
    if rc != 0:
        raise RuntimeError("ocaml build failed:\n" + out + err)
    return os.path.join(OCAML, "driver")


def build_harness(name, release=False):
    d = os.path.join(ROOT, "harness", name)
    lock = os.path.join(REPO, "Cargo.lock")
    mine = os.path.join(d, "Cargo.lock")
    if os.path.exists(lock) and not os.path.exists(mine):
        import shutil

        shutil.copy(lock, mine)
    cmd = ["cargo", "build", "--offline"] + (["--release"] if release else [])
    rc, out, err, _ = run(cmd, cwd=d, timeout=1500)
    if rc != 0:
        raise BuildError(err[-3000:])
    return os.path.join(d, "target", "release" if release else "debug", name)


class BuildError(Exception):
    pass


def known_findings():
    p = os.path.join(ROOT, "known_findings.json")
    if not os.path.exists(p):
        return {"known": [], "fixed": []}
    return json.load(open(p))


def write_replay(cid, seed, n, data):
    os.makedirs(REPLAYS, exist_ok=True)
    p = os.path.join(REPLAYS, "%s-%s-%d.json" % (cid, seed, n))
    with open(p, "w") as f:
        json.dump(data, f, indent=1, ensure_ascii=False)
    return p


def write_evidence(cid, tier, seed, coverage, assumptions, wall_s, violations):
    os.makedirs(EVID, exist_ok=True)
    ev = {
        "property_id": cid,
        "tier": tier,
        "seed": int(seed),
        "level": "proof",
        "coverage": coverage,
        "assumptions": assumptions,
        "wall_s": round(wall_s, 2),
        "violations": int(violations),
    }
    with open(os.path.join(EVID, cid + ".json"), "w") as f:
        json.dump(ev, f, indent=1, ensure_ascii=False)
    return ev


def parallel(cmds, timeout=1800, tag="par"):
    """run commands concurrently (at most NPROC at once), stdout to scratch files;
    returns list of (rc, stdout_text, stderr_text)"""
    os.makedirs(SCRATCH, exist_ok=True)
    res = [None] * len(cmds)
    running = []
    idx = 0
    t0 = time.time()
    pid = os.getpid()
    while idx < len(cmds) or running:
        while idx < len(cmds) and len(running) < NPROC:
            fo = open(os.path.join(SCRATCH, "%s.%d.%d.out" % (tag, pid, idx)), "w+")
            fe = open(os.path.join(SCRATCH, "%s.%d.%d.err" % (tag, pid, idx)), "w+")
            p = subprocess.Popen(cmds[idx], stdout=fo, stderr=fe, text=True, env=ENV)
            running.append((idx, p, fo, fe))
            idx += 1
        still = []
        for i, p, fo, fe in running:
            if p.poll() is None:
                if time.time() - t0 > timeout:
                    p.kill()
                still.append((i, p, fo, fe))
            else:
                fo.seek(0)
                fe.seek(0)
                res[i] = (p.returncode, fo.read(), fe.read())
                for f in (fo, fe):
                    f.close()
                    os.unlink(f.name)
        running = still
        if running:
            time.sleep(0.02)
    return res
