#!/usr/bin/env python3
"""Store a confirmed seeded change under /verif/seeded/<id>-m<k>/ and record which checks report it.
usage: seed_store.py <src dir with patch.diff demo.rs meta.json> <name> <check id> ...   (applies the patch to /repo,
runs the checks, reverts, writes meta.json['checks'])"""
import json, os, shutil, subprocess, sys
REPO = os.environ.get("VERIF_REPO", "/repo")
VERIF = os.environ.get("SEED_VERIF", "/verif")
src, name, checks = sys.argv[1], sys.argv[2], sys.argv[3:]
dst = os.path.join("/verif/seeded", name)
os.makedirs(dst, exist_ok=True)
for f in ("patch.diff", "demo.rs"):
    shutil.copy(os.path.join(src, f), os.path.join(dst, f))
meta = json.load(open(os.path.join(src, "meta.json")))
if subprocess.run(["git", "-C", REPO, "apply", "--check", os.path.join(dst, "patch.diff")]).returncode != 0:
    meta["checks"] = {"error": "patch does not apply to /repo HEAD"}
else:
    subprocess.run(["git", "-C", REPO, "apply", os.path.join(dst, "patch.diff")], check=True)
    res = {}
    try:
        for c in checks:
            p = subprocess.run(["./check", c], cwd=VERIF, capture_output=True, text=True, timeout=1500)
            lines = [l for l in p.stdout.splitlines() if l.startswith("VIOLATION")]
            how = "not reported"
            if lines:
                how = "no-failing-input-found" if all("no-failing-input-found" in l for l in lines) else "failing input found"
            detail = ""
            if lines:
                rp = lines[0].split("replay=")[1].split()[0]
                try:
                    d = json.load(open(rp))
                    detail = ((d.get("failure") or {}).get("what") or "; ".join(b[1] for b in d.get("broken", [])[:2]))[:300]
                except Exception:
                    pass
            res[c] = {"exit": p.returncode, "reported": how, "violations_printed": len(lines), "first": detail}
    finally:
        subprocess.run(["git", "-C", REPO, "checkout", "--", "."], check=True)
    meta["checks"] = res
json.dump(meta, open(os.path.join(dst, "meta.json"), "w"), indent=1, ensure_ascii=False)
print(name, json.dumps(meta["checks"])[:400])
