#!/bin/bash
# usage: try_mutant.sh <patch.diff> <check id>...   applies the patch to /repo, runs the checks, reverts.
patch=$1; shift
cd /repo || exit 2
if ! git apply --check "$patch" 2>/dev/null; then echo "PATCH DOES NOT APPLY: $patch"; git apply --check "$patch" 2>&1 | head -3; exit 3; fi
git apply "$patch"
for c in "$@"; do
  (cd /verif && timeout 900 ./check $c 2>&1 | grep -E "^VIOLATION|^KNOWN|tier=" | cut -c1-230 | head -4)
done
git -C /repo checkout -- . 
git -C /repo status --short | head -3
