#!/usr/bin/env python3
"""Print the prompt given to a fresh mutation sub-agent for one property (contains nothing from /verif but the property record)."""
import json, sys
pid = sys.argv[1]
wt = sys.argv[2] if len(sys.argv) > 2 else f"/tmp/wt/{pid}"
prev = json.load(open(sys.argv[3])).get(pid, []) if len(sys.argv) > 3 else []
prev_txt = ("\n\nChanges that other people have ALREADY tried for this property (do NOT repeat these or close variants of them; pick different mechanisms, different files / functions where possible):\n" + "\n".join("  - " + p for p in prev)) if prev else ""
rec = None
for l in open('/verif/properties.jsonl'):
    d = json.loads(l)
    if d['id'] == pid:
        rec = d
print(f"""You are helping test a verification setup for the Rust project helix-editor/nucleo (a fuzzy matcher library: crate `nucleo-matcher` in matcher/, high-level crate `nucleo` in src/). You have your own scratch git worktree of the repository at {wt} (work ONLY there; never touch /repo or /verif, and do not read anything under /verif). The sandbox is offline: use `cargo build --offline` / `cargo test --offline` (set CARGO_NET_OFFLINE=true). 

Here is a semantic property of the library that should always hold (JSON record):

{json.dumps(rec, indent=1)}

Task: produce TWO independent, realistic source changes ("mutants") to the library code in your worktree, each of which BREAKS this property while the project still compiles and the whole existing test suite (`cargo test --workspace --offline` in the worktree) still passes. ROUND 6 FOCUS: mutant 1 must consist of TWO COOPERATING SITES (two edits in different functions, ideally different files, each of which alone is harmless or looks like a sensible clean-up - e.g. a caller stops establishing something a callee silently relied on while the callee drops the redundant-looking re-check; a producer and a consumer whose conventions drift apart; a cache or flag updated at one site and trusted at another). Mutant 2 must need a MULTI-STEP HISTORY or an UNUSUAL COMBINATION to show (state left over from an earlier call, a second restart, a particular order of API calls, a configuration combination, sizes around an internal threshold) and must touch code that none of the earlier changes listed below touched. Prefer changes that need something SPECIFIC to manifest (an unusual input, a particular configuration, a multi-step sequence of operations, a particular thread interleaving or a fault at a particular point) - NOT changes that ordinary use would expose at once. Do not touch tests, docs or Cargo files; only library source under matcher/src or src. Keep each change small (1-15 lines). The two mutants should be of different kinds / touch different mechanisms.{prev_txt}

Note: the unchanged code may itself already violate the property for some inputs; that does not matter. Your change must introduce a NEW violation that your demonstration isolates: the demonstration must FAIL (wrong result / assertion failure / panic / detected race) with your change applied and PASS on the unchanged code.

For each mutant k in 1,2 leave these files in {wt}/_mut/ :
  m<k>.diff      - `git diff` of the library change only (applies with `git apply` at the repo root of the unchanged tree)
  m<k>_demo.rs   - the demonstration: a self-contained Rust test or small program using only the public API if possible (if it needs crate-private access, write it as a #[test] to be pasted into a named module and say where). For concurrency, a deterministic description plus a stress loop is fine, but say how reliably it fails.
  m<k>.md        - 5-15 lines: what the change is, why it breaks the property, what it needs in order to manifest, exactly which commands you ran (existing test-suite result with the change; demo result with and without the change).

Procedure you must follow for each mutant: apply the change; run `cargo test --workspace --offline` (must pass: 33 tests); run the demo (must fail); `git stash` or revert the change; run the demo (must pass). When finished, revert the worktree to the unchanged source (git checkout -- . ; keep only _mut/ as untracked files) and delete the worktree's target/ directory to save disk. Your final message: a short summary per mutant (file paths, one-line description, what it needs to manifest). Be efficient; do not write long reports.""")
