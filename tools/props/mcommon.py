"""Shared correspondence run for the matcher properties (C01-C05, C10): generate cases, run the real
matcher (hm), the extracted model (driver match) and the extracted spec oracle (driver facts)."""
import hashlib
import json
import os
import sys

import vlib

sys.path.insert(0, os.path.join(vlib.ROOT, "tools"))
import gen_cases  # noqa: E402

BRUTE_MAX = 9


def fsig(path):
    st = os.stat(path)
    return "%s:%d:%d" % (path, st.st_size, st.st_mtime_ns)


def prepare(ctx):
    ctx["hm"] = ctx["build"]("hm")


def parse_case(line):
    p = line.split(" ")
    return {"cfg": p[0], "algo": p[1], "hr": p[2], "nr": p[3],
            "h": [] if p[4] == "-" else [int(x) for x in p[4].split(",")],
            "n": [] if p[5] == "-" else [int(x) for x in p[5].split(",")], "line": line}


def show_case(c, maxlen=60):
    def s(l):
        t = "".join(chr(x) for x in l)
        return repr(t if len(t) <= maxlen else t[:maxlen] + "...(%d chars)" % len(t))
    return "cfg(paths,ignore_case,normalize,prefer_prefix)=%s algo=%s haystack[%s]=%s needle[%s]=%s" % (
        c["cfg"], c["algo"], c["hr"], s(c["h"]), c["nr"], s(c["n"]))


def parse_out(o):
    p = o.split(" ")
    if p[0] == "M":
        return {"k": "M", "score": int(p[1]), "idx": [] if p[2] == "-" else [int(x) for x in p[2].split(",")]}
    if p[0] == "N":
        return {"k": "N"}
    if p[0] == "P":
        return {"k": "P", "raw": o}
    return {"k": "X", "raw": o}


def parse_facts(f):
    d = {}
    for kv in f.split(" "):
        if "=" in kv:
            k, v = kv.split("=", 1)
            d[k] = None if v == "-" else int(v)
    return d


def run_lines(ctx, lines, tag):
    """returns list of (case, impl_out, model_out, facts) ; cached by content + binaries"""
    hm, drv = ctx["hm"], ctx["driver"]
    text = "\n".join(lines) + "\n"
    key = hashlib.sha1((text + fsig(hm) + (fsig(drv) if drv else "nodrv")).encode()).hexdigest()[:20]
    cdir = os.path.join(vlib.SCRATCH, "mc_" + key)
    done = os.path.join(cdir, "done")
    if not os.path.exists(done):
        os.makedirs(cdir, exist_ok=True)
        nsh = vlib.NPROC
        shards = [lines[i::nsh] for i in range(nsh)]
        cmds_i, cmds_m = [], []
        for i, sh in enumerate(shards):
            with open(os.path.join(cdir, "c%d" % i), "w") as f:
                f.write("\n".join(sh) + "\n")
            cmds_i.append([hm, "match", os.path.join(cdir, "c%d" % i)])
            cmds_m.append([drv, "match", os.path.join(cdir, "c%d" % i)] if drv else ["true"])
        ri = vlib.parallel(cmds_i, tag=tag + "i")
        rm = vlib.parallel(cmds_m, tag=tag + "m")
        for i in range(nsh):
            open(os.path.join(cdir, "i%d" % i), "w").write(ri[i][1])
            open(os.path.join(cdir, "m%d" % i), "w").write(rm[i][1])
        cmds_f = [[drv, "facts", os.path.join(cdir, "c%d" % i), os.path.join(cdir, "i%d" % i), str(BRUTE_MAX)] if drv else ["true"] for i in range(nsh)]
        rf = vlib.parallel(cmds_f, tag=tag + "f")
        for i in range(nsh):
            open(os.path.join(cdir, "f%d" % i), "w").write(rf[i][1])
        errs = [r[2][-300:] for r in ri + rm + rf if r[0] != 0]
        json.dump({"errors": errs}, open(done, "w"))
        # drop old cache directories (keep the 6 newest)
        ds = sorted((d for d in os.listdir(vlib.SCRATCH) if d.startswith("mc_")), key=lambda d: os.path.getmtime(os.path.join(vlib.SCRATCH, d)))
        for d in ds[:-6]:
            import shutil
            shutil.rmtree(os.path.join(vlib.SCRATCH, d), ignore_errors=True)
    meta = json.load(open(done))
    out = []
    nsh = vlib.NPROC
    for i in range(nsh):
        cs = open(os.path.join(cdir, "c%d" % i)).read().splitlines()
        im = open(os.path.join(cdir, "i%d" % i)).read().splitlines()
        mo = open(os.path.join(cdir, "m%d" % i)).read().splitlines()
        fa = open(os.path.join(cdir, "f%d" % i)).read().splitlines()
        cs = [c for c in cs if c]
        for j, c in enumerate(cs):
            out.append((c, im[j] if j < len(im) else "X missing-implementation-output", mo[j] if j < len(mo) else "X missing-model-output", fa[j] if j < len(fa) else ""))
    return out, meta["errors"]


def base_lines(ctx):
    return gen_cases.gen(ctx["seed"], ctx["tier"])


def exhaustive_lines(ctx, algos, which):
    """thorough tier: all strings up to a bound over a small alphabet, rotated by seed"""
    seed = ctx["seed"]
    lines = []
    A = [ord(c) for c in "ab"] + [ord("A"), ord("/"), ord(" "), ord("1")]
    U = [ord("a"), 0xE4, 0xC4, ord("/"), 0x4F60, 0x3C2]
    NA = [ord("a"), ord("b"), ord("/"), ord("1")]
    NU = [ord("a"), 0xE4, 0x3C3, ord("/")]
    cfgs = ["0110", "1110", "0000", "0100", "0111", "1010"]
    cfg = [cfgs[seed % len(cfgs)], cfgs[(seed + 1) % len(cfgs)]]
    lines += gen_cases.exhaustive(A, NA, 5, 3, cfg, algos, [("A", "A"), ("U", "A")])
    lines += gen_cases.exhaustive(U, NU, 4, 2, cfg, algos, [("U", "U")])
    return lines


def generic_run(ctx, lines, view, clauses, rule, known_pred=None, tag="mc"):
    """view(out_dict) -> comparable observable; clauses(case, impl, model, facts) -> list of (class, what)"""
    recs, errs = run_lines(ctx, lines, tag)
    res = {"evaluations": len(recs), "distinct_nontrivial": 0, "rule": rule, "samples": [], "disagreements": [], "failures": [], "extra": {}}
    for e in errs:
        res["disagreements"].append({"what": "harness/driver error: " + e})
    seen = set()
    dist = {}
    quota = {}
    for line, io, mo, fa in recs:
        c = parse_case(line)
        i, m, f = parse_out(io), parse_out(mo), parse_facts(fa)
        key = (c["algo"], c["hr"] + c["nr"], c["cfg"], i["k"])
        dist[key[0] + key[1] + i["k"]] = dist.get(key[0] + key[1] + i["k"], 0) + 1
        if c["n"] and c["h"] and (tuple(c["h"]), tuple(c["n"]), c["algo"], c["hr"], c["nr"], c["cfg"]) not in seen:
            seen.add((tuple(c["h"]), tuple(c["n"]), c["algo"], c["hr"], c["nr"], c["cfg"]))
        if ctx["driver"] and view(i) != view(m):
            if len(res["disagreements"]) < 40:
                res["disagreements"].append({"what": "model/implementation disagree on %s: implementation `%s`, model `%s`" % (show_case(c), io[:80], mo[:80]), "case": line})
        for cls, what in clauses(c, i, m, f):
            # quota per (class, known-finding shape) so that the many instances of a known finding cannot crowd out a new failure
            qk = (cls, known_repr(c), bool(f.get("k2")) if isinstance(f, dict) else False)
            quota[qk] = quota.get(qk, 0) + 1
            if quota[qk] <= 150:
                res["failures"].append({"class": cls, "what": what + " -- " + show_case(c) + " -- implementation returned `%s`" % io[:100], "case": line, "impl": io[:400]})
    res["distinct_nontrivial"] = len(seen)
    res["samples"] = [{"case": show_case(parse_case(r[0])), "implementation": r[1][:80], "model": r[2][:80], "spec_facts": r[3][:120]} for r in recs[:: max(1, len(recs) // 6)][:6]]
    res["extra"] = {"distribution(algo,repr,outcome)": dist}
    return res


def replay(path):
    d = json.load(open(path))
    print(json.dumps({k: v for k, v in d.items() if k != "failure"}, indent=1)[:3000])
    f = d.get("failure") or {}
    print(f.get("what", ""))
    line = f.get("case")
    if line:
        hm = vlib.build_harness("hm")
        p = os.path.join(vlib.SCRATCH, "replay_case.txt")
        os.makedirs(vlib.SCRATCH, exist_ok=True)
        open(p, "w").write(line + "\n")
        print("implementation:", vlib.run([hm, "match", p])[1].strip())
        drv = os.path.join(vlib.OCAML, "driver")
        print("model:         ", vlib.run([drv, "match", p])[1].strip())
        ip = os.path.join(vlib.SCRATCH, "replay_impl.txt")
        open(ip, "w").write(vlib.run([hm, "match", p])[1])
        print("spec facts:    ", vlib.run([drv, "facts", p, ip, "9"])[1].strip())
    return 0


def known_repr(c):
    """finding K1: needle tagged Unicode but all ASCII, haystack tagged Ascii -> every matcher returns None"""
    return c["hr"] == "A" and c["nr"] == "U"
