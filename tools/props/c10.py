"""C10: the matcher is total, memory-safe (view extents) and independent of its call history."""
import os
import random

import mcommon
import vlib
from mcommon import prepare  # noqa

TRUSTED = ["pointer provenance / aliasing of the slab views is not modelled: only extents, disjointness, alignment, initialisation order and index bounds",
           "cfg(nucleo_verif) facade nucleo_matcher::verif::layout_views recomputes the views with the crate's own MatrixLayout::new + fieds_from_ptr on a dangling base pointer"]
ASSUMPTIONS = ["haystacks below 2^32 characters (the harness reaches 70 000)", "debug profile (overflow-checks, debug assertions) for the quick tier; thorough adds the release profile and compares"]


def layout_lines(seed, tier):
    rng = random.Random(seed * 7919 + 1)
    pts = set()
    for nl in [0, 1, 2, 3, 7, 33, 50, 100, 511, 1000, 2047, 2048, 2049, 3000]:
        for base in [nl, nl + 1, 102400 // max(nl, 1), 65535, 2048, 4096, 13000]:
            for d in (-2, -1, 0, 1, 2):
                hl = base + d
                if hl >= nl and hl >= 0:
                    pts.add((hl, nl))
    # the layout-size guard: for each needle length find haystack lengths around size == slab
    for nl in [2, 3, 5, 8, 10, 16, 20, 33]:
        for hl in range(5000, 14000, 97):
            pts.add((hl, nl))
    n = 400 if tier == "quick" else 6000
    for _ in range(n):
        nl = rng.choice([rng.randint(0, 40), rng.randint(0, 2100)])
        hl = nl + rng.choice([rng.randint(0, 50), rng.randint(0, 70000)])
        pts.add((hl, nl))
    out = []
    for hl, nl in sorted(pts):
        out.append("%d %d A" % (hl, nl))
        out.append("%d %d U" % (hl, nl))
    return out


def run(ctx, broken):
    hm, drv = ctx["hm"], ctx["driver"]
    res = {"evaluations": 0, "distinct_nontrivial": 0, "rule": "", "samples": [], "disagreements": [], "failures": [], "extra": {}}
    # ---- 1. layout: implementation vs model vs oracle ------------------------------------------------
    ll = layout_lines(ctx["seed"], ctx["tier"])
    os.makedirs(vlib.SCRATCH, exist_ok=True)
    lf = os.path.join(vlib.SCRATCH, "c10_layout_%d.txt" % os.getpid())
    open(lf, "w").write("\n".join(ll) + "\n")
    ri = vlib.run([hm, "layout", lf])[1].splitlines()
    rm = vlib.run([drv, "layout", lf])[1].splitlines() if drv else []
    os.unlink(lf)
    nontriv = 0
    for k, line in enumerate(ll):
        i = ri[k] if k < len(ri) else "missing"
        m = rm[k] if k < len(rm) else "missing"
        if drv and i != m and len(res["disagreements"]) < 20:
            res["disagreements"].append({"what": "layout of (haystack_len needle_len repr)=(%s): implementation `%s`, model `%s`" % (line, i, m)})
        if i.startswith("ok"):
            nontriv += 1
            p = i.split(" ")
            slab = int(p[1].split("=")[1])
            views = [tuple(int(x) for x in v.split("+")) for v in p[2:]]
            aligns = [4 if line.endswith("U") else 1, 1, 2, 8, 1]
            prev_end = 0
            for (off, ln), al in zip(views, aligns):
                if off < prev_end or off + ln > slab or off % al:
                    res["failures"].append({"class": "layout", "what": "view (offset %d, %d bytes) of MatrixSlab::alloc for (haystack_len needle_len repr)=(%s) overlaps its predecessor, is misaligned or leaves the %d-byte slab" % (off, ln, line, slab), "case": ""})
                    break
                prev_end = off + ln
    res["evaluations"] += len(ll)
    # ---- 2. totality + history independence on the matcher streams ------------------------------------
    lines = mcommon.base_lines(ctx)
    recs, errs = mcommon.run_lines(ctx, lines, "c10")
    for e in errs:
        res["disagreements"].append({"what": "harness/driver error: " + e})
    cf = os.path.join(vlib.SCRATCH, "c10_cases_%d.txt" % os.getpid())
    open(cf, "w").write("\n".join(r[0] for r in recs) + "\n")
    fresh = vlib.run([hm, "match", cf, "fresh"], timeout=900)[1].splitlines()
    shared = vlib.run([hm, "match", cf], timeout=900)[1].splitlines()
    rel_out = None
    if ctx["tier"] == "thorough":
        hm_rel = vlib.build_harness("hm", release=True)
        rel_out = vlib.run([hm_rel, "match", cf], timeout=900)[1].splitlines()
    os.unlink(cf)
    seen = set()
    for k, (line, io, mo, fa) in enumerate(recs):
        c = mcommon.parse_case(line)
        seen.add(line)
        sh = shared[k] if k < len(shared) else "missing"
        fr = fresh[k] if k < len(fresh) else "missing"
        if sh.startswith("P") or fr.startswith("P") or io.startswith("P"):
            res["failures"].append({"class": "panic", "what": "matcher panicked / overflowed (debug profile): " + mcommon.show_case(c) + " -> " + (sh if sh.startswith("P") else fr), "case": line})
        elif sh != fr:
            res["failures"].append({"class": "history", "what": "a matcher that served earlier calls returns `%s`, a fresh matcher returns `%s`: %s" % (sh[:80], fr[:80], mcommon.show_case(c)), "case": line})
        elif sh.startswith("X"):
            res["failures"].append({"class": "variants", "what": sh[:160] + " " + mcommon.show_case(c), "case": line})
        # the answer must be a function of the CONTENT of the two strings: a decision that contradicts the subsequence
        # relation (spec facts computed by the extracted specification) means the matcher looked at memory that is not
        # the haystack it was given (e.g. a truncated copy whose tail is stale scratch memory)
        f = mcommon.parse_facts(fa)
        if c["algo"] in "FG" and f.get("nok") == 1 and f.get("subseq") is not None and not mcommon.known_repr(c) and sh[:1] in ("M", "N") and (sh[:1] == "M") != (f["subseq"] == 1):
            res["failures"].append({"class": "content", "what": "the answer `%s` contradicts the content of the strings (the needle %s a subsequence of the normalised haystack): %s" % (sh[:60], "is" if f["subseq"] == 1 else "is not", mcommon.show_case(c)), "case": line})
        if c["algo"] == "F" and f.get("nok") == 1 and c["cfg"][3] == "0" and f.get("naive") is not None and sh.startswith("M "):
            try:
                sc_ = int(sh.split(" ")[1])
            except Exception:  # noqa
                sc_ = None
            hl_, nl_ = len(c["h"]), len(c["n"])
            fits_ = hl_ * nl_ <= 102400 and hl_ <= 65535 and nl_ <= 2048 and (5 * hl_ + 2 * nl_ + 8 * (hl_ + 1 - nl_) + (hl_ + 1 - nl_) * nl_ + 16 <= 133120)
            if sc_ is not None and fits_ and sc_ < f["naive"]:
                res["failures"].append({"class": "content", "what": "the score %d is below the value %d the documented recurrence gives for the WHOLE haystack: part of the haystack was not looked at (or other memory was): %s" % (sc_, f["naive"], mcommon.show_case(c)), "case": line})
        if rel_out is not None and k < len(rel_out) and rel_out[k] != sh:
            res["failures"].append({"class": "release", "what": "release build returns `%s`, debug build `%s` (wrap-around?): %s" % (rel_out[k][:80], sh[:80], mcommon.show_case(c)), "case": line})
        if ctx["driver"] and io != mo and len(res["disagreements"]) < 40:
            res["disagreements"].append({"what": "model/implementation disagree on %s: implementation `%s`, model `%s`" % (mcommon.show_case(c), io[:80], mo[:80]), "case": line})
    res["failures"] = res["failures"][:400]
    res["evaluations"] += 2 * len(recs)
    res["distinct_nontrivial"] = nontriv + len(seen)
    res["rule"] = ("(1) layout: %d (haystack_len, needle_len, repr) triples around every guard of MatrixSlab::alloc (cells = 102400, needle = 2048, haystack = 65535, layout size = slab size) plus random ones; the extents the real code hands out (cfg facade) are compared with the model's layout_offsets/view_lengths and checked to lie inside the slab, disjoint and aligned; non-trivial = accepted by alloc. (2) the matcher streams of C01 (all six algorithms, limit-sized inputs, needles of 2500-4000 chars, late starts with prefer_prefix): every call on ONE shared Matcher in file order and again on a fresh Matcher per call; a panic, an overflow (debug profile) or any difference is a failure; thorough adds the release profile." % len(ll))
    res["samples"] = [{"layout_case": ll[k], "implementation": ri[k]} for k in range(0, len(ll), max(1, len(ll) // 4))][:4]
    # (3) Atom / Pattern level: one shared Matcher whose ignore_case / normalize flags are left over from earlier calls
    #     (and flipped between calls) must answer like a fresh one - reduced run of the C15 stream, its `state`,
    #     `panic` and (for scrambled calls) indices clauses count for this property
    import c15
    fs, ev = c15.subset_failures(ctx, {"state", "panic"}, 2500)
    fs2, _ = c15.subset_failures(ctx, {"atom_indices", "indices", "atom", "pattern"}, 2500, need_scramble=True)
    res["failures"] += [dict(f, cls_origin="C15 stream") for f in fs + fs2]
    res["evaluations"] += ev
    res["rule"] += " (3) Atom/Pattern level on one shared Matcher with left-over and scrambled ignore_case/normalize flags (reduced C15 stream): panics, the state clause and any result that differs from the nominal configuration's."
    return res


def known(f, kf):
    return None


def replay(path):
    import json
    f = (json.load(open(path)).get("failure") or {})
    if f.get("cls_origin") == "C15 stream":
        import c15
        return c15.replay(path)
    return mcommon.replay(path)
