"""C07: a quiescent matcher converges to the from-scratch result (protocol half + append-hint text half)."""
import itertools
import os
import random

import ncommon
import noracles
import vlib
from ncommon import prepare, replay, TRUSTED, ASSUMPTIONS  # noqa

HAYSTACKS = ["foo", "foo$bar", "foo$", "foob", "bfoo", "a b", "a\\ b", "a\\", "a", "ab", "ba", "a$", "$a", "$", "b", "a$b", "a b$",
             "ab$", "!a", "a!", "^a", "a^b", "'a", "a'b", "a\\b", "b a", "aa", "A B"]


def append_pairs(seed, tier):
    rng = random.Random(seed * 7 + 3)
    alpha = ["a", "b", "$", "\\", " ", "!", "^", "'", "A"]
    olds = ["".join(t) for L in (1, 2, 3) for t in itertools.product(alpha, repeat=L)]
    sufs = ["".join(t) for L in (1, 2) for t in itertools.product(alpha, repeat=L)]
    pairs = [(o, o + s_) for o in olds for s_ in sufs]
    fixed = [("foo$", "foo$b"), ("a\\", "a\\ b"), ("foo", "foob"), ("^a", "^ab"), ("'a", "'ab"), ("a$", "a$ b"), ("!a", "!ab")]
    if tier == "quick":
        rng.shuffle(pairs)
        pairs = pairs[:6000]
    return fixed + pairs


def append_check(ctx, res):
    pairs = append_pairs(ctx["seed"], ctx["tier"])
    os.makedirs(vlib.SCRATCH, exist_ok=True)
    p = os.path.join(vlib.SCRATCH, "append_%d.txt" % os.getpid())
    open(p, "w").write("".join("%s\t%s\n" % pr for pr in pairs))
    rc, out, err, _ = vlib.run([ctx["hn"], "append", p], timeout=600)
    os.unlink(p)
    lines = out.splitlines()
    if rc != 0 or len(lines) != len(pairs):
        res["disagreements"].append({"what": "hn append failed: rc=%s %s" % (rc, err[-200:])})
        return
    nupd = 0
    for (old, new), l in zip(pairs, lines):
        st, bits = l.split(" ")
        res["evaluations"] += 1
        if st == "1":
            nupd += 1
            bad = [HAYSTACKS[k] for k, b in enumerate(bits) if b == "2"]
            if bad and len(res["failures"]) < 200:
                res["failures"].append({"class": "append", "what": "typing %r after %r is treated as a refinement (status Update: only the current matches are rescored) but the new pattern matches %r which the old pattern does not: those items are lost until the next full rescore" % (new, old, bad[:4]), "case": "", "pair": [old, new]})
    res["extra"]["append_pairs"] = len(pairs)
    res["extra"]["append_pairs_with_status_update"] = nupd


def run(ctx, broken):
    res = ncommon.generic(ctx, noracles.c07, ncommon.RULE + " Text half: %s (old text, old text + suffix) pairs over the alphabet {a b A $ \\ space ! ^ '} typed through MultiPattern::reparse with the append flag; whenever the status is Update every haystack of a 28-string pool matched by the new pattern must be matched by the old one." % ("6000 random" if ctx["tier"] == "quick" else "all 63k"), extra_seed=7)
    append_check(ctx, res)
    return res


def known(f, kf):
    return None
