"""C07: a quiescent matcher converges to the from-scratch result (protocol half + append-hint text half)."""
import itertools
import os
import random

import ncommon
import noracles
import vlib
from ncommon import prepare, replay, TRUSTED, ASSUMPTIONS  # noqa

HAYSTACKS = ["foo", "foo$bar", "foo$", "foob", "bfoo", "a b", "a\\ b", "a\\", "a", "ab", "ba", "a$", "$a", "$", "b", "a$b", "a b$",
             "ab$", "!a", "a!", "^a", "a^b", "'a", "a'b", "a\\b", "b a", "aa", "A B"]


def append_pairs(seed, tier):
    rng = random.Random(seed * 7 + 3)
    alpha = ["a", "b", "$", "\\", " ", "!", "^", "'", "A"]
    olds = ["".join(t) for L in (1, 2, 3) for t in itertools.product(alpha, repeat=L)]
    sufs = ["".join(t) for L in (1, 2) for t in itertools.product(alpha, repeat=L)]
    pairs = [(o, o + s_) for o in olds for s_ in sufs]
    fixed = [("foo$", "foo$b"), ("a\\", "a\\ b"), ("foo", "foob"), ("^a", "^ab"), ("'a", "'ab"), ("a$", "a$ b"), ("!a", "!ab")]
    # non-ASCII alphabet: characters whose case / normalisation behaviour differs (the non-ASCII branch of the
    # atom constructor, smart case and smart normalisation flipping while typing)
    ualpha = ["a", "\u00e9", "\u0185", "\u2c65", "\u023a", "\u00c4", "\u017f", "$", "\\", " ", "'"]
    uolds = ["".join(t) for L in (1, 2) for t in itertools.product(ualpha, repeat=L)]
    usufs = ["".join(t) for L in (1, 2) for t in itertools.product(ualpha, repeat=L)]
    upairs = [(o, o + s_) for o in uolds for s_ in usufs]
    fixed += [("'a\\$", "'a\\$b"), ("^\\$", "^\\$a"), ("\u0185", "\u0185\u00e9"), ("a\\$", "a\\$b")]
    if tier == "quick":
        rng.shuffle(pairs)
        pairs = pairs[:6000]
        rng.shuffle(upairs)
        upairs = upairs[:3000]
    return fixed + pairs + upairs


def append_check(ctx, res):
    pairs = append_pairs(ctx["seed"], ctx["tier"])
    os.makedirs(vlib.SCRATCH, exist_ok=True)
    p = os.path.join(vlib.SCRATCH, "append_%d.txt" % os.getpid())
    open(p, "w").write("".join("%s\t%s\n" % pr for pr in pairs))
    rc, out, err, _ = vlib.run([ctx["hn"], "append", p], timeout=600)
    os.unlink(p)
    lines = out.splitlines()
    if rc != 0 or len(lines) != len(pairs):
        res["disagreements"].append({"what": "hn append failed: rc=%s %s" % (rc, err[-200:])})
        return
    # the model's decision (Spec/AppendSpec.update_allowed on the parsed atoms of the old text) and its K3 predicate
    cps = lambda t: ",".join(str(ord(c)) for c in t) or "-"
    p2 = os.path.join(vlib.SCRATCH, "append_m_%d.txt" % os.getpid())
    open(p2, "w").write("".join("%s\t%s\n" % (cps(o), cps(n)) for o, n in pairs))
    rc2, out2, err2, _ = vlib.run([ctx["driver"], "append", p2], timeout=600)
    os.unlink(p2)
    mlines = out2.splitlines()
    if rc2 != 0 or len(mlines) != len(pairs):
        res["disagreements"].append({"what": "driver append failed: rc=%s %s" % (rc2, err2[-200:])})
        return
    nupd = 0
    ndis = 0
    for (old, new), l, ml in zip(pairs, lines, mlines):
        mst, mk3 = ml.split(" ")
        if mst != "?" and mst != l.split(" ")[0]:
            ndis += 1
            if ndis <= 5:
                res["disagreements"].append({"what": "append decision differs for old text %r + suffix %r: implementation status %s, model (AppendSpec.update_allowed) %s (1 = Update, 2 = Rescore)" % (old, new[len(old):], l.split(" ")[0], mst), "pair": [old, new]})
        head, _, dyn = l.partition("\t")
        st, bits = head.split(" ")
        res["evaluations"] += 1
        if st == "1":
            nupd += 1
            bad = [HAYSTACKS[k] for k, b in enumerate(bits) if b == "2"] + [bytes.fromhex(x).decode("utf-8") for x in dyn.split(",") if x]
            if bad and len(res["failures"]) < 5000:
                res["failures"].append({"class": "append", "what": "typing %r after %r is treated as a refinement (status Update: only the current matches are rescored) but the new pattern matches %r which the old pattern does not: those items are lost until the next full rescore" % (new, old, bad[:4]), "case": "", "pair": [old, new], "k3": (mk3 == "0") if mk3 != "?" else k3_text(old)})
    res["extra"]["append_pairs"] = len(pairs)
    res["extra"]["append_pairs_with_status_update"] = nupd


def run(ctx, broken):
    res = ncommon.generic(ctx, noracles.c07, ncommon.RULE + " Text half: %s (old text, old text + suffix) pairs over the alphabet {a b A $ \\ space ! ^ '} typed through MultiPattern::reparse with the append flag; plus pairs over a non-ASCII alphabet (e-acute, U+0185, U+2C65, U+023A, A-umlaut, long s); whenever the status is Update every haystack of a 28-string pool and three haystacks derived from the new pattern (its text, its needles, its needles upper-cased) matched by the new pattern must be matched by the old one." % ("6000 random" if ctx["tier"] == "quick" else "all 63k"), extra_seed=7)
    append_check(ctx, res)
    return res


K3_CHARS = "\u0185\u2c65\u2c66"


def k3_text(old):
    """the K3 predicate on the raw old text, for texts outside the parser model's segmentation class (the
    model prints `?`): the last atom (after the last unescaped space) contains one of the three characters"""
    last, esc = "", False
    for c in old:
        if c == " " and not esc:
            last = ""
        else:
            last += c
        esc = (c == "\\") and not esc
    return any(c in last for c in K3_CHARS)


def known(f, kf):
    # K3: the last atom of the previous text contains U+0185 / U+2C65 / U+2C66 (lower-case letters that
    # chars::normalize leaves alone while it rewrites their upper-case forms)
    if f.get("class") == "append" and f.get("k3"):
        if True:
            return next((k for k in kf.get("known", []) if k["id"] == "K3"), None)
    return None
