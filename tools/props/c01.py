"""C01: fuzzy matching decides exactly the normalised-subsequence relation."""
import mcommon
from mcommon import prepare, replay  # noqa

TRUSTED = ["memchr/memchr2/memrchr are modelled by their specification (first / last position of a byte)",
           "Rust std char predicates modelled by dumped range tables (GenStdUnicode.v)"]
ASSUMPTIONS = ["needles are already normalised (norm cfg c = c for every needle character), as the property states",
               "known finding K1 (ASCII-tagged haystack with a Unicode-tagged needle returns None by construction) is excluded by hypothesis in the theorems and listed in known_findings.json"]


def view(o):
    return o["k"]


def clauses(c, i, m, f):
    out = []
    if c["algo"] not in "FG":
        return out
    if i["k"] == "X":
        out.append(("variants", "score-only and indices entry points disagree (%s)" % i["raw"][:120]))
    elif i["k"] == "P":
        out.append(("panic", "matcher panicked"))
    elif f.get("nok") == 1 and f.get("subseq") is not None:
        if (i["k"] == "M") != (f["subseq"] == 1):
            out.append(("decision", "decision is %s but the needle %s a subsequence of the normalised haystack" % (
                "match" if i["k"] == "M" else "no match", "is" if f["subseq"] == 1 else "is not")))
    return out


def run(ctx, broken):
    lines = [l for l in mcommon.base_lines(ctx) if l.split(" ")[1] in "FG"]
    if ctx["tier"] == "thorough":
        lines += mcommon.exhaustive_lines(ctx, "FG", "c01")
    res = mcommon.generic_run(ctx, lines, view, clauses,
                              "structured generator (derived/contiguous/random/edge/limit streams, see tools/gen_cases.py) over 16 configurations x 4 representation combinations, fuzzy + greedy entry points, score-only and indices variants both run; thorough adds all strings up to length 5 over a 6-letter alphabet. Compared: decision of implementation vs extracted model; oracle: decision = subseq_b needle (normalised haystack). Non-trivial = distinct (haystack, needle, algorithm, representation, configuration) with both strings non-empty.", tag="c01")
    # the four entry points / all representations agree: group by (cfg, content)
    recs, _ = mcommon.run_lines(ctx, lines, "c01")
    groups = {}
    for line, io, mo, fa in recs:
        c = mcommon.parse_case(line)
        if mcommon.parse_facts(fa).get("nok") != 1:
            continue        # needle not normalised for this configuration: outside the property's quantifier
        groups.setdefault((c["cfg"], tuple(c["h"]), tuple(c["n"])), []).append((c, io.split(" ")[0]))
    for key, lst in groups.items():
        ks = {k for c, k in lst if not mcommon.known_repr(c)}
        if len(ks) > 1 and len(res["failures"]) < 5000:
            c0 = lst[0][0]
            res["failures"].append({"class": "agree", "what": "entry points / representations disagree on the decision: %s -- %s" % (
                ", ".join("%s[%s%s]=%s" % (c["algo"], c["hr"], c["nr"], k) for c, k in lst), mcommon.show_case(c0)), "case": c0["line"]})
    return res


def known(f, kf):
    if f["class"] in ("decision", "agree") and f.get("case"):
        c = mcommon.parse_case(f["case"])
        if mcommon.known_repr(c):
            for k in kf.get("known", []):
                if k["id"] == "K1":
                    return k
    return None
