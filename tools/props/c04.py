"""C04: ranking quality of the non-greedy fuzzy matcher."""
import mcommon
from mcommon import prepare, replay  # noqa

TRUSTED = ["brute-force maximum over all alignments (Spec/Matching.v best_score) is evaluated for haystacks of at most 9 characters"]
ASSUMPTIONS = ["needles already normalised", "prefer_prefix comparisons pair the same input with the option off and on"]


def view(o):
    return (o["k"], o.get("score"))


def clauses(c, i, m, f):
    out = []
    if c["algo"] != "F" or i["k"] != "M" or f.get("nok") != 1 or not c["n"]:
        return out
    hl, nl = len(c["h"]), len(c["n"])
    # inside the documented limits of the matrix path (100 KiB cells, needle 2048, haystack 65535, ~130 KiB scratch)
    fits = hl * nl <= 102400 and hl <= 65535 and nl <= 2048 and (5 * hl + 2 * nl + 8 * (hl + 1 - nl) + (hl + 1 - nl) * nl + 16 <= 133120)
    if c["cfg"][3] == "0" and fits and f.get("naive") is not None and i["score"] < f["naive"]:
        out.append(("recurrence", "score %d is lower than the value %d of the two-matrix recurrence evaluated naively on the full matrix" % (i["score"], f["naive"])))
    if c["cfg"][3] == "0" and f.get("best") is not None:
        if i["score"] > f["best"]:
            out.append(("upper", "score %d exceeds the maximum %d over all alignments" % (i["score"], f["best"])))
        if len(c["n"]) == 1 and i["score"] != f["best"]:
            out.append(("single", "one-character needle: score %d but the best-placed occurrence scores %d" % (i["score"], f["best"])))
    return out


def run(ctx, broken):
    base = [l for l in mcommon.base_lines(ctx) if l.split(" ")[1] == "F"]
    if ctx["tier"] == "thorough":
        base += mcommon.exhaustive_lines(ctx, "F", "c04")
    # corpus first: the witnesses of known finding K2 (prefix preference on the matrix path)
    def cps(t):
        return ",".join(str(ord(ch)) for ch in t)
    corpus = [("xxxxxxxxxxx/axAbc", "abc"), ("a" + "x" * 18 + "aBcd", "abcd"), ("a" + "x" * 18 + "aBcdef", "abcdef")]
    base = ["0110 F A A %s %s" % (cps(h), cps(n)) for h, n in corpus] + base
    # pair every prefer_prefix=0 case with its prefer_prefix=1 twin
    lines = []
    for l in base:
        p = l.split(" ")
        p[0] = p[0][:3] + "0"
        lines.append(" ".join(p))
        p[0] = p[0][:3] + "1"
        lines.append(" ".join(p))
    res = mcommon.generic_run(ctx, lines, view, clauses,
                              "fuzzy_match / fuzzy_indices on the general streams, each input run with prefer_prefix off and on; compared: (decision, score); oracle: score <= brute-force best over all embeddings (haystack <= 9 chars), equality for one-character needles, 0 <= score(on) - score(off) <= 8. Non-trivial = distinct case with non-empty strings.", tag="c04")
    recs, _ = mcommon.run_lines(ctx, lines, "c04")
    off = {}
    dpf = {}
    nokf = {}
    for line, io, mo, fa in recs:
        p = line.split(" ", 1)
        o = mcommon.parse_out(io)
        if p[0][3] == "0":
            off[(p[0][:3], p[1])] = o
        dpf[line] = mcommon.parse_facts(fa).get("dp")
        nokf[line] = mcommon.parse_facts(fa).get("nok")
    for line, io, mo, fa in recs:
        p = line.split(" ", 1)
        if p[0][3] == "1":
            o0 = off.get((p[0][:3], p[1]))
            o1 = mcommon.parse_out(io)
            if o0 and o0["k"] == "M" and o1["k"] == "M" and nokf.get(line) == 1 and not (0 <= o1["score"] - o0["score"] <= 8) and len(res["failures"]) < 5000:
                c = mcommon.parse_case(line)
                res["failures"].append({"class": "prefix", "what": "prefer_prefix changes the score from %d to %d (must not lower it nor raise it by more than 8) -- %s" % (o0["score"], o1["score"], mcommon.show_case(c)), "case": line,
                                        "k2": bool(c["algo"] == "F" and len(c["n"]) >= 3 and dpf.get(line) == 1)})
    return res


def known(f, kf):
    # K2: optimal matcher on the matrix path, needle of three or more characters (Props/C04.v known_K2)
    if f.get("class") == "prefix" and f.get("k2"):
        for k in kf.get("known", []):
            if k["id"] == "K2":
                return k
    return None
