"""Shared runner and oracles for the Nucleo worker/tick protocol histories (C06, C07, C12, C13, C19, C20)."""
import inspect
import json
import os

import vlib

# pattern pool of harness/hn/src/nucleo_cmd.rs: (column 0 text, column 1 text); ids 0..6 = the earlier one-column pool
PATTERN_PAIRS = [("", ""), ("a", ""), ("ab", ""), ("abc", ""), ("b", ""), ("x", ""), ("ab c", ""),
                 ("", "p"), ("a", "p"), ("ab", "q"), ("a", "pq"), ("b", "p"), ("ab", "p"), ("a", "q"),
                 # only NEGATED atoms: every match has score 0 = the score of the worker's placeholders
                 ("!a", ""), ("!b", ""), ("!ab", ""), ("", "!p")]
# display names (used in oracle messages): "col0" for the one-column entries, "col0|col1" otherwise
PATTERNS = [a if not b else "%s|%s" % (a, b) for a, b in PATTERN_PAIRS]
NTEXTS = 24
NCOLS = 2     # matcher columns the harness configures (Nucleo::new(.., 2))

TRUSTED = ["interleavings at the granularity of the cfg(nucleo_verif) yield points in tick_inner / Worker::run / Injector::push / Injector::extend (the worker's state is only touched under its mutex, so finer interleavings differ only in what the scan sees, which the model over-approximates with a parameter)",
           "the scheduler harness (harness/hn/src/sched.rs, nucleo_cmd.rs) parks the UI thread, the single pool thread and injector threads at the yield points; timeouts are scheduler decisions (timeout 0 while the run is parked = 'tick times out')",
           "scores and total column lengths used by the protocol model are a table computed by the real MultiPattern::score (both columns) for the pattern pool x text pool of the harness (the matcher itself is C01-C05)",
           "rayon: spawn hands the closure to exactly one pool thread; parking_lot::Mutex: mutual exclusion; Arc: strong count = live handles"]
ASSUMPTIONS = ["two matcher columns, one pool thread in the harness (the model's scan parameter covers any number of scanning threads)", "matcher configuration fixed for the lifetime of the stream"]


def prepare(ctx):
    ctx["hn"] = ctx["build"]("hn")


def table(ctx):
    rc, out, err, _ = vlib.run([ctx["hn"], "nucleo-table"])
    p = os.path.join(vlib.SCRATCH, "nucleo_table.txt")
    os.makedirs(vlib.SCRATCH, exist_ok=True)
    open(p, "w").write(out)
    sc, ln = {}, {}
    for l in out.splitlines():
        a = l.split()
        sc[(int(a[0]), int(a[1]))] = None if a[2] == "-" else int(a[2])
        ln[int(a[1])] = int(a[3])
    return p, sc, ln


def histories(ctx, count=None, extra_seed=0):
    # 17 styles, taken in turn: 25 histories of each in the quick tier
    n = count or (425 if ctx["tier"] == "quick" else 5100)
    # the generator walks the model with the real score table (the worker path of a run, hence tick's `running`,
    # depends on whether the current pattern has matches)
    tpath = table(ctx)[0]
    rc, out, err, _ = vlib.run([ctx["driver"], "nucleo-gen", str(ctx["seed"] * 31 + extra_seed), str(n), tpath], timeout=600)
    if rc != 0:
        raise RuntimeError("nucleo-gen failed: " + err[-300:])
    return [l for l in out.splitlines() if l.strip()]


def run(ctx, hist):
    hn, drv = ctx["hn"], ctx["driver"]
    tpath, sc, ln = table(ctx)
    nsh = max(1, min(vlib.NPROC, len(hist) // 10 or 1))
    files = []
    for i in range(nsh):
        p = os.path.join(vlib.SCRATCH, "nu_%d_%d.txt" % (os.getpid(), i))
        open(p, "w").write("\n".join(hist[i::nsh]) + "\n")
        files.append(p)
    ri = vlib.parallel([[hn, "nucleo", f] for f in files], tag="nui", timeout=900)
    rm = vlib.parallel([[drv, "nucleo", f, tpath] for f in files], tag="num", timeout=900)
    out, errs = [], []
    for i in range(nsh):
        sub = hist[i::nsh]
        il, ml = ri[i][1].splitlines(), rm[i][1].splitlines()
        if ri[i][0] != 0:
            # the process died (a panic inside the rayon pool aborts): find the histories responsible
            il = []
            for line in sub:
                one = os.path.join(vlib.SCRATCH, "nu_one_%d.txt" % os.getpid())
                open(one, "w").write(line + "\n")
                rc1, o1, e1, _ = vlib.run([hn, "nucleo", one], timeout=120)
                il.append(o1.strip() if rc1 == 0 and o1.strip() else "CRASH rc=%s %s" % (rc1, " ".join(e1.split())[-200:]))
                os.unlink(one)
        if rm[i][0] != 0:
            errs.append("driver nucleo failed: " + rm[i][2][-300:])
        for k, line in enumerate(sub):
            out.append((line, il[k].split(";") if k < len(il) else ["missing"], ml[k].split(";") if k < len(ml) else ["missing"]))
        os.unlink(files[i])
    return out, errs, sc, ln


def parse_obs(o):
    d = {}
    for kv in o[2:].split(" "):
        k, v = kv.split("=", 1)
        d[k] = v
    ms = [] if d["m"] == "-" else [tuple(int(x) for x in m.split(":")) for m in d["m"].split(",")]
    ds = [] if d["d"] == "-" else d["d"].split(",")
    # g: Snapshot::get_item(i) for i = 0..7 (data of the item, None where get_item returned None); absent in old replays
    gs = [None if x == "-" else x for x in d["g"].split(",")] if "g" in d else []
    # k: number of matcher columns of the items the snapshot handed out (the configured 2, or the first other value seen); absent in old replays
    return {"p": int(d["p"]), "c": int(d["c"]), "m": ms, "d": ds, "inj": int(d["inj"]), "n": int(d["n"]), "u": int(d.get("u", 0)), "g": gs, "k": int(d.get("k", NCOLS)), "mi": d.get("mi", "ok")}


class Track:
    """what the history itself determines (independent of model and implementation outputs)"""

    def __init__(self):
        self.inj = {}          # handle -> stream number (0, 1, ... incremented by restart)
        self.stream = 0
        self.pushes = {}       # thread -> dict(g, stage, stream, idx) for push; + ext, n, step, chunk, pub for extend
        self.items = {}        # stream -> list of g in index order (reserved order)
        self.published = {}    # stream -> set of idx
        self.pattern = 0

    def event(self, ev, ob):
        p = ev.split(" ")
        if p[0] == "inj" and ob == "-":
            self.inj[p[1]] = self.stream
        elif p[0] == "clone" and p[1] in self.inj:
            self.inj[p[2]] = self.inj[p[1]]
        elif p[0] == "dropinj":
            self.inj.pop(p[1], None)
        elif p[0] == "restart":
            self.stream += 1
        elif p[0] == "edit":
            self.pattern = int(p[1])
        elif p[0] == "cfg":
            # Nucleo::update_config with the unchanged configuration: nothing the history determines changes
            pass
        elif p[0] == "push" and p[2] in self.inj:
            self.pushes[p[1]] = {"g": int(p[3]), "stage": 0, "stream": self.inj[p[2]], "idx": None}
        elif p[0] == "ext" and p[2] in self.inj:
            n = int(p[4])
            self.pushes[p[1]] = {"g": int(p[3]), "stage": 0, "stream": self.inj[p[2]], "idx": None, "ext": True, "n": n,
                                 "step": int(p[5]) if len(p) > 5 else 1, "chunk": max(1, int(p[6])) if len(p) > 6 else n, "pub": 0}
        elif p[0] == "st" and p[1] in self.pushes and self.pushes[p[1]].get("ext"):
            # Injector::extend: all n indices are reserved at once (extend.reserved), then published in index order,
            # `chunk` per step; the step that publishes the last one also notifies and returns (E<first index>)
            t = self.pushes[p[1]]
            if t["stage"] == 0 and ob == "Yext_res":
                t["stage"] = 1
                lst = self.items.setdefault(t["stream"], [])
                t["idx"] = len(lst)
                lst.extend(t["g"] + k * t["step"] for k in range(t["n"]))
            elif t["stage"] == 1 and (ob == "Yext_pub" or ob.startswith("E")):
                m = t["n"] - t["pub"] if ob.startswith("E") else min(t["chunk"], t["n"] - t["pub"])
                self.published.setdefault(t["stream"], set()).update(range(t["idx"] + t["pub"], t["idx"] + t["pub"] + m))
                t["pub"] += m
                if ob.startswith("E"):
                    t["stage"] = 2
        elif p[0] == "st" and p[1] in self.pushes:
            t = self.pushes[p[1]]
            if t["stage"] == 0 and ob == "Yres":
                t["stage"] = 1
                lst = self.items.setdefault(t["stream"], [])
                t["idx"] = len(lst)
                lst.append(t["g"])
            elif t["stage"] == 1 and ob.startswith("R"):
                t["stage"] = 2
                self.published.setdefault(t["stream"], set()).add(t["idx"])

    def live_injectors(self):
        return sum(1 for h, s in self.inj.items() if s == self.stream)


def generic(ctx, oracle, rule, nhist=None, extra_seed=0):
    hist = histories(ctx, nhist, extra_seed)
    recs, errs, sc, ln = run(ctx, hist)
    res = {"evaluations": len(recs), "distinct_nontrivial": 0, "rule": rule, "samples": [], "disagreements": [], "failures": [], "extra": {}}
    for e in errs:
        res["disagreements"].append({"what": e})
    nobs = 0
    nt = 0
    evdist = {}     # input distribution: events by kind over all histories
    ncfg = 0        # histories with at least one update_config
    # an oracle that declares a parameter `mobs` also gets the model's observation list of the same history
    wants_model = "mobs" in inspect.signature(oracle).parameters
    for line, io, mo in recs:
        nobs += len(io)
        kinds = [e.strip().split(" ")[0] for e in line.split(";")]
        for kd in kinds:
            evdist[kd] = evdist.get(kd, 0) + 1
        ncfg += "cfg" in kinds
        if io != mo and len(res["disagreements"]) < 30:
            k = next((j for j in range(min(len(io), len(mo))) if io[j] != mo[j]), min(len(io), len(mo)))
            evs = line.split(";")
            res["disagreements"].append({"what": "history `%s`: observation %d (event `%s`) differs: implementation `%s`, model `%s`" % (
                line[:400], k, evs[k] if k < len(evs) else "?", io[k] if k < len(io) else "-", mo[k] if k < len(mo) else "-"), "case": line})
        if "run" in line and ("Yres" in io or "Yext_res" in io):
            nt += 1
        if io and io[0].startswith("CRASH"):
            res["failures"].append({"class": "crash", "what": "the library crashed (panic / abort inside the worker) on this history: %s -- history: %s" % (io[0][:300], line[:500]), "case": line})
            continue
        for cls, what in (oracle(line, io, sc, ln, mo) if wants_model else oracle(line, io, sc, ln)):
            if len(res["failures"]) < 200:
                res["failures"].append({"class": cls, "what": what + " -- history: " + line[:500], "case": line})
    res["distinct_nontrivial"] = nt
    res["samples"] = [{"history": r[0][:300], "implementation": ";".join(r[1])[:400]} for r in recs[:3]]
    res["extra"] = {"observations": nobs, "distribution(event kind)": dict(sorted(evdist.items())), "histories_with_update_config": ncfg}
    return res


RULE = ("model-guided random walks over a Nucleo with TWO matcher columns (the extracted protocol model enumerates the ENABLED events; 17 styles: general, writers parked between reservation and publication, restart-heavy, "
        "zero-timeout ticks racing the end of the run, no initial items, cancel-heavy, retype = the worker settles on a pattern and the history ends with a non-append edit directly "
        "followed by an append edit, stale run at restart = a finished but uncollected run, restart, a zero-timeout tick that times out on the first run over the new stream, observations, "
        "bulk = the history starts with one or two Injector::extend calls of 25-60 items cycling through a few pool texts so that more than 20 matches tie on (score, total length) interleaved with others, "
        "cancelled run then empty pattern = a run parked before its sort is cancelled by a tick whose edit is the empty pattern, "
        "scan cancelled by an append edit = a run parked at run.start that will take the scoring scan over new items, an append edit, a tick that sets the cancel flag before the scan, "
        "two columns typed between two ticks = column 1 replaced and column 0 extended without a tick in between, "
        "run completes inside tick = the ticking thread parked at tick.after_spawn (directly after ThreadPool::spawn) while the spawned run goes all the way to the end of its closure, then the rest of the tick, "
        "tick blocks on the worker lock = a run parked holding the lock, a restart (or an edit), a tick stepped INTO the blocking lock acquisition of the cancelling branch - the scheduler checks that the ticking thread does NOT reach "
        "another yield point while the run holds the lock and that it arrives at tick.before_spawn as soon as the run has released it, "
        "rescore run cancelled before it starts = the worker settled on P0, a non-append edit to an unrelated P1 and a zero-timeout tick leave a Rescore run parked at run.start, an extension P2 of P1 typed with append = true, a tick that sets the cancel flag before that run has done anything, "
        "run cancelled between scan and sort then an append edit = items chosen with the score table (some that do not match the pattern P, then some that match an extension P' of P), a zero-timeout tick and one step leave a run parked at run.before_sort whose list holds placeholders "
        "(the scoring scan over new items after the worker settled on P or over a restarted stream, or the in-place re-scoring of an append edit P0 -> P), P' typed with append = true, a tick that cancels the sort - the list keeps placeholders and unsorted real entries - and the Update run that re-scores that list in place, "
        "update_config between runs and ticks = the worker settled, then rounds of new published items, Nucleo::update_config, a tick (mostly its non-cancelling branch) whose run must score, notify and be picked up as usual, update_config again while the pool thread is between the release of the lock and the end of its closure; "
        "in EVERY style Nucleo::update_config is called now and then - always with the configuration the Nucleo was created with, only where the model says the call returns (no tick in progress, worker lock free), on a controlled thread so that a call that blocks is reported instead of hanging -: it must leave cancel flag, notification flag, snapshot and worker state alone): "
        "injector threads pushing items (Injector::push) or batches (Injector::extend: the whole range reserved at once, published in index order in chunks chosen by the schedule) of a 24-entry pool of (column 0, column 1) texts whose total length differs from the column 0 length, "
        "pattern edits over an 18-entry pool of (column 0, column 1) pattern texts - every column whose text changes is reparsed, with truthful append "
        "flags (the model's single edit event carries 'every changed column was an append', exact because the real status is the maximum over the columns) -, restarts, ticks with timeout 0 or long, each thread parked at every yield point and stepped by the schedule; every history winds down to quiescence (writers finish, "
        "ticks until running = false). Every observation (tick status, snapshot pattern/count/matches/item data, Snapshot::get_item(i) for i < 8, the number of matcher columns of every item handed out, active_injectors, notify count; every fill callback also checks the number of columns it is handed) is compared with the extracted model "
        "and checked by the property oracle (C13's oracle also compares the lock state reported at the run's post-unlock sites with the model's, and checks what the notify callback saw when a push / extend called it: "
        "the items of that call reserved, counted by injected_items() and readable). Scores (MultiPattern::score over both columns) and TOTAL column lengths come from the harness table. "
        "Non-trivial = history with a background run and at least one writer parked mid-push / mid-extend.")


def replay(path):
    d = json.load(open(path))
    f = d.get("failure") or {}
    print(f.get("what", json.dumps(d)[:3000]))
    line = f.get("case")
    if line:
        hn = vlib.build_harness("hn")
        p = os.path.join(vlib.SCRATCH, "replay_nu.txt")
        os.makedirs(vlib.SCRATCH, exist_ok=True)
        open(p, "w").write(line + "\n")
        tp = os.path.join(vlib.SCRATCH, "nucleo_table.txt")
        open(tp, "w").write(vlib.run([hn, "nucleo-table"])[1])
        print("events:        ", line)
        print("implementation:", vlib.run([hn, "nucleo", p])[1].strip())
        print("model:         ", vlib.run([os.path.join(vlib.OCAML, "driver"), "nucleo", p, tp])[1].strip())
    return 0
