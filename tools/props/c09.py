"""C09: item data is published race-free to every reader (release/acquire memory model)."""
import json
import os
import re

import bcommon
import vlib
from bcommon import prepare  # noqa

TRUSTED = ["the memory model is the hand-written release/acquire machine of Model/BoxcarRA.v (RC11-style per-object views, no load buffering; SeqCst treated as AcqRel); conformance of rustc/LLVM/hardware to it, and races inside rayon, parking_lot or the allocator, are outside",
           "the program order of the vector's accesses in BoxcarRA.v is hand-modelled; the ORDERINGS are regenerated from boxcar.rs on every run (Gen/GenOrderings.v), the order of the yield-point sites is tied by the scheduled histories shared with C08",
           "worker side (per-thread matcher scratch, result list): accessed only by the holder of the worker mutex or by pool threads inside a fork/join section of the run holding it - rayon fork/join and parking_lot mutex happens-before edges are trusted, not modelled"]
ROLES = ("inflight", "entries", "active")
ASSUMPTIONS = ["get_unchecked's contract (caller already happens-after an observation of the entry) is a precondition of the model step"]


def run(ctx, broken):
    res = {"evaluations": 0, "distinct_nontrivial": 0, "rule": "", "samples": [], "disagreements": [], "failures": [], "extra": {}}
    ordering_oracle(ctx, broken, res)
    return run_rest(ctx, broken, res)


def ordering_oracle(ctx, broken, res):
    """the requirement on the memory orderings of src/boxcar.rs, evaluated on the translated table (also used by C08:
    a publication that is not release/acquire lets a lookup return an item that is not completely written)"""
    # the translated table: every boxcar site present, with its orderings
    gen = open(os.path.join(vlib.COQ, "Gen", "GenOrderings.v")).read()
    rows = re.findall(r'\("src/boxcar.rs", "(\w+)", "(\w+)", "(\w+)", (\d+), \[([^\]]*)\]\)', gen)
    res["evaluations"] = len(rows)
    # The field / function columns of the table are canonical ROLE names, not Rust identifiers: the translator decides
    # from the struct definitions which atomic field is the index counter ("inflight": the AtomicU64 of the vector), the
    # bucket pointer ("entries": the AtomicPtr) and the entry flag ("active": the AtomicBool of the entry type), and
    # which private helper publishes a bucket ("get_or_alloc": the one function with a compare_exchange on the bucket
    # pointer).  What it matched is in its info (evidence: coverage.translator); messages print the real identifier.
    tinfo = ((ctx.get("translate") or {}).get("info") or {}).get("GenOrderings.v") or {}
    real_field = dict(tinfo.get("roles") or {})
    real_fn = {"get_or_alloc": tinfo["get_or_alloc"]} if tinfo.get("get_or_alloc") else {}
    res["extra"]["roles"] = {"fields": real_field, "functions": real_fn,
                             "note": "role -> identifier in src/boxcar.rs as matched by the translator; a field without a role is held to the strictest requirement"}

    def fld(field):
        r = real_field.get(field)
        if r is None:
            return "`%s`" % field if field not in ROLES else "`%s` (role name; identifier not reported by the translator)" % field
        return "`%s`" % r if r == field else "`%s` (role %s)" % (r, field)

    def site(field, op):
        r = real_field.get(field, field)
        return "`%s.%s`" % (r, op) if r == field else "`%s.%s` (role %s)" % (r, op, field)

    def fun(fn):
        r = real_fn.get(fn, fn)
        return "%s()" % r if r == fn else "%s() (role %s)" % (r, fn)

    if tinfo.get("model_keys_without_site"):
        near = tinfo.get("model_keys_without_site_candidates") or {}
        text = "; ".join("%s (nearest rows: %s)" % (k, ", ".join(near.get(k) or []) or "none") for k in tinfo["model_keys_without_site"])
        msg = ("sites the model looks up in Gen/GenOrderings.v that src/boxcar.rs no longer has (model_keys_without_site): %s; roles matched by the translator: fields %s, get_or_alloc = %s%s"
               % (text, json.dumps(real_field, sort_keys=True), tinfo.get("get_or_alloc"), (" (" + tinfo["get_or_alloc_note"] + ")") if tinfo.get("get_or_alloc_note") else ""))
        ctx["notes"].append(msg)
        if any(b[0] == "proof" for b in broken):
            # the reason Props/C09.v (C09_current_ok: ords_of_sites atomic_sites = Some ..) stops compiling
            broken.append(("model-keys", msg))
            print("note: C09: " + msg)
    # oracle on the SOURCE orderings, independent of the Coq predicate: the conjunction the theorem needs, stated per
    # FIELD and operation (not per function name): a row of a function the model does not know (a helper that was
    # not inlined, a new function) is held to the strictest requirement of its field, never left unconstrained.
    # The only exemptions are the ones orderings_ok makes: the inflight counter (any ordering), and the loads of
    # get_unchecked (its contract: the caller already happens-after an observation of the entry).
    def at_least(o, what):
        if what == "acq":
            return o in ("Acquire", "AcqRel", "SeqCst")
        if what == "rel":
            return o in ("Release", "AcqRel", "SeqCst")
        return o in ("AcqRel", "SeqCst")

    def requirement(fn, field, op):
        """(tuple of per-ordering requirements, text) or None when orderings_ok requires nothing of this site"""
        if field == "inflight":
            return None
        if op in ("compare_exchange", "compare_exchange_weak"):
            if field != "entries":
                return ("acqrel", "acq"), "compare_exchange of an atomic the model does not know (%s): held to the strictest requirement, (>= AcqRel, >= Acquire)" % fld(field)
            return ("rel", "acq"), "compare_exchange of the bucket pointer %s must be (>= Release, >= Acquire)" % fld(field)
        if op == "load":
            if fn == "get_unchecked" and field in ("entries", "active"):
                return None
            if field == "entries":
                return ("acq",), "load of the bucket pointer %s followed by an access to the bucket must be >= Acquire" % fld(field)
            if field == "active":
                return ("acq",), "load of the entry flag %s before the non-atomic read of the entry must be >= Acquire" % fld(field)
            return ("acq",), "load of an atomic the model does not know (%s): held to the strictest requirement, >= Acquire" % fld(field)
        if op == "store":
            if field == "active":
                return ("rel",), "store of the entry flag %s after the non-atomic writes of the entry must be >= Release" % fld(field)
            return ("rel",), "store to %s (bucket pointer / atomic the model does not know): held to the strictest requirement, >= Release" % fld(field)
        # swap / fetch_* on anything but the inflight counter: both directions
        return ("acqrel",), "read-modify-write of %s (not the index counter, role inflight): held to the strictest requirement, >= AcqRel" % fld(field)

    constrained = [r for r in rows if requirement(r[0], r[1], r[2])]
    res["distinct_nontrivial"] = len(constrained)
    for fn, field, op, k, ords in rows:
        ol = [x.strip() for x in ords.split(";") if x.strip()]
        req = requirement(fn, field, op)
        need = None
        if req:
            want, text = req
            if len(ol) != len(want) or not all(at_least(o, w) for o, w in zip(ol, want)):
                need = text
        if need:
            res["failures"].append({"class": "ordering", "what": "src/boxcar.rs %s: %s #%s has ordering %s: %s; racing execution: see the matching C09_need_* lemma / C09_pinned_races in coq/Props/C09.v (writer publishes a bucket or entry, reader observes it through this access and touches memory initialised by non-atomic writes it does not happen-after)" % (fun(fn), site(field, op), k, ords, need), "site": [fn, field, op, k, ords], "identifiers": {"fn": real_fn.get(fn, fn), "field": real_field.get(field, field)}})
    res["extra"]["_rows"] = [list(r) for r in rows[:5]]
    res["extra"]["_nrows"] = len(rows)
    res["extra"]["_nconstrained"] = len(constrained)
    return res


def run_rest(ctx, broken, res):
    rows5 = res["extra"].pop("_rows", [])
    nrows = res["extra"].pop("_nrows", 0)
    nconstrained = res["extra"].pop("_nconstrained", 0)
    # program structure: the scheduled histories of C08 (sites in program order) - small batch
    hist = bcommon.histories(ctx["seed"] + 500, "quick")[:60]
    recs, errs = bcommon.run(ctx, hist)
    for e in errs:
        res["disagreements"].append({"what": e})
    for line, vals, io, mo in recs:
        res["evaluations"] += 1
        if mo is not None and io != mo and len(res["disagreements"]) < 10:
            res["disagreements"].append({"what": "site trace of history `%s` differs between implementation and model" % line[:200], "case": line})
    # worker side: no unchecked read of an entry before it is initialised (sort tie-break, rescoring,
    # snapshot access) - protocol histories with writers parked mid-push, counted by a cfg hook in get_unchecked
    import ncommon
    nh = ncommon.histories(ctx, 120 if ctx["tier"] == "quick" else 1500, extra_seed=9)
    nrecs, nerrs, _, _ = ncommon.run(ctx, nh)
    for e in nerrs:
        res["disagreements"].append({"what": e})
    for line, io, mo in nrecs:
        res["evaluations"] += 1
        for o in io:
            if o.startswith("O ") and ncommon.parse_obs(o)["u"]:
                res["failures"].append({"class": "uninit_read", "what": "an item was read through get_unchecked before the write that initialises it (no happens-before with the injector thread): %s -- history: %s" % (o, line[:400]), "case": line})
                break
        if io and io[0].startswith("CRASH"):
            res["failures"].append({"class": "crash", "what": "the library crashed: %s -- history %s" % (io[0][:200], line[:300]), "case": line})
    # worker side: the per-thread matcher scratch memory - a pool with MORE threads than cores scores ~30k items; every
    # score and the set of matches are compared with one fresh Matcher computing them sequentially
    scratch_probe(ctx, res)
    if ctx["tier"] == "thorough":
        m = miri_probe()
        res["extra"]["miri"] = m
        if m.get("race"):
            res["failures"].append({"class": "miri", "what": "Miri reports a data race in the two-thread probe: " + m["race"][:300]})
    res["rule"] = ("every atomic access site of src/boxcar.rs as translated into Gen/GenOrderings.v (%d rows; %d of them constrained by orderings_ok) is checked against the conjunction the race-freedom theorem needs, "
                   "independently of the Coq predicate; 60 scheduled histories tie the order of the yield-point sites; thorough tier additionally runs a two-thread get/extend probe under Miri." % (nrows, nconstrained))
    res["samples"] = [{"site": list(r)} for r in rows5]
    return res


def scratch_probe(ctx, res):
    rounds, nitems = (3, 30000) if ctx["tier"] == "quick" else (12, 40000)
    rc, out, err, dt = vlib.run([ctx["hn"], "scratch-probe", str(rounds), str(nitems)], timeout=600)
    summ = [l for l in out.splitlines() if l.startswith("S ")]
    fl = [l for l in out.splitlines() if l.startswith("F ")]
    res["evaluations"] += len(summ)
    nthreads = None
    bad = []
    for l in summ:
        d = dict(kv.split("=", 1) for kv in l.split(" ")[3:])
        nthreads = d.get("threads")
        if (d["wrong"], d["missing"], d["extra"]) != ("0", "0", "0") or d["count"] != d["items"]:
            bad.append(l)
    res["extra"]["scratch_probe"] = {"rounds": rounds, "items": nitems, "pool_threads": nthreads, "phases_compared": len(summ), "seconds": round(dt, 1), "rc": rc}
    intro = "worker with %s pool threads (more than the %d hardware threads) over %d items" % (nthreads or "2 x cores", os.cpu_count() or 0, nitems)
    if fl or bad:
        what = []
        for l in fl[:3]:
            m = re.match(r"F (\d+) (\d+) (\w+) item=(\d+) text=(.*) pattern=(\".*\") expected=(\S+) got=(\S+)$", l)
            if m:
                rd, ph, cls, item, text, pat, exp, got = m.groups()
                what.append("item %s (text %r) under pattern %s: %s - expected score %s (one fresh Matcher, sequentially), the snapshot has %s" % (
                    item, text, pat, {"wrong_score": "wrong score", "missing": "missing from the matches", "extra": "in the matches although it does not match"}.get(cls, cls), exp, got))
            else:
                what.append(l)
        res["failures"].append({"class": "scratch_shared", "what": "%s: the scores the pool threads computed differ from the sequential reference - two pool threads used the same matcher scratch memory at the same time (data race on the scoring matrix): %s; summary: %s" % (
            intro, "; ".join(what) or "-", " | ".join(bad)[:600]), "case": "hn scratch-probe %d %d" % (rounds, nitems), "lines": fl[:5] + bad[:3]})
    elif rc != 0 or len(summ) != 3 * rounds:
        pm = re.findall(r"panicked at ([^\n]*)\n([^\n]*)", err)
        res["failures"].append({"class": "scratch_shared", "what": "%s: the probe process died (rc=%s) after %d of %d comparisons; %d panics inside the pool threads, first: %s - the matcher's scratch memory was corrupted while it was scoring (two pool threads sharing one matcher), or the worker crashed for another reason" % (
            intro, rc, len(summ), 3 * rounds, len(pm), (" :: ".join(pm[0]) if pm else " ".join(err.split())[-300:])), "case": "hn scratch-probe %d %d" % (rounds, nitems)})


def miri_probe():
    """cargo +nightly miri on a reader spinning on get() while a writer extends across a bucket boundary"""
    d = os.path.join(vlib.SCRATCH, "miri_probe")
    os.makedirs(os.path.join(d, "src"), exist_ok=True)
    open(os.path.join(d, "Cargo.toml"), "w").write('[package]\nname="probe"\nversion="0.0.0"\nedition="2021"\n[dependencies]\nnucleo={path="/repo"}\n[workspace]\n')
    import shutil
    shutil.copy("/repo/Cargo.lock", os.path.join(d, "Cargo.lock"))
    open(os.path.join(d, "src", "main.rs"), "w").write('''use std::sync::Arc;
fn main() {
    let n: nucleo::Nucleo<u32> = nucleo::Nucleo::new(nucleo::Config::DEFAULT, Arc::new(|| {}), Some(1), 1);
    let inj = n.injector();
    let r = inj.clone();
    let t = std::thread::spawn(move || { let mut k = 0u32; while r.get(4099).is_none() && k < 200000 { k += 1; std::hint::spin_loop(); } });
    inj.extend((0..4100u32).collect::<Vec<_>>().into_iter(), |_, _| {});
    t.join().unwrap();
}
''')
    env = dict(vlib.ENV)
    env["MIRIFLAGS"] = "-Zmiri-disable-isolation -Zmiri-permissive-provenance -Zmiri-disable-stacked-borrows -Zmiri-ignore-leaks"
    rc, out, err, dt = vlib.run(["cargo", "+nightly", "miri", "run", "--offline"], cwd=d, timeout=1500, env=env)
    m = re.search(r"Data race detected[^\n]*", err)
    return {"rc": rc, "seconds": round(dt), "race": m.group(0) if m else None, "tail": err[-300:] if rc not in (0,) and not m else ""}


def known(f, kf):
    return None


def replay(path):
    print(json.dumps(json.load(open(path)), indent=1)[:3000])
    return 0
