"""Shared generator / runner for the boxcar vector histories (C08, C09, C11)."""
import os
import random

import vlib


def prepare(ctx):
    ctx["hn"] = ctx["build"]("hn")


def gen_history(rng, style):
    """one history line; returns (line, values created)"""
    cap = rng.choice([0, 0, 1, 31, 32, 33, 100])
    ev = ["cap=%d" % cap]
    vals = []
    nextv = [1]
    live = []
    tid = [0]

    def newv():
        v = nextv[0]
        nextv[0] += 1
        vals.append(v)
        return v

    def spawn_push(panic=False):
        tid[0] += 1
        ev.append("sp %d push %d%s" % (tid[0], newv(), " p" if panic else ""))
        live.append(tid[0])

    def spawn_ext(count, actual, pa=None):
        tid[0] += 1
        vs = [newv() for _ in range(actual)]
        ev.append("sp %d ext %d %s%s" % (tid[0], count, ",".join(map(str, vs)) if vs else "-", " p%d" % pa if pa is not None else ""))
        live.append(tid[0])

    def step_some(n):
        for _ in range(n):
            if not live:
                return
            ev.append("st %d" % rng.choice(live))

    def drain(t):
        for _ in range(80):
            ev.append("st %d" % t)

    def probe():
        r = rng.random()
        if r < 0.5:
            ev.append("get %d" % rng.randrange(0, max(4, nextv[0] + 3)))
        elif r < 0.75:
            ev.append("count")
        else:
            ev.append("snap %d" % rng.randrange(0, 3))

    if style == "boundary":
        # fill up to just below a bucket boundary, then race pushes across it
        base = rng.choice([26, 27, 28, 30, 31, 90, 94])
        spawn_ext(base, base)
        drain(tid[0])
        live.clear()
        for _ in range(rng.randint(2, 4)):
            spawn_push(panic=rng.random() < 0.1)
        for _ in range(rng.randint(6, 30)):
            step_some(1)
            if rng.random() < 0.3:
                probe()
    elif style == "lying":
        k = rng.choice([0, 1, 2, 5, 40, 200, 2000, 20000])
        actual = max(0, k + rng.choice([-1, -1, 0, 1, 2]) if k < 50 else rng.choice([0, 1, 3]))
        actual = min(actual, 60)
        pa = rng.randrange(0, actual) if actual and rng.random() < 0.2 else None
        spawn_ext(k, actual, pa)
        for _ in range(rng.randint(0, 8)):
            step_some(1)
            if rng.random() < 0.3:
                probe()
        spawn_push()
        spawn_push()
        for _ in range(rng.randint(4, 40)):
            step_some(1)
            if rng.random() < 0.3:
                probe()
    else:
        for _ in range(rng.randint(1, 4)):
            if rng.random() < 0.6:
                spawn_push(panic=rng.random() < 0.1)
            else:
                c = rng.randint(0, 6)
                spawn_ext(c, max(0, c + rng.choice([0, 0, 0, -1, 1])), None)
        for _ in range(rng.randint(3, 40)):
            step_some(1)
            if rng.random() < 0.4:
                probe()
    for _ in range(rng.randint(0, 3)):
        probe()
    if rng.random() < 0.9:
        ev.append("drop")
    return ";".join(ev), vals


def histories(seed, tier):
    rng = random.Random(seed * 104729 + 17)
    n = 400 if tier == "quick" else 6000
    out = []
    for k in range(n):
        style = ["mixed", "boundary", "lying"][k % 3]
        out.append(gen_history(rng, style))
    return out


def run(ctx, hist):
    """returns list of (line, values, impl_obs list, model_obs list or None)"""
    hn, drv = ctx["hn"], ctx["driver"]
    os.makedirs(vlib.SCRATCH, exist_ok=True)
    nsh = max(1, min(vlib.NPROC, len(hist) // 20 or 1))
    files = []
    for i in range(nsh):
        p = os.path.join(vlib.SCRATCH, "bx_%d_%d.txt" % (os.getpid(), i))
        open(p, "w").write("\n".join(h[0] for h in hist[i::nsh]) + "\n")
        files.append(p)
    ri = vlib.parallel([[hn, "boxcar", f] for f in files], tag="bxi", timeout=600)
    rm = vlib.parallel([[drv, "boxcar", f] for f in files], tag="bxm", timeout=600) if drv else None
    out = []
    errs = []
    for i in range(nsh):
        sub = hist[i::nsh]
        il = ri[i][1].splitlines()
        ml = rm[i][1].splitlines() if rm else []
        if ri[i][0] != 0:
            errs.append("hn boxcar failed: " + ri[i][2][-300:])
        if rm and rm[i][0] != 0:
            errs.append("driver boxcar failed: " + rm[i][2][-300:])
        for k, (line, vals) in enumerate(sub):
            out.append((line, vals, il[k].split(";") if k < len(il) else ["missing"], ml[k].split(";") if k < len(ml) else (None if not drv else ["missing"])))
        os.unlink(files[i])
    return out, errs
