"""Shared generator / runner for the boxcar vector histories (C08, C09, C11)."""
import os
import random

import vlib


def prepare(ctx):
    ctx["hn"] = ctx["build"]("hn")


def gen_history(rng, style):
    """one history line; returns (line, values created)"""
    cap = rng.choice([0, 0, 1, 31, 32, 33, 100])
    ev = ["cap=%d" % cap]
    vals = []
    nextv = [1]
    live = []
    tid = [0]

    def newv():
        v = nextv[0]
        nextv[0] += 1
        vals.append(v)
        return v

    def spawn_push(panic=False):
        tid[0] += 1
        ev.append("sp %d push %d%s" % (tid[0], newv(), " p" if panic else ""))
        live.append(tid[0])

    def spawn_ext(count, actual, pa=None):
        tid[0] += 1
        vs = [newv() for _ in range(actual)]
        ev.append("sp %d ext %d %s%s" % (tid[0], count, ",".join(map(str, vs)) if vs else "-", " p%d" % pa if pa is not None else ""))
        live.append(tid[0])

    def step_some(n):
        for _ in range(n):
            if not live:
                return
            ev.append("st %d" % rng.choice(live))

    def drain(t):
        for _ in range(80):
            ev.append("st %d" % t)

    def probe():
        r = rng.random()
        if r < 0.5:
            ev.append("get %d" % rng.randrange(0, max(4, nextv[0] + 3)))
        elif r < 0.75:
            ev.append("count")
        else:
            ev.append("snap %d" % rng.randrange(0, 3))

    if style == "boundary":
        # fill up to just below a bucket boundary, then race pushes across it
        base = rng.choice([26, 27, 28, 30, 31, 90, 94])
        spawn_ext(base, base)
        drain(tid[0])
        live.clear()
        for _ in range(rng.randint(2, 4)):
            spawn_push(panic=rng.random() < 0.1)
        for _ in range(rng.randint(6, 30)):
            step_some(1)
            if rng.random() < 0.3:
                probe()
    elif style == "lying":
        k = rng.choice([0, 1, 2, 5, 40, 200, 2000, 20000])
        actual = max(0, k + rng.choice([-1, -1, 0, 1, 2]) if k < 50 else rng.choice([0, 1, 3]))
        actual = min(actual, 60)
        pa = rng.randrange(0, actual) if actual and rng.random() < 0.2 else None
        spawn_ext(k, actual, pa)
        for _ in range(rng.randint(0, 8)):
            step_some(1)
            if rng.random() < 0.3:
                probe()
        spawn_push()
        spawn_push()
        for _ in range(rng.randint(4, 40)):
            step_some(1)
            if rng.random() < 0.3:
                probe()
    else:
        for _ in range(rng.randint(1, 4)):
            if rng.random() < 0.6:
                spawn_push(panic=rng.random() < 0.1)
            else:
                c = rng.randint(0, 6)
                spawn_ext(c, max(0, c + rng.choice([0, 0, 0, -1, 1])), None)
        for _ in range(rng.randint(3, 40)):
            step_some(1)
            if rng.random() < 0.4:
                probe()
    for _ in range(rng.randint(0, 3)):
        probe()
    if rng.random() < 0.5:
        # epilogue: let every writer finish, then look up EVERY index that was handed out (a completed push must be
        # retrievable at its index for ever - e.g. not lost with a bucket that a racing writer replaced)
        for t in list(live):
            for _ in range(12 if style != "lying" else 70):
                ev.append("st %d" % t)
        ev.append("count")
        for i in range(min(nextv[0] + 2, 70)):
            ev.append("get %d" % i)
    if rng.random() < 0.9:
        ev.append("drop")
    return ";".join(ev), vals


def histories(seed, tier):
    rng = random.Random(seed * 104729 + 17)
    n = 400 if tier == "quick" else 6000
    out = []
    for k in range(n):
        style = ["mixed", "boundary", "lying"][k % 3]
        out.append(gen_history(rng, style))
    return out


def run(ctx, hist):
    """returns list of (line, values, impl_obs list, model_obs list or None)"""
    hn, drv = ctx["hn"], ctx["driver"]
    os.makedirs(vlib.SCRATCH, exist_ok=True)
    nsh = max(1, min(vlib.NPROC, len(hist) // 20 or 1))
    files = []
    for i in range(nsh):
        p = os.path.join(vlib.SCRATCH, "bx_%d_%d.txt" % (os.getpid(), i))
        open(p, "w").write("\n".join(h[0] for h in hist[i::nsh]) + "\n")
        files.append(p)
    ri = vlib.parallel([[hn, "boxcar", f] for f in files], tag="bxi", timeout=600)
    rm = vlib.parallel([[drv, "boxcar", f] for f in files], tag="bxm", timeout=600) if drv else None
    out = []
    errs = []
    for i in range(nsh):
        sub = hist[i::nsh]
        il = ri[i][1].splitlines()
        ml = rm[i][1].splitlines() if rm else []
        if ri[i][0] != 0:
            errs.append("hn boxcar failed: " + ri[i][2][-300:])
        if rm and rm[i][0] != 0:
            errs.append("driver boxcar failed: " + rm[i][2][-300:])
        for k, (line, vals) in enumerate(sub):
            out.append((line, vals, il[k].split(";") if k < len(il) else ["missing"], ml[k].split(";") if k < len(ml) else (None if not drv else ["missing"])))
        os.unlink(files[i])
    return out, errs


LAYOUT_RULE = (" Layout probe (deterministic, one child process per item type): item types unit, u8, u16, u32, u64, usize, u128, (u128,u8) and "
               "#[repr(align(16/32/64))] structs x 1..5 matcher columns (0 is rejected by the constructor) x capacities 0,1,33,100 x push / one extend / "
               "mixed pushes and batches: 100 items across two bucket boundaries, then every index is read back: index returned by push, value, every column "
               "text (value dependent, non-ASCII), `&T` and the column slice aligned for their types, all value / column storage pairwise disjoint, count, "
               "snapshot; a panic or abort of the child (the debug profile aborts on a misaligned dereference) is a failure.")
LEAK_RULE = (" Leak probe (deterministic, single threaded, counting #[global_allocator] in the harness binary): item types without drop glue (u32, &'static str, "
             "(u8,u8), u128) and with (String, Box<u64>) x 1,3 columns x capacities 0,100 x 0 / 1 / 70 pushed / 70 extended / 1500 mixed items whose columns own heap "
             "blocks (non-ASCII text): after the vector is dropped the live bytes and the live allocation count must equal the values before it was created, exactly "
             "(one warm-up round per type). Public API variant: Nucleo<u32> (one pool thread), 300 items, tick, [restart, 150 items, tick], drop of every handle: "
             "the number of live blocks of the column payloads' shape (1332 bytes, align 4; nothing else allocates that) must return to its starting value.")


def stderr_gist(err):
    """the panic message(s) (without the backtrace) and the last line of a dead child's stderr"""
    ls = [x.strip() for x in err.strip().splitlines()]
    keep = []
    for i, l in enumerate(ls):
        if "panicked at" in l:
            keep.append(l)
            if i + 1 < len(ls) and not ls[i + 1].startswith("stack backtrace"):
                keep.append(ls[i + 1])
    if ls and (not keep or ls[-1] != keep[-1]):
        keep.append(ls[-1])
    return " | ".join(keep)[-700:]


def layout_probe(ctx):
    """C08 layout probe: returns (evaluations, failures)"""
    hn = ctx["hn"]
    rc, out, err, _ = vlib.run([hn, "layout-types"])
    types = out.split()
    fails = []
    if rc != 0 or not types:
        return 0, [{"class": "crash", "what": "hn layout-types failed: " + err[-300:], "case": "layout"}]
    rs = vlib.parallel([[hn, "layout", t] for t in types], tag="lay", timeout=300)
    n = 0
    for t, (rc, out, err) in zip(types, rs):
        cur = None
        for l in out.splitlines():
            if l.startswith("B "):
                cur = l[2:]
            elif l.startswith("E "):
                n += 1
                if l != "E ok":
                    p = l.split(" ", 3)
                    fails.append({"class": p[2], "what": "%s: %s" % (cur, p[3] if len(p) > 3 else ""), "case": cur})
                cur = None
        if rc != 0 or cur is not None:
            n += 1
            tail = stderr_gist(err)
            fails.append({"class": "abort", "what": "%s: the probe process died (exit status %s) while adding / reading back items of this type: %s" % (cur or ("layout " + t), rc, tail),
                          "case": cur or ("layout " + t)})
    return n, fails


COLUMNS_RULE = (" Column probe (deterministic, public API, one pool thread): Nucleo::new with k = 1, 2, 3 matcher columns; on the initial stream, on the stream created by "
                "restart(false) and on the stream created by restart(true): 4 pushes and one extend of 5 items, tick until running = false; every fill callback must be handed "
                "exactly k columns, and every item returned by Injector::get(i), Snapshot::get_item(i) and Snapshot::get_matched_item(n) must have exactly k matcher columns "
                "holding the texts its fill callback wrote.")


def columns_probe(ctx):
    """C08 column probe through the public Nucleo API: returns (evaluations, failures)"""
    rc, out, err, _ = vlib.run([ctx["hn"], "nucleo-cols"], timeout=300)
    fails = []
    n = 0
    for l in out.splitlines():
        if l.startswith("K ok "):
            n += 1
        elif l.startswith("K fail "):
            n += 1
            p = l.split(" ", 3)
            case, _, what = p[3].partition(" :: ")
            fails.append({"class": p[2], "what": "%s: %s" % (case, what), "case": case})
    if rc != 0 or n == 0:
        fails.append({"class": "crash", "what": "the column probe process died (exit status %s) after %d cases: %s" % (rc, n, stderr_gist(err)), "case": "columns"})
    return n, fails


def capacity_probe(ctx):
    """C08 capacity probe (reservation counter past 2^32): returns (evaluations, failures)"""
    rc, out, err, _ = vlib.run([ctx["hn"], "capacity"], timeout=300)
    fails = []
    n = 0
    for l in out.splitlines():
        if l.startswith("K ok "):
            n += 1
        elif l.startswith("K fail "):
            n += 1
            p = l.split(" ", 3)
            case, _, what = p[3].partition(" :: ")
            fails.append({"class": p[2], "what": "capacity %s: %s" % (case, what), "case": "capacity " + case})
    if rc != 0 or n == 0:
        fails.append({"class": "crash", "what": "the capacity probe process died (exit status %s) after %d cases: %s" % (rc, n, stderr_gist(err)), "case": "capacity"})
    return n, fails


def leak_probe(ctx):
    """C11 leak probe: returns (evaluations, failures)"""
    rc, out, err, _ = vlib.run([ctx["hn"], "leak"], timeout=300)
    fails = []
    n = 0
    for l in out.splitlines():
        if l.startswith("L ok "):
            n += 1
        elif l.startswith("L fail "):
            n += 1
            p = l.split(" ", 3)
            case, _, what = p[3].partition(" :: ")
            fails.append({"class": p[2], "what": "%s: %s" % (case, what), "case": case})
    if rc != 0 or n == 0:
        tail = stderr_gist(err)
        fails.append({"class": "crash", "what": "the leak probe process died (exit status %s) after %d cases: %s" % (rc, n, tail), "case": "leak"})
    return n, fails


def replay_probe(case):
    """re-run a probe case recorded in a replay file; True if `case` was a probe case"""
    if not (case.startswith("layout") or case.startswith("leak") or case.startswith("columns")):
        return False
    hn = vlib.build_harness("hn")
    cmd = [hn] + case.split(" ") if case.startswith("layout") else [hn, "nucleo-cols"] if case.startswith("columns") else [hn, "leak"]
    rc, out, err, _ = vlib.run(cmd)
    lines = [l for l in out.splitlines() if not l.endswith(" ok") and not l.startswith("L ok") and not l.startswith("K ok")]
    print("$ " + " ".join(cmd))
    print("\n".join(lines[-20:]))
    if rc != 0:
        print("exit status %s: %s" % (rc, err.strip()[-800:]))
    return True
