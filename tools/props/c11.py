"""C11: every injected item is dropped exactly once, and only after it is unreachable."""
import bcommon
import c08
from bcommon import prepare  # noqa
from c08 import replay  # noqa

TRUSTED = c08.TRUSTED + ["histories: drops are observed through Drop impls of the payload type; matcher-column strings carry no drop hook, their release is observed by the leak probe through a counting global allocator (live bytes / allocations of the harness process)"]
ASSUMPTIONS = c08.ASSUMPTIONS + ["Arc handle bookkeeping of Nucleo/Snapshot/Injector is C20's subject; here the vector is dropped by its single owner after all writers finished"]


def run(ctx, broken):
    hist = bcommon.histories(ctx["seed"] + 1000, ctx["tier"])
    recs, errs = bcommon.run(ctx, hist)
    res = {"evaluations": len(recs), "distinct_nontrivial": 0, "rule": "", "samples": [], "disagreements": [], "failures": [], "extra": {}}
    for e in errs:
        res["disagreements"].append({"what": e})
    nt = 0
    for line, vals, io, mo in recs:
        if mo is not None and io != mo and len(res["disagreements"]) < 30:
            k = next((j for j in range(min(len(io), len(mo))) if io[j] != mo[j]), min(len(io), len(mo)))
            res["disagreements"].append({"what": "history `%s`: observation %d differs: implementation `%s`, model `%s`" % (line[:300], k, io[k] if k < len(io) else "-", mo[k] if k < len(mo) else "-"), "case": line})
        total = io[-2] if io and io[-1].startswith("W") else io[-1]
        if not total.startswith("T"):
            res["failures"].append({"class": "crash", "what": "history did not complete: " + line[:300], "case": line})
            continue
        dropped = [int(x) for x in total[1:].split(",")] if len(total) > 1 else []
        if "drop" in line.split(";"):
            nt += 1
            for v in sorted(set(vals)):
                n = dropped.count(v)
                if n != 1:
                    res["failures"].append({"class": "leak" if n == 0 else "double", "what": "value %d was dropped %d times (must be exactly once) -- history: %s" % (v, n, line[:400]), "case": line})
                    break
        # never dropped before the vector: a drop event before `drop` must belong to a panicked / over-long extend
        if any(dropped.count(v) > 1 for v in set(dropped)) and "drop" not in line.split(";"):
            res["failures"].append({"class": "double", "what": "double drop -- history: " + line[:300], "case": line})
    pn, pf = bcommon.leak_probe(ctx)
    res["failures"] = pf[:20] + res["failures"][:200]
    res["evaluations"] += pn
    res["distinct_nontrivial"] = nt + pn
    res["rule"] = ("same history generator as C08 with drop-counting payloads (ids logged on Drop): pushes with panicking fills, honest and lying extends (reported length off by -1/+1/+2, "
                   "reported 200-20000 with 0-3 items), writers parked mid-operation, then all writers finish and the vector is dropped by its owner; oracle: every created value "
                   "id occurs exactly once in the drop log; compared with the extracted model (whose Drop walk `break`s or `continue`s at a null bucket as the translated source says). "
                   "Non-trivial = history that ends with the vector dropped." + bcommon.LEAK_RULE + " %d probe cases." % pn)
    res["samples"] = [{"history": r[0][:300], "implementation": ";".join(r[2])[-200:]} for r in recs[:3]]
    res["extra"] = {"leak_probe_cases": pn}
    return res


def known(f, kf):
    return None
