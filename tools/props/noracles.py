"""Property oracles over one protocol history (events + the implementation's observations).
An oracle with a fifth parameter `mobs` also receives the protocol model's observations of the same history."""
import ncommon


PLACEHOLDER = 4294967295


def text_of(g):
    return int(g) % ncommon.NTEXTS


def walk(line, obs):
    """yield (index, event, observation, tracker-after)"""
    tr = ncommon.Track()
    for k, (ev, ob) in enumerate(zip(line.split(";"), obs)):
        tr.event(ev, ob)
        yield k, ev, ob, tr


# events that step the UI thread: ut, utb (stepped into a blocking lock acquisition), utw (arrival after the block)
UT = ("ut", "utb", "utw")


def snapshot_streams(tr, o):
    """all streams the matched items of the observation are consistent with"""
    return [s for s, items in tr.items.items() if all(idx < len(items) and str(items[idx]) == g for (_, idx), g in zip(o["m"], o["d"]))]


def snapshot_stream(tr, o):
    """the stream every matched item of the observation belongs to (None if inconsistent)"""
    if not o["m"]:
        return -1
    cands = [s for s, items in tr.items.items()
             if all(idx < len(items) and str(items[idx]) == g for (_, idx), g in zip(o["m"], o["d"]))]
    if not cands:
        return None
    # data ids are unique within a history (the generator guarantees it), so there is normally one candidate; should
    # two streams ever agree on all matched (index, data) pairs, prefer the current stream
    return tr.stream if tr.stream in cands else max(cands)


def c06(line, obs, sc, ln):
    out = []
    for k, ev, ob, tr in walk(line, obs):
        if not ob.startswith("O "):
            continue
        o = ncommon.parse_obs(ob)
        idxs = [i for _, i in o["m"]]
        if o["u"]:
            out.append(("uninit_read", "the worker / snapshot read %d item(s) through get_unchecked before they were initialised (e.g. the sort's tie-break on an in-flight item): %s" % (o["u"], ob)))
        if PLACEHOLDER in idxs:
            out.append(("placeholder", "the snapshot's matches contain %d placeholder entries (idx == u32::MAX, the worker's marker for a non-matching item; reading such a match panics) - the sort did not move them behind the real matches before the truncation: %s" % (idxs.count(PLACEHOLDER), ob)))
            continue
        if len(set(idxs)) != len(idxs):
            out.append(("duplicate", "an item appears twice in the snapshot: %s" % ob))
        if o["mi"] != "ok":
            out.append(("matched_items", "Snapshot::matched_items(range) does not hand out the items of matches()[range] (bounds, ExactSizeIterator::len or the reversed iterator): %s" % ob))
        if "NONE" in o["d"]:
            out.append(("unreadable", "matched items could not all be read (get_matched_item returned None): %s" % ob))
            continue
        if len(o["d"]) != len(o["m"]):
            out.append(("unreadable", "matched items could not all be read: %s" % ob))
            continue
        s = snapshot_stream(tr, o)
        if s is None:
            out.append(("stream", "the matches do not all refer to initialised items of one stream: %s" % ob))
            continue
        if s >= 0:
            for (score, idx), g in zip(o["m"], o["d"]):
                if idx not in tr.published.get(s, set()):
                    out.append(("uninitialised", "match index %d refers to an item that was never published: %s" % (idx, ob)))
                want = sc.get((o["p"], text_of(g)))
                if o["p"] == 0:
                    want = 0
                if want is None or want != score:
                    out.append(("score", "match %d:%d carries a score that is not the snapshot pattern's (%s) score %s for that item: %s" % (score, idx, ncommon.PATTERNS[o["p"]] if o["p"] >= 0 else "?", want, ob)))
            if o["p"] == 0:
                key = [i for _, i in o["m"]]
            else:
                key = [(-sc_, ln[text_of(g)], i) for (sc_, i), g in zip(o["m"], o["d"])]
            if key != sorted(key):
                out.append(("order", "matches are not ordered by (score desc, length asc, index asc): %s" % ob))
            # the matches are EXACTLY the matching items among `count` processed (hence published) items: the
            # count - matches other processed items must all be non-matching published items of the stream
            if 0 <= o["p"] < len(ncommon.PATTERNS):
                pub = tr.published.get(s, set())
                items_s = tr.items.get(s, [])
                nonmatching = 0 if o["p"] == 0 else sum(1 for i_ in pub if sc.get((o["p"], text_of(items_s[i_]))) is None)
                if o["c"] - len(o["m"]) > nonmatching:
                    out.append(("incomplete", "the snapshot counts %d processed items and has %d matches, but only %d published items of the stream do not match the snapshot pattern %r: some processed item that matches is missing from the matches: %s" % (
                        o["c"], len(o["m"]), nonmatching, ncommon.PATTERNS[o["p"]], ob)))
            if o["c"] < len(o["m"]) or o["c"] > len(tr.items.get(s, [])):
                out.append(("count", "item count %d is inconsistent with %d matches / %d reserved items: %s" % (o["c"], len(o["m"]), len(tr.items.get(s, [])), ob)))
    return out


def c12(line, obs, sc, ln):
    out = []
    last = None
    after_restart = None
    # isolation window: from a restart until a tick can have picked up a run over the NEW stream, i.e. until
    # the first tick that completes after (a) a tick spawned a run after the restart (the worker lock is held
    # from that tick's lock acquisition until the run releases it) and (b) that run released the lock.  Inside
    # the window the snapshot is empty (clear) / exactly what it was at the restart (keep), however many ticks
    # time out in between.  win = {clear, ref, spawn, unlocked, r}; ref None = keep with unknown reference
    # (then all observations inside the window must equal the first of them)
    win = None
    # index based access (Snapshot::get_item): from a restart(true) on the snapshot must not hand out any item of a
    # stream older than the one that restart created.  floor = (stream created by the latest restart(true), its event)
    floor = None
    kept = None
    restarts = []     # events of the restarts so far
    for k, ev, ob, tr in walk(line, obs):
        p = ev.split(" ")
        if p[0] == "restart":
            restarts.append(k)
        # the stream a restart creates has the CONFIGURED number of matcher columns: every fill callback (push / extend)
        # and every item the snapshot hands out is checked by the harness against the 2 columns given to Nucleo::new
        if p[0] == "st" and "!cols=" in ob:
            ncol = ob[ob.index("!cols=") + 6:].split("!")[0]
            start = next((e for e in line.split(";")[:k] if (e.startswith("push ") or e.startswith("ext ")) and e.split(" ")[1] == p[1]), "?")
            sno = tr.pushes.get(p[1], {}).get("stream")
            out.append(("columns", "the fill callback of %s (`%s`, completed at event %d) was handed %s matcher columns, the Nucleo was created with %d: stream %s %s does not have the configured column count" % (
                "Injector::extend" if start.startswith("ext") else "Injector::push", start, k, ncol, ncommon.NCOLS, sno,
                ("was created by the restart at event %d and" % restarts[sno - 1]) if sno and sno <= len(restarts) else "(the initial one)")))
        if ob.startswith("O ") and ncommon.parse_obs(ob)["k"] != ncommon.NCOLS:
            out.append(("columns", "the snapshot hands out items (get_matched_item / get_item) with %d matcher columns, the Nucleo was created with %d%s: %s" % (
                ncommon.parse_obs(ob)["k"], ncommon.NCOLS, (" (%d restart(s) so far, the last at event %d: the stream it created does not have the configured column count)" % (len(restarts), restarts[-1])) if restarts else "", ob)))
        if p[0] == "restart" and p[1] == "1":
            floor = (tr.stream, k)
        if ob.startswith("O ") and floor is not None:
            g = ncommon.parse_obs(ob)["g"]

            def fits(s_):
                its, pub = tr.items.get(s_, []), tr.published.get(s_, set())
                return all(v is None or (i_ < len(its) and str(its[i_]) == v and i_ in pub) for i_, v in enumerate(g))
            if any(v is not None for v in g) and not any(fits(s_) for s_ in range(floor[0], tr.stream + 1)):
                i_, v = next((i_, v) for i_, v in enumerate(g) if v is not None and not any(
                    i_ < len(tr.items.get(s_, [])) and str(tr.items[s_][i_]) == v and i_ in tr.published.get(s_, set()) for s_ in range(floor[0], tr.stream + 1)))
                olds = [s_ for s_ in range(0, floor[0]) if i_ < len(tr.items.get(s_, [])) and str(tr.items[s_][i_]) == v]
                out.append(("get_item", "after restart(true) (event %d, which created stream %d) Snapshot::get_item(%d) returns the item with data %s, which is not item %d of the new stream (nor of a later one)%s: "
                            "index based access to the cleared snapshot reaches items injected before the restart (get_item results: %s): %s" % (
                                floor[1], floor[0], i_, v, i_, (" but item %d of the OLD stream %d" % (i_, olds[-1])) if olds else "", ",".join("-" if x is None else x for x in g), ob)))
        if p[0] == "restart":
            if p[1] == "1" and last is not None:
                last = {"p": last["p"], "c": 0, "m": [], "d": [], "inj": 0, "n": 0, "g": []}
            after_restart = (p[1] == "1", last)
            if p[1] == "1":
                ref = last if last is not None else {"p": win["ref"]["p"] if win and win["ref"] else None, "c": 0, "m": []}
            elif win is not None and win["ref"] is not None:
                ref = win["ref"]     # a restart inside an open window: the snapshot still is what it was
            else:
                ref = last
            win = {"clear": p[1] == "1", "ref": ref, "spawn": False, "unlocked": False, "r": k}
            kept = win      # survives the window: what a snapshot that still consists of OLD items has to look like
        if p[0] in ("tick",):
            after_restart = None if after_restart is None else after_restart
        if win is not None:
            if p[0] in UT and ob == "Ybefore_spawn":
                win["spawn"] = True
            elif p[0] == "run" and ob.startswith("Yunlocked") and win["spawn"]:
                win["unlocked"] = True
        if ob.startswith("O "):
            o = ncommon.parse_obs(ob)
            s = snapshot_stream(tr, o)
            if s is None:
                out.append(("mixed", "items of different streams (or uninitialised items) in one snapshot: %s" % ob))
            if after_restart is not None:
                clear, before = after_restart
                if clear and (o["c"] != 0 or o["m"]):
                    out.append(("clear", "restart(true) did not empty the snapshot immediately: %s" % ob))
                if not clear and before is not None and (o["p"], o["c"], o["m"]) != (before["p"], before["c"], before["m"]):
                    out.append(("keep", "restart(false) changed the snapshot before any run over the new stream completed: before %s after %s" % (before, ob)))
            if win is not None and win["ref"] is None:
                win["ref"] = o
            elif win is not None and after_restart is None:
                ref = win["ref"]
                if (o["c"], o["m"]) != (ref["c"], ref["m"]) or (ref["p"] is not None and o["p"] != ref["p"]):
                    why = ("no tick has spawned a run since the restart" if not win["spawn"] else
                           "the first run over the new stream has not released the worker lock yet" if not win["unlocked"] else
                           "no tick has completed since the first run over the new stream released the worker lock")
                    old = ""
                    if s is not None and 0 <= s < tr.stream:
                        old = " - it contains items of the OLD stream %d (current stream %d)" % (s, tr.stream)
                    if win["clear"]:
                        out.append(("clear", "after restart(true) (event %d) the snapshot is not empty any more although no run over the new stream can have been picked up (%s)%s: %s" % (win["r"], why, old, ob)))
                    else:
                        out.append(("keep", "after restart(false) (event %d) the snapshot changed although no run over the new stream can have been picked up (%s)%s: at the restart %s now %s" % (
                            win["r"], why, old, {x: ref[x] for x in ("p", "c", "m")}, ob)))
            # whatever ticks and runs happened since the restart: a snapshot that consists of items of an OLD stream is
            # either impossible (restart(true)) or the very snapshot the restart found (restart(false)) - a run over
            # the old stream (old items, late pushes through old injectors) must never be picked up again
            if kept is not None and win is None and o["m"] and s is not None:
                ss = snapshot_streams(tr, o)
                if ss and all(x < tr.stream for x in ss):
                    ref = kept["ref"]
                    if kept["clear"]:
                        out.append(("old_stream", "after restart(true) (event %d) a later snapshot consists of items of the OLD stream %d (current stream %d): the worker is still matching the stream the restart disconnected: %s" % (
                            kept["r"], ss[-1], tr.stream, ob)))
                    elif ref is not None and (o["c"], o["m"]) != (ref["c"], ref["m"]):
                        out.append(("old_stream", "after restart(false) (event %d) a later snapshot consists of items of the OLD stream %d (current stream %d) and is not the snapshot the restart found (%s): a run over the disconnected stream was picked up, "
                                    "items injected before the restart / through old injectors show up and the new stream's items do not: %s" % (kept["r"], ss[-1], tr.stream, {x: ref[x] for x in ("c", "m")}, ob)))
            last = o
        if p[0] in UT and ob.startswith("T") and len(ob) == 3:
            after_restart = None
            last = None
            if win is not None and win["unlocked"]:
                win = None
    return out


def c20(line, obs, sc, ln):
    out = []
    for k, ev, ob, tr in walk(line, obs):
        if ob.startswith("O "):
            o = ncommon.parse_obs(ob)
            if o["inj"] != tr.live_injectors():
                out.append(("count", "active_injectors() = %d but %d injector handles of the current stream are alive: %s" % (o["inj"], tr.live_injectors(), ob)))
    return out


def c19(line, obs, sc, ln):
    out = []
    last = None
    pending = None    # (changed, running, published_before_begin, pattern at begin)
    pub_at_begin = 0
    for k, ev, ob, tr in walk(line, obs):
        p = ev.split(" ")
        if p[0] == "restart":
            last = None
            if p[1] == "1":
                # restart(true) empties the snapshot: the status of the tick before it no longer describes
                # what the next observation sees (it did describe the snapshot the tick returned with)
                pending = None
        if p[0] == "tick" and ob == "Ybegin":
            pub_at_begin = len(tr.published.get(tr.stream, set()))
            pat_at_begin = tr.pattern
            snap_before = last
        if p[0] in UT and ob.startswith("T") and len(ob) == 3:
            pending = (ob[1] == "1", ob[2] == "1", pub_at_begin, pat_at_begin, snap_before)
            last = None
        if ob.startswith("O "):
            o = ncommon.parse_obs(ob)
            if pending is not None:
                changed, running, pubs, pat, before = pending
                if not changed and before is not None and (o["p"], o["c"], o["m"]) != (before["p"], before["c"], before["m"]):
                    out.append(("unchanged", "tick reported changed=false but the snapshot differs: before %s after %s" % (before, ob)))
                if not running:
                    if o["c"] < pubs:
                        out.append(("idle_count", "tick reported running=false but only %d of the %d items whose push had completed before the call are counted: %s" % (o["c"], pubs, ob)))
                    if o["p"] != pat:
                        out.append(("idle_pattern", "tick reported running=false but the snapshot pattern (%d) is not the matcher's current pattern (%d): %s" % (o["p"], pat, ob)))
                pending = None
            last = o
    return out


def from_scratch(items, pat, sc, ln):
    exp = []
    for idx, g in enumerate(items):
        s = 0 if pat == 0 else sc.get((pat, text_of(g)))
        if s is not None:
            exp.append((s, idx, ln[text_of(g)]))
    if pat != 0:
        exp.sort(key=lambda t: (-t[0], t[2], t[1]))
    return [(s, i) for s, i, _ in exp]


def c07(line, obs, sc, ln):
    """at the end of a history that wound down to quiescence the snapshot equals the from-scratch result;
    the same at every quiescent point inside the history: an observation after a tick that reported
    running=false, when every item reserved in the current stream had been published before that tick began
    and nothing was reserved, edited or restarted since"""
    out = []
    final = None
    last_tick = None
    begin = None      # state at the begin of the latest tick: (stream, reserved, all published)
    quiet = None      # the same, for the latest completed tick if it reported running=false and nothing happened since
    mid = []          # (observation index, message)
    for k, ev, ob, tr in walk(line, obs):
        p0 = ev.split(" ")[0]
        if p0 == "tick" and ob == "Ybegin":
            its = tr.items.get(tr.stream, [])
            begin = (tr.stream, len(its), len(tr.published.get(tr.stream, set())) == len(its))
            quiet = None
        if p0 in ("edit", "restart"):
            quiet = None
        if p0 in UT and ob.startswith("T") and len(ob) == 3:
            last_tick = ob
            quiet = begin if (ob[2] == "0" and begin is not None and begin[2]) else None
        if ob.startswith("O "):
            final = (ncommon.parse_obs(ob), ob, k)
            if quiet is not None:
                its = tr.items.get(tr.stream, [])
                if quiet[0] == tr.stream and quiet[1] == len(its):
                    o = final[0]
                    expm = from_scratch(its, tr.pattern, sc, ln)
                    if o["p"] != tr.pattern or o["c"] != len(its) or o["m"] != expm:
                        mid.append((k, "quiescent snapshot (observation %d: the preceding tick reported running=false, all %d items of the stream were published before it began, no edit since) differs from the from-scratch result for pattern %r: expected count %d matches %s, got %s" % (
                            k, len(its), ncommon.PATTERNS[tr.pattern], len(its), expm, ob)))
    reported = None
    if not (final is None or last_tick is None or last_tick[2] != "0") and not any(t["stage"] != 2 for t in tr.pushes.values()):
        o, ob, reported_k = final
        items = tr.items.get(tr.stream, [])
        pat = tr.pattern
        expm = from_scratch(items, pat, sc, ln)
        if o["p"] != pat or o["c"] != len(items) or o["m"] != expm:
            reported = reported_k
            out.append(("converge", "quiescent snapshot differs from the from-scratch result for pattern %r over %d items: expected count %d matches %s, got %s" % (
                ncommon.PATTERNS[pat], len(items), len(items), expm, ob)))
    for k, msg in mid[:3]:
        if k != reported:
            out.append(("converge", msg))
    return out


POST_UNLOCK = ("Yunlocked", "Ybefore_notify", "Ydone")


def c13(line, obs, sc, ln, mobs=None):
    """a tick that returns running=true is followed by a worker notification issued after the run it
    refers to has released the lock - unless a later tick (or restart) supersedes it first.
    mobs: the protocol model's observations of the same history (lock state at the post-unlock sites)"""
    out = []
    if mobs is not None:
        # the run reads the notification flag / notifies / returns only AFTER it has released the worker lock:
        # at these sites the lock may only be held by somebody else (a later tick, the next queued run), which
        # the model tracks.  Compared only while implementation and model agree on everything before.
        evs_ = line.split(";")
        for k in range(min(len(evs_), len(obs), len(mobs))):
            if obs[k] != mobs[k]:
                if evs_[k] == "run" and obs[k].endswith("!locked") and obs[k][:-len("!locked")] == mobs[k] and mobs[k] in POST_UNLOCK:
                    what = {"Yunlocked": "is about to read the notification flag (run.unlocked)", "Ybefore_notify": "is about to call notify (run.before_notify)",
                            "Ydone": "has notified / is returning (run.done)"}[mobs[k]]
                    out.append(("notify_under_lock", "at event %d the background run %s while the worker lock is STILL HELD, and no tick or queued run can hold it at this point of the history "
                                "(protocol model: lock free): the results are not available to a tick woken by the notification, and a tick(0) racing it reports running without a later wake-up" % (k, what)))
                break
    evs = line.split(";")
    n = min(len(evs), len(obs))
    for k in range(n):
        if not (evs[k] in UT and len(obs[k]) == 3 and obs[k][0] == "T" and obs[k][2] == "1"):
            continue
        b = max(j for j in range(k + 1) if evs[j].startswith("tick"))
        # the run this tick refers to: the one it spawned last, or the one holding the lock when its try-lock failed
        spawn = [j for j in range(b, k + 1) if evs[j] in UT and obs[j] == "Ybefore_spawn"]
        failed = [j for j in range(b, k + 1) if evs[j] in UT and obs[j] == "Ytry_failed"]
        ref = max(spawn + failed) if spawn + failed else b
        nxt = next((j for j in range(k + 1, n) if evs[j].startswith("tick") or evs[j].startswith("restart")), n)
        u = next((j for j in range(ref, n) if evs[j] == "run" and obs[j].startswith("Yunlocked")), None)
        if u is None or u >= nxt:
            continue
        v = next((j for j in range(u + 1, n) if evs[j] == "run"), None)
        if v is None or v >= nxt:
            continue
        if not obs[v].startswith("Ybefore_notify"):
            out.append(("lost", "tick (events %d..%d) returned running=true; the run it refers to released the lock at event %d and finished at event %d WITHOUT notifying, before any later tick or restart" % (b, k, u, v)))
    # every push or extend calls notify after the new items are visible: the harness's notify callback, when it is
    # called on an injector thread, looks at what that thread's call has injected so far (reserved range, injected_items(),
    # readability of every item of the call) and the thread reports how often it was called; anything but "exactly once,
    # everything visible" is appended to the thread's result as `!notify(...)`
    for k in range(n):
        if evs[k].startswith("st ") and "!notify(" in obs[k]:
            t = evs[k].split(" ")[1]
            start = next((e for e in evs[:k] if (e.startswith("push ") or e.startswith("ext ")) and e.split(" ")[1] == t), "?")
            why = obs[k][obs[k].index("!notify(") + 8:].rstrip(")")
            what = "Injector::extend" if start.startswith("ext") else "Injector::push"
            if why == "never":
                msg = "%s (`%s`) returned at event %d without calling notify" % (what, start, k)
            elif why.endswith("_calls"):
                msg = "%s (`%s`) called notify %s times (event %d)" % (what, start, why.split("_")[0], k)
            else:
                msg = ("%s (`%s`, completed at event %d) called notify BEFORE the new items were visible: inside the notify callback %s - "
                       "a tick made in response to that notification does not see the items and nothing notifies again once they are in" % (what, start, k, why.replace(",", ", ")))
            out.append(("notify_visibility", msg))
    return out
