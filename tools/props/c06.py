"""C06: see DESIGN.md section 6; protocol histories shared with the other worker/tick properties."""
import ncommon
import noracles
from ncommon import prepare, replay, TRUSTED, ASSUMPTIONS  # noqa


def run(ctx, broken):
    return ncommon.generic(ctx, noracles.c06, ncommon.RULE, extra_seed=6)


def known(f, kf):
    for k in kf.get("known", []):
        if k.get("property") == "C06" and k.get("class") == f.get("class"):
            return k
    return None
