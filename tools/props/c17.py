"""C17: string conversion keeps the documented grapheme guarantees.

Correspondence: the real Utf32Str / Utf32String / chars::graphemes (harness `hm utf32`) against the extracted
model of Model/Utf32.v (`driver utf32`), on the same case file, line by line.  The grapheme segmentation
(unicode-segmentation crate) and char::escape_debug (std) are INPUTS of the model: a first harness pass
(`hm utf32-seg`) obtains them from the real crates and they are written into the case lines.
Oracle: the clauses of the property (= the statements of Props/C17.v) evaluated in Python on the
implementation's output, plus the hypotheses the theorems make about the segmentation."""
import itertools
import json
import os
import random
import shutil

import vlib

TRUSTED = [
    "unicode-segmentation (UAX #29 extended grapheme clusters) is NOT modelled: the segmentation of every case is obtained from the real crate by the harness and is an input of the model; the theorems assume of it only: clusters concatenate to the text, no cluster is empty, and (for the Ascii-form length) an all-ASCII CR-LF-free text has single-code-point clusters. All three are checked on every case, the last one exhaustively for all 128^2 ASCII pairs, and 20 known-answer segmentations are checked",
    "std: str::is_ascii, memmem::find (modelled by specification), slice indexing (panic iff out of range), char::escape_debug (an input of the Debug model, obtained from std by the harness), the RangeBounds impls of the native range types",
    "UTF-8 encoding is not modelled (strings are code-point lists; for an all-ASCII string bytes = code points)",
    "Utf32Str::first / Utf32Str::last are pub(crate) and not reachable from the harness (no facade entry): modelled and proved, tied to the code by reading only",
]
ASSUMPTIONS = [
    "default cargo features (unicode-segmentation on); 64-bit usize",
    "strings shorter than 2^64 characters; shorter than 2^32 for Utf32String::slice_u32 (theorem C17_slice_u32_limit shows the limit is real: `..` of a 2^32-character string is empty)",
    "invalid ranges are outside the property; for them the model reproduces the panics of the dev profile and the wrap-arounds of the release profile (both compared in the thorough tier)",
]

# ---- alphabets: one representative set per Grapheme_Cluster_Break class ------------------------------------
CR, LF = 13, 10
ASCII = [ord(c) for c in "abzAZ09 _-/.!~\t"] + [0, 127, CR, LF]
CONTROL = [0xAD, 0x200B, 0x2028, 0xFEFF, 0x85, 0xE0001]
EXTEND = [0x301, 0x308, 0x345, 0x20DD, 0x200C, 0xFE0F, 0x1F3FD, 0xE0067, 0x93C]
ZWJ = 0x200D
SPACING = [0x903, 0x93E, 0xE33]
PREPEND = [0x600, 0x6DD, 0x110BD, 0xD4E]
HL, HV, HT = [0x1100, 0x115F, 0xA960], [0x1161, 0x11A2, 0xD7B0], [0x11A8, 0x11FF, 0xD7CB]
HLV, HLVT = [0xAC00, 0xAC1C], [0xAC01, 0xD7A3]
RI = [0x1F1E6, 0x1F1E9, 0x1F1EA, 0x1F1FF]
PICT = [0x1F469, 0x1F468, 0x1F467, 0x2764, 0xA9, 0x1F3F3, 0x1F308, 0x1F9D1, 0x1F44D]
INDIC_C, VIRAMA = [0x915, 0x937, 0x924], 0x94D
OTHER = [0xE4, 0xFC, 0xDF, 0x4F60, 0x1D11E, 0x10FFFF, 0xD7FF, 0xE000, 0xFFFD, 0x378, 0x3A3, 0x80, 0xFF]
BASES = [ord(c) for c in "aeuoAZ1 "] + OTHER[:6]

# known-answer segmentations (UAX #29, independent of the crate): text -> clusters
KNOWN_SEG = [
    ([0x65, 0x301], [[0x65, 0x301]]),
    ([0x75, 0x308, 0x61], [[0x75, 0x308], [0x61]]),
    ([CR, LF], [[CR, LF]]),
    ([LF, CR], [[LF], [CR]]),
    ([CR, CR, LF, LF], [[CR], [CR, LF], [LF]]),
    ([0x61, CR, LF, 0x301], [[0x61], [CR, LF], [0x301]]),
    ([0x1F1E9, 0x1F1EA, 0x1F1EB, 0x1F1F7], [[0x1F1E9, 0x1F1EA], [0x1F1EB, 0x1F1F7]]),
    ([0x1F1E9, 0x1F1EA, 0x1F1EB], [[0x1F1E9, 0x1F1EA], [0x1F1EB]]),
    ([0x1F468, ZWJ, 0x1F469, ZWJ, 0x1F467], [[0x1F468, ZWJ, 0x1F469, ZWJ, 0x1F467]]),
    ([0x1F44D, 0x1F3FD], [[0x1F44D, 0x1F3FD]]),
    ([0x1100, 0x1161, 0x11A8], [[0x1100, 0x1161, 0x11A8]]),
    ([0xAC00, 0x11A8, 0x1100], [[0xAC00, 0x11A8], [0x1100]]),
    ([0xAC01, 0x1161], [[0xAC01], [0x1161]]),
    ([0x61, ZWJ, 0x62], [[0x61, ZWJ], [0x62]]),
    ([0x600, 0x31], [[0x600, 0x31]]),
    ([0x915, 0x903], [[0x915, 0x903]]),
    ([0x61, 0x62], [[0x61], [0x62]]),
    ([0x301], [[0x301]]),
    ([0, 0x301], [[0], [0x301]]),
    ([0x2764, 0xFE0F, ZWJ, 0x1F468], [[0x2764, 0xFE0F, ZWJ, 0x1F468]]),
]


def cps(l):
    return ",".join(str(c) for c in l) if l else "-"


def num(v):
    return str(v) if v < (1 << 31) else "x%x" % v


def unnum(s):
    return int(s[1:], 16) if s.startswith("x") else int(s)


def parse_cps(s):
    return [] if s == "-" else [int(x) for x in s.split(",")]


def show_text(l, maxlen=40):
    t = "".join(chr(c) for c in l[:maxlen])
    return "%s%s [%s]" % (json.dumps(t), "..." if len(l) > maxlen else "", " ".join("U+%04X" % c for c in l[:maxlen]))


# ---- generators ------------------------------------------------------------------------------------------
def cluster_template(rng):
    """a code-point sequence meant to be one (sometimes two) grapheme cluster(s)"""
    k = rng.randrange(16)
    if k == 0:
        return [rng.choice(ASCII)]
    if k == 1:
        return [rng.choice(BASES)] + [rng.choice(EXTEND + SPACING) for _ in range(rng.randint(1, 3))]
    if k == 2:
        return rng.choice([[CR, LF], [CR], [LF], [LF, CR], [CR, CR, LF], [CR, LF, LF]])
    if k == 3:
        out = [rng.choice(PICT)]
        for _ in range(rng.randint(1, 3)):
            if rng.random() < 0.3:
                out.append(0xFE0F)
            out += [ZWJ, rng.choice(PICT)]
        return out
    if k == 4:
        return [rng.choice(PICT), rng.choice([0x1F3FD, 0xFE0F])]
    if k == 5:
        return [rng.choice(RI) for _ in range(rng.choice([1, 2, 2, 2, 3, 4, 5]))]
    if k == 6:
        return [rng.choice(HL) for _ in range(rng.randint(1, 2))] + [rng.choice(HV) for _ in range(rng.randint(0, 2))] + [rng.choice(HT) for _ in range(rng.randint(0, 2))]
    if k == 7:
        return [rng.choice(HLV + HLVT)] + [rng.choice(HV + HT) for _ in range(rng.randint(0, 2))]
    if k == 8:
        return [rng.choice(PREPEND)] + ([rng.choice(BASES)] if rng.random() < 0.8 else [])
    if k == 9:
        return [rng.choice(INDIC_C), VIRAMA, rng.choice(INDIC_C)] + ([rng.choice(SPACING)] if rng.random() < 0.3 else [])
    if k == 10:
        return [rng.choice(CONTROL)]
    if k == 11:
        return [rng.choice(EXTEND + [ZWJ])]
    if k == 12:
        return [0x1F3F4, 0xE0067, 0xE0062, 0xE007F][: rng.randint(2, 4)]
    if k == 13:
        return [rng.choice(OTHER)]
    if k == 14:
        return [ord(c) for c in rng.choice(["foo", "bar/baz", "Hello World", "a b", "x\ty", "src/main.rs"])]
    return [rng.choice(BASES), ZWJ] + ([rng.choice(BASES + PICT)] if rng.random() < 0.7 else [])


def random_scalar(rng):
    while True:
        c = rng.choice([rng.randrange(0x80), rng.randrange(0x800), rng.randrange(0x10000), rng.randrange(0x110000)])
        if not 0xD800 <= c <= 0xDFFF:
            return c


def boundary_sources(seed):
    """long all-ASCII strings (60..200 bytes) with CR LF, lone CR, lone LF, LF CR and CR CR LF placed at every
    offset within 2 of a multiple of 8 (hence of 16, 32, 64, 128: offsets 6..10, ..., 62..66, ..., 126..130, ...,
    190..194), i.e. ending in / straddling / starting at every block boundary a chunked or SIMD scan may use;
    plus strings with several CR LF pairs, all on 64-byte boundaries.  The offsets are fixed, the filler
    characters and lengths derive from the seed."""
    rng = random.Random(seed * 2654435761 + 171)
    fill = [c for c in range(32, 127)] + [9]
    out = []

    def make(L, inserts):
        t = [rng.choice(fill) for _ in range(L)]
        for p, ins in inserts:
            t[p:p + len(ins)] = ins
        return t[:max(L, max(p + len(ins) for p, ins in inserts))]

    offs = sorted({m + d for m in range(8, 193, 8) for d in (-2, -1, 0, 1, 2)})
    for p in offs:
        for ins in ([CR, LF], [CR], [LF], [LF, CR], [CR, CR, LF]):
            if len(ins) > 1 and ins != [CR, LF] and min(p % 16, 16 - p % 16) > 2:
                continue   # the two decoy arrangements only around multiples of 16
            lo = max(60, p + len(ins))
            lens = [lo if (p + len(ins)) % 3 == 0 else rng.randint(lo, 200)]
            if ins == [CR, LF]:
                lens.append(lo if lens[0] != lo else rng.randint(lo, 200))   # also: the pair ends the string
            for L in lens:
                out.append(("boundary", make(L, [(p, ins)])))
    for step in (8, 16, 32, 64, 128):  # several pairs, each on the same kind of boundary
        for d in (-2, -1, 0):
            ps = [m + d for m in range(step, 197, step)][:6]
            if ps:
                out.append(("boundary", make(rng.randint(max(60, ps[-1] + 2), 200), [(p, [CR, LF]) for p in ps])))
    out.append(("boundary", make(200, [(63, [CR, LF]), (127, [CR, LF]), (191, [CR, LF])])))
    out.append(("boundary", make(130, [(63, [CR]), (64, [LF]), (127, [CR]), (128, [LF])])))
    return out


def gen_sources(seed, tier):
    """list of (stream, text) ; everything derives from the seed"""
    rng = random.Random(seed * 7919 + 17)
    out = []
    n = 1200 if tier == "quick" else 12000
    for _ in range(n):  # structured: concatenation of cluster templates (mostly valid, non-trivial)
        t = []
        for _ in range(rng.choice([0, 1, 1, 2, 2, 3, 4, 6, 9])):
            t += cluster_template(rng)
        out.append(("structured", t))
    for _ in range(n // 2):  # the dominant case in practice: plain ASCII, sometimes with line ends
        L = rng.choice([0, 1, 2, 3, 5, 8, 13, 40])
        t = [rng.choice(ASCII) for _ in range(L)]
        out.append(("ascii", t))
    crlf_alpha = [CR, LF, 0x61, 0x301, 0xE4]
    for L in range(0, 5):  # CR / LF in every arrangement
        for t in itertools.product(crlf_alpha, repeat=L):
            out.append(("crlf", list(t)))
    for a in range(128):  # every ASCII pair: the singleton-cluster hypothesis, exhaustively
        out.append(("ascii1", [a]))
        for b in range(128):
            out.append(("ascii2", [a, b]))
    for _ in range(n // 3):  # malformed stream: arbitrary scalar soup, degenerate starts, long strings
        L = rng.choice([1, 2, 3, 4, 6, 10]) if rng.random() < 0.9 else rng.randint(50, 300)
        t = [random_scalar(rng) if rng.random() < 0.6 else rng.choice(EXTEND + [ZWJ] + RI + CONTROL + [CR, LF]) for _ in range(L)]
        out.append(("soup", t))
    for t, _ in KNOWN_SEG:
        out.append(("known", list(t)))
    out += boundary_sources(seed)
    if tier == "thorough":
        alpha = [0x61, CR, LF, 0x301, ZWJ, 0x1F469, 0x1F1E9, 0xE4, 0x1100, 0x1161]
        rot = seed % len(alpha)
        alpha = alpha[rot:] + alpha[:rot]
        for L in range(0, 5):
            for t in itertools.product(alpha, repeat=L):
                out.append(("exhaustive", list(t)))
    return out


def all_ranges(length):
    """every RangeBounds shape with every bound in 0..=length+1 (the canonical `*` enumeration)"""
    out = []
    for sf in "IEU":
        for ef in "IEU":
            ss = [0] if sf == "U" else range(length + 2)
            es = [0] if ef == "U" else range(length + 2)
            for s in ss:
                for e in es:
                    out.append((sf, s, ef, e))
    return out


BIG = [(1 << 32) - 1, (1 << 32) - 2, (1 << 32), (1 << 64) - 1, (1 << 64) - 2, (1 << 63), (1 << 31)]


def malformed_ranges(rng, length):
    out = []
    for _ in range(6):
        sf, ef = rng.choice("IEU"), rng.choice("IEU")
        s = rng.choice(BIG + [0, 1, length, length + 1])
        e = rng.choice(BIG + [0, 1, length, length + 1])
        out.append((sf, s, ef, e))
    return out


def ranges_field(rs):
    return ";".join("%s%s:%s:%s" % (sf, ef, num(s), num(e)) for sf, s, ef, e in rs) if rs else "-"


def expected_len(text, clusters):
    if all(c < 128 for c in text) and not any(text[i] == CR and text[i + 1] == LF for i in range(len(text) - 1)):
        return len(text)
    return len(clusters)


def build_cases(seed, tier, sources, segs):
    """case lines + per-line metadata"""
    rng = random.Random(seed * 104729 + 3)
    lines, meta = [], []
    for (stream, text), (clusters, esc_field, cl_field) in zip(sources, segs):
        L = expected_len(text, clusters)
        prior = [rng.choice([0x78, 0x4F60, 0x301, LF]) for _ in range(rng.choice([0, 0, 1, 3, L + 2]))]
        sched = "".join(rng.choice("FB") for _ in range(L + 2)) if stream not in ("ascii2", "ascii1") else "FB"
        if stream in ("ascii2", "ascii1"):
            rs = [("U", 0, "U", 0)] if stream == "ascii1" else []
        elif L <= (4 if tier == "quick" else 5):
            rs = all_ranges(L) + (malformed_ranges(rng, L) if stream != "exhaustive" else [])
        else:
            rs = []
            for _ in range(10):
                a, b = sorted((rng.randint(0, L), rng.randint(0, L)))
                rs.append((rng.choice("IEU"), a, rng.choice("IEU"), b))
            rs += malformed_ranges(rng, L)
        lines.append("T %s %s %s %s %s %s" % (cps(text), cl_field, cps(prior), esc_field, sched or "-", ranges_field(rs)))
        meta.append({"stream": stream, "text": text, "clusters": clusters, "prior": prior, "sched": sched, "ranges": rs})
    return lines, meta


def direct_sources(seed, tier):
    """directly constructed variants (the documented 'unknown origin' strings), incl. malformed Ascii content"""
    rng = random.Random(seed * 31337 + 5)
    out = []
    n = 150 if tier == "quick" else 1500
    for _ in range(n):
        L = rng.choice([0, 1, 2, 3, 4, 5])
        if rng.random() < 0.5:
            pool = ASCII + ([0x80, 0xC3, 0xE4, 0xFF] if rng.random() < 0.4 else [])
            out.append(("A", [rng.choice(pool) for _ in range(L)]))
        else:
            out.append(("U", [rng.choice(ASCII + OTHER + EXTEND + RI + [ZWJ]) for _ in range(L)]))
    out += [("A", []), ("U", []), ("A", [CR, LF]), ("U", [0x61]), ("A", [0xFF])]
    return out


# ---- running ---------------------------------------------------------------------------------------------
# fingerprints (comment/whitespace-normalised source) of the hand-modelled code the model was written
# against.  A different fingerprint is not an alarm: it switches the correspondence run to the thorough
# generators even in the quick tier, because that is when the hand model may have drifted.
MODELLED_AGAINST = {"matcher/src/utf32_str.rs": "5aa43d419b4f4d85", "matcher/src/chars.rs::graphemes": "2937e08e325f18fd"}


def source_fingerprints():
    import hashlib
    import re
    import sys
    sys.path.insert(0, os.path.join(vlib.ROOT, "tools"))
    import translate
    out = {}
    try:
        src = translate.strip_comments(translate.read("matcher/src/utf32_str.rs"))
        out["matcher/src/utf32_str.rs"] = hashlib.sha256(re.sub(r"\s+", " ", src).encode()).hexdigest()[:16]
    except Exception:
        out["matcher/src/utf32_str.rs"] = None
    out["matcher/src/chars.rs::graphemes"] = translate.fingerprint("matcher/src/chars.rs", r"pub fn graphemes")
    return out


def prepare(ctx):
    ctx["hm"] = ctx["build"]("hm")
    fp = source_fingerprints()
    ctx["c17_fingerprints"] = fp
    ctx["c17_drifted"] = sorted(k for k, v in MODELLED_AGAINST.items() if fp.get(k) != v)
    if ctx["tier"] == "thorough":
        ctx["hm_release"] = ctx["build"]("hm", True)


def run_sharded(binary, sub, lines, tag, extra=()):
    """write lines to shard files, run `binary sub shard extra...` in parallel; returns (output lines, errors)"""
    d = os.path.join(vlib.SCRATCH, "c17_%d_%s" % (os.getpid(), tag))
    os.makedirs(d, exist_ok=True)
    nsh = max(1, min(vlib.NPROC, len(lines) // 200 + 1))
    size = (len(lines) + nsh - 1) // nsh
    cmds = []
    for i in range(nsh):
        p = os.path.join(d, "c%d" % i)
        with open(p, "w") as f:
            f.write("".join(l + "\n" for l in lines[i * size:(i + 1) * size]))
        cmds.append([binary, sub, p] + list(extra))
    res = vlib.parallel(cmds, tag="c17" + tag)
    out, errs = [], []
    for i, (rc, o, e) in enumerate(res):
        got = o.splitlines()
        want = len(lines[i * size:(i + 1) * size])
        if rc != 0 or len(got) != want:
            errs.append("%s %s shard %d: rc=%s, %d lines for %d cases: %s" % (os.path.basename(binary), sub, i, rc, len(got), want, e[-300:]))
            got = (got + ["X missing-output"] * want)[:want]
        out += got
    shutil.rmtree(d, ignore_errors=True)
    return out, errs


def parse_seg(line):
    cl_field, esc_field = line.split(" ")
    clusters = [] if cl_field == "-" else [parse_cps(g) for g in cl_field.split("|")]
    return clusters, esc_field, cl_field


def parse_esc(esc_field):
    d = {}
    if esc_field != "-":
        for item in esc_field.split(";"):
            c, e = item.split(":")
            d[int(c)] = parse_cps(e)
    return d


def fields(line):
    d = {}
    for kv in line.split(" "):
        if "=" in kv:
            k, v = kv.split("=", 1)
            d[k] = v
        else:
            d[kv] = ""
    return d


def parse_raw(r):
    """'A:1,2' -> ('A',[1,2]) ; 'P' -> None"""
    if r is None or ":" not in r:
        return None
    t, c = r.split(":", 1)
    return t, parse_cps(c)


def resolve(rng, length):
    sf, s, ef, e = rng
    lo = s if sf == "I" else s + 1 if sf == "E" else 0
    hi = e + 1 if ef == "I" else e if ef == "E" else length
    return lo, hi


def show_range(rng):
    sf, s, ef, e = rng
    a = {"I": "Included(%d)" % s, "E": "Excluded(%d)" % s, "U": "Unbounded"}[sf]
    b = {"I": "Included(%d)" % e, "E": "Excluded(%d)" % e, "U": "Unbounded"}[ef]
    return "(%s, %s)" % (a, b)


def simulate_drive(content, sched):
    lo, hi = 0, len(content)
    got = []
    for s in sched:
        if lo >= hi:
            got.append("N")
        elif s == "F":
            got.append(str(content[lo]))
            lo += 1
        else:
            hi -= 1
            got.append(str(content[hi]))
    return "%s:%s" % (",".join(got) if got else "-", cps(content[lo:hi]))


METHODS = ["Utf32Str::slice", "Utf32Str::slice_u32", "Utf32String::slice", "Utf32String::slice_u32"]


def view_clauses(f, tag, content, esc, sched, ranges, add):
    """the accessor clauses of the property on one string value with the given variant tag and content"""
    n = 0
    L = len(content)
    exp = {
        "len": str(L), "empty": "1" if L == 0 else "0", "ascii": "1" if tag == "A" else "0",
        "chars": cps(content), "rev": cps(content[::-1]), "drive": simulate_drive(content, sched),
        "disp": cps(content), "dbg": cps([34] + [x for c in content for x in esc.get(c, [c])] + [34]),
        "get": ",".join([str(c) for c in content] + ["P", "P", "P"]),
    }
    for k, v in exp.items():
        n += 1
        if f.get(k) != v:
            add("views", "%s gives `%s`, the content %s requires `%s`" % (k, (f.get(k) or "")[:80], cps(content)[:60], v[:80]))
    if "Slen" in f:
        for k, v in (("Slen", exp["len"]), ("Sempty", exp["empty"]), ("Sdisp", exp["disp"]), ("Sdbg", exp["dbg"])):
            n += 1
            if f.get(k) != v:
                add("views", "Utf32String %s gives `%s`, the content requires `%s`" % (k[1:], (f.get(k) or "")[:80], v[:80]))
    nvalid = 0
    if ranges:
        items = f.get("sl", "").split(";")
        if len(items) != len(ranges):
            add("views", "slice results missing: %d for %d ranges" % (len(items), len(ranges)))
        else:
            for rng, item in zip(ranges, items):
                lo, hi = resolve(rng, L)
                if not (lo <= hi <= L):
                    continue  # invalid range: outside the property (the model comparison still covers it)
                nvalid += 1
                want = "%s:%s" % (tag, cps(content[lo:hi]))
                for meth, got in zip(METHODS, item.split("/")):
                    if got == "_":
                        continue
                    n += 1
                    if got != want:
                        add("slice", "%s%s on %s:%s gives `%s`, expected `%s`" % (meth, show_range(rng), tag, cps(content)[:60], got[:80], want[:80]))
    return n, nvalid


def oracle_text(m, iline, add):
    """property clauses for a conversion case; returns (#clause evaluations, #valid ranges, nontrivial?)"""
    text, clusters = m["text"], m["clusters"]
    f = fields(iline)
    n = 0
    # hypotheses about the segmentation (trusted crate; checked, reported as their own class)
    ascii_nocrlf = all(c < 128 for c in text) and not any(text[i] == CR and text[i + 1] == LF for i in range(len(text) - 1))
    if [c for g in clusters for c in g] != text or any(not g for g in clusters):
        add("seg-hypothesis", "the crate's clusters %s do not partition the text into non-empty pieces" % clusters)
    if ascii_nocrlf and any(len(g) != 1 for g in clusters):
        add("seg-hypothesis", "an all-ASCII CR-LF-free text has a cluster of several code points: %s" % clusters)
    news = parse_raw(f.get("new"))
    n += 1
    if news is None:
        add("variant", "Utf32Str::new panicked or printed `%s`" % f.get("new"))
        return n, 0, False
    tag, content = news
    if (tag == "A") != ascii_nocrlf:
        pairs = [i for i in range(len(text) - 1) if text[i] == CR and text[i + 1] == LF]
        add("variant", "form is %s but the text is %sASCII without CR LF%s" % ("Ascii" if tag == "A" else "Unicode", "" if ascii_nocrlf else "not ",
                                                                              " (%d code points, CR LF at offset(s) %s)" % (len(text), pairs[:8]) if pairs else ""))
    n += 1
    if tag == "A":
        if content != text:
            add("ascii", "Ascii form holds %s, not the original string" % cps(content)[:80])
    else:
        want = [LF if g == [CR, LF] else g[0] for g in clusters if g]
        if content != want:
            add("unicode", "Unicode form holds %s; first code point per cluster (LF for CR LF) is %s" % (cps(content)[:80], cps(want)[:80]))
    n += 1
    if f.get("len") != str(len(clusters)):
        add("len", "len() = %s but the text has %d grapheme clusters" % (f.get("len"), len(clusters)))
    for k in ("str", "box", "string", "cowb", "cowo"):
        n += 1
        if f.get(k) != f.get("new"):
            add("ctors", "constructor %s gives `%s`, Utf32Str::new gives `%s`" % (k, (f.get(k) or "")[:80], f.get("new")[:80]))
    n += 1
    wantbuf = cps(m["prior"]) if tag == "A" else cps(content)
    if f.get("buf") != wantbuf:
        add("ctors", "buffer after Utf32Str::new holds `%s`, expected `%s`" % ((f.get("buf") or "")[:80], wantbuf[:80]))
    esc = parse_esc(m["esc"])
    nv, nvalid = view_clauses(f, tag, content, esc, m["sched"], m["ranges"], add)
    nontrivial = bool(text) and (tag == "U" or CR in text or LF in text)
    return n + nv, nvalid, nontrivial


def describe(line):
    p = line.split(" ")
    if p[0] == "T":
        return "text %s" % show_text(parse_cps(p[1]))
    return "directly built Utf32Str::%s(%s)" % ("Ascii" if p[2] == "A" else "Unicode", cps(parse_cps(p[1]))[:80])


def diff_fields(io, mo):
    fi, fm = fields(io), fields(mo)
    out = []
    for k in list(fi) + [k for k in fm if k not in fi]:
        if fi.get(k) != fm.get(k):
            a, b = fi.get(k, "<absent>"), fm.get(k, "<absent>")
            if k == "sl":
                ai, bi = a.split(";"), b.split(";")
                j = next((j for j in range(min(len(ai), len(bi))) if ai[j] != bi[j]), None)
                if j is not None:
                    a, b, k = ai[j], bi[j], "sl[#%d]" % j
            out.append("%s: implementation `%s`, model `%s`" % (k, a[:70], b[:70]))
    return "; ".join(out[:3])


def run(ctx, broken):
    hm, drv = ctx["hm"], ctx["driver"]
    seed, tier = ctx["seed"], ctx["tier"]
    if ctx.get("c17_drifted") and tier == "quick":
        tier = "thorough"  # generators only; the release profile is still only built in the thorough tier
        ctx["notes"].append("source fingerprint changed (%s): thorough generators used" % ", ".join(ctx["c17_drifted"]))
    res = {"evaluations": 0, "distinct_nontrivial": 0, "rule": "", "samples": [], "disagreements": [], "failures": [], "extra": {}}
    sources = gen_sources(seed, tier)
    direct = direct_sources(seed, tier)
    seg_out, errs = run_sharded(hm, "utf32-seg", [cps(t) for _, t in sources] + [cps(c) for _, c in direct], "seg")
    for e in errs:
        res["disagreements"].append({"what": "harness error: " + e})
    if errs:
        return res
    segs = [parse_seg(l) for l in seg_out]
    lines, meta = build_cases(seed, tier, sources, segs[:len(sources)])
    for m, s in zip(meta, segs):
        m["esc"] = s[1]
    rng = random.Random(seed * 65537 + 11)
    for (variant, content), s in zip(direct, segs[len(sources):]):
        sched = "".join(rng.choice("FB") for _ in range(len(content) + 2))
        rs = all_ranges(len(content)) + malformed_ranges(rng, len(content))
        lines.append("D %s %s - %s %s %s" % (cps(content), variant, s[1], sched, ranges_field(rs)))
        meta.append({"stream": "direct", "variant": variant, "content": content, "esc": s[1], "sched": sched, "ranges": rs})
    impl, errs = run_sharded(hm, "utf32", lines, "i")
    model, errs_m = run_sharded(drv, "utf32", lines, "m") if drv else ([], [])
    for e in errs + errs_m:
        res["disagreements"].append({"what": "harness/driver error: " + e})
    fails = res["failures"]
    nontrivial = set()
    dist = {}
    nclauses = nvalid_total = nslices = 0
    known_seg = {tuple(t): c for t, c in KNOWN_SEG}
    for k, (line, m, io) in enumerate(zip(lines, meta, impl)):
        if drv and k < len(model) and io != model[k] and len(res["disagreements"]) < 40:
            res["disagreements"].append({"what": "model/implementation disagree on %s -- %s" % (describe(line), diff_fields(io, model[k])), "case": line})

        def add(cls, what, line=line, io=io):
            if len(fails) < 300:
                fails.append({"class": cls, "what": "%s -- %s" % (what, describe(line)), "case": line, "impl": io[:600]})

        if m["stream"] == "direct":
            f = fields(io)
            n, nvalid = view_clauses(f, m["variant"], m["content"], parse_esc(m["esc"]), m["sched"], m["ranges"], add)
            if f.get("raw") != "%s:%s" % (m["variant"], cps(m["content"])):
                add("views", "harness could not build the variant: `%s`" % f.get("raw"))
            nt = bool(m["content"])
            key = ("D", m["variant"], tuple(m["content"]))
        else:
            n, nvalid, nt = oracle_text(m, io, add)
            key = ("T", tuple(m["text"]))
            if tuple(m["text"]) in known_seg and m["clusters"] != known_seg[tuple(m["text"])]:
                add("seg-reference", "the crate segments into %s, UAX #29 says %s" % (m["clusters"], known_seg[tuple(m["text"])]))
        nclauses += n
        nvalid_total += nvalid
        nslices += len(m["ranges"])
        if nt:
            nontrivial.add(key)
        form = io[4:5] if io.startswith("new=") else io[4:5] if io.startswith("raw=") else "?"
        dk = "%s/%s" % (m["stream"], form)
        dist[dk] = dist.get(dk, 0) + 1
    multi = sum(1 for m in meta if m["stream"] != "direct" and any(len(g) > 1 for g in m["clusters"]))
    res["extra"] = {"cases": len(lines), "distribution(stream/form)": dist, "texts_with_multi_code_point_cluster": multi,
                    "ranges_evaluated": nslices, "valid_ranges": nvalid_total, "property_clause_evaluations": nclauses,
                    "fingerprints": ctx.get("c17_fingerprints"), "fingerprints_changed": ctx.get("c17_drifted"), "generator_tier": tier}
    # thorough: the release profile (wrapping arithmetic) against the model with oc = false
    if tier == "thorough" and ctx.get("hm_release") and drv:
        sub = [l for l, m in zip(lines, meta) if m["stream"] in ("structured", "direct", "crlf", "soup")]
        ir, e1 = run_sharded(ctx["hm_release"], "utf32", sub, "ir")
        mr, e2 = run_sharded(drv, "utf32", sub, "mr", extra=["0"])
        for e in e1 + e2:
            res["disagreements"].append({"what": "release run error: " + e})
        for l, a, b in zip(sub, ir, mr):
            if a != b and len(res["disagreements"]) < 40:
                res["disagreements"].append({"what": "release profile: model (wrapping arithmetic) / implementation disagree on %s -- %s" % (describe(l), diff_fields(a, b)), "case": l})
        res["extra"]["release_profile_cases"] = len(sub)
    res["evaluations"] = nclauses
    res["distinct_nontrivial"] = len(nontrivial)
    res["exhaustive"] = False
    res["rule"] = ("every case runs the real Utf32Str::new (with prior buffer content), the five From impls, len/is_empty/is_ascii, chars() forwards, "
                   "reversed and under a random next/next_back schedule, Display, Debug, get(i) for i in 0..len+2 and u32::MAX, and slice/slice_u32 of "
                   "both types (all 9 RangeBounds shapes x all bounds in 0..=len+1 for short strings, sampled + integer-limit bounds otherwise); output compared "
                   "line by line with the extracted model, and every clause of the property evaluated on the implementation's output. Streams: structured "
                   "(concatenated cluster templates: combining marks, ZWJ emoji, flags, Hangul jamo, prepend, Indic conjuncts, controls), ascii, crlf (all strings "
                   "<= 4 over CR LF a U+0301 U+00E4), ascii1/ascii2 (ALL 128 + 128^2 ASCII strings of length 1 and 2), soup (arbitrary scalars, malformed), known "
                   "(20 known-answer segmentations), boundary (all-ASCII strings of 60..200 bytes with CR LF / CR / LF / LF CR / CR CR LF at every offset within 2 of a "
                   "multiple of 8 up to 194, and several CR LF pairs on 8/16/32/64/128-byte boundaries), direct (hand-built variants incl. non-ASCII bytes in the Ascii variant)%s. evaluations = property clause "
                   "evaluations on implementation output. Non-trivial = distinct non-empty text that converts to the Unicode form or contains CR or LF "
                   "(measured on the implementation's output), plus distinct non-empty hand-built values." % (
                       "; exhaustive: ALL strings of length <= 4 over a CR LF U+0301 ZWJ U+1F469 U+1F1E9 U+00E4 U+1100 U+1161 with every range; release profile re-run" if tier == "thorough" else ""))
    step = max(1, len(lines) // 6)
    res["samples"] = [{"case": describe(lines[k]), "implementation": impl[k][:160], "model": (model[k][:160] if k < len(model) else "")} for k in range(0, len(lines), step)][:6]
    return res


def known(f, kf):
    for k in kf.get("known", []):
        if k.get("property") == "C17" and k.get("class") == f.get("class"):
            return k
    return None


def broken_known(b, kf, failures):
    return False


def replay(path):
    d = json.load(open(path))
    print(json.dumps({k: v for k, v in d.items() if k != "failure"}, indent=1)[:3000])
    f = d.get("failure") or {}
    print(f.get("what", ""))
    line = f.get("case")
    if not line:
        return 0
    hm = vlib.build_harness("hm")
    drv = os.path.join(vlib.OCAML, "driver")
    os.makedirs(vlib.SCRATCH, exist_ok=True)
    p = os.path.join(vlib.SCRATCH, "c17_replay_case.txt")
    parts = line.split(" ")
    # the segmentation and escapes are re-obtained from the crates, not taken from the replay file
    open(p, "w").write(parts[1] + "\n")
    seg = vlib.run([hm, "utf32-seg", p])[1].strip()
    print("case:           ", describe(line))
    print("segmentation:   ", seg)
    if seg:
        cl, esc = seg.split(" ")
        parts[4] = esc
        if parts[0] == "T":
            parts[2] = cl
    line = " ".join(parts)
    open(p, "w").write(line + "\n")
    io = vlib.run([hm, "utf32", p])[1].strip()
    mo = vlib.run([drv, "utf32", p])[1].strip()
    print("implementation: ", io)
    print("model:          ", mo)
    fs = []
    if parts[0] == "T":
        clusters, esc_field, _ = parse_seg(seg)
        m = {"text": parse_cps(parts[1]), "clusters": clusters, "prior": parse_cps(parts[3]), "esc": esc_field,
             "sched": "" if parts[5] == "-" else parts[5], "ranges": parse_ranges(parts[6], expected_len(parse_cps(parts[1]), clusters))}
        oracle_text(m, io, lambda c, w: fs.append((c, w)))
    else:
        content = parse_cps(parts[1])
        view_clauses(fields(io), parts[2], content, parse_esc(parts[4]), "" if parts[5] == "-" else parts[5], parse_ranges(parts[6], len(content)), lambda c, w: fs.append((c, w)))
    print("oracle:          %s" % ("all clauses hold" if not fs else "; ".join("%s: %s" % x for x in fs[:6])))
    print("agreement:       %s" % ("model = implementation" if io == mo else diff_fields(io, mo)))
    return 0


def parse_ranges(field, length):
    if field == "-":
        return []
    if field == "*":
        return all_ranges(length)
    out = []
    for item in field.split(";"):
        fm, s, e = item.split(":")
        out.append((fm[0], unnum(s), fm[1], unnum(e)))
    return out
