"""C18: the cancellable parallel sort returns a sorted permutation.

Runs the crate-private par_quicksort (through nucleo::verif::par_quicksort, `hn parsort`) and the extracted Coq
model (`driver parsort`) on the same case file.
  case line:  <threads> <k|-> <mode> <score:idx:len,...|->      (see harness/hn/src/parsort_cmd.rs)
Correspondence: when the cancel flag is never raised (k = -), raised before the call (k = 0) or at the first comparator
call (k = 1), or when the pool has one thread (any k), the returned flag, the final array AND the number of comparator
calls must be EQUAL to the model's -- for the worker's total order (mode T), for a weak order with ties (W), and for
comparators that are not orders at all (L, X): the model performs the same comparisons in the same order, so the final
permutation is determined.  With several threads and a flag raised in mid-sort the load that sees it depends on the
schedule; then the observables the theorems mention are compared (permutation, not-cancelled => sorted).
Oracle (on the implementation's output alone): permutation always; never raised => flag 0 and sorted; flag 1 only if
the flag was raised; flag 0 => sorted; same output for 1, 2 and 8 threads and equal to the unique sorted arrangement
under the worker's total order; no panic; no abort (each deep-recursion case runs in its own process)."""
import json
import os
import random
import subprocess

import vlib

TRUSTED = [
    "rayon::join is modelled as sequential composition of its two closures (they own disjoint halves of split_at_mut and share only the comparator and the AtomicBool); the cancel flag is an oracle nat -> bool (value seen by the k-th Relaxed load)",
    "partition_in_blocks enters the theorems through its contract pib_ok (permutation, mid <= len, first mid elements < pivot <= the rest); its executable model Model.ParSort.partition_in_blocks is tied to the code by exact equality of final arrays (weak / invalid comparators included) and its contract is checked on every generated case, not proved",
    "stack depth / running time are outside the model (lists, structural recursion on fuel); the harness observes aborts of the real code",
    "zero-sized element types (par_quicksort returns false immediately) are outside the model",
]
ASSUMPTIONS = [
    "elements are (score, idx, len) triples; in the worker len is a function of idx (summed column lengths of item idx) and placeholders are (0, u32::MAX)",
    "the comparator is a deterministic function (the harness comparators only add a call counter that raises the flag)",
]
PH = 4294967295
THREADS = (1, 2, 8)


def prepare(ctx):
    ctx["hn"] = ctx["build"]("hn")


# ---- comparators (python copies; the oracle's notion of order) ---------------------------------------------------------
def worker_less(a, b):
    if a[0] != b[0]:
        return a[0] > b[0]
    if a[1] == PH:
        return False
    if b[1] == PH:
        return True
    if a[2] == b[2]:
        return a[1] < b[1]
    return a[2] < b[2]


def less_mode(mode, a, b):
    if mode == "T":
        return worker_less(a, b)
    if mode == "W":
        return a[0] > b[0]
    if mode == "L":
        return a[0] >= b[0]
    return (a[0] * 31 + b[1] * 17 + a[2] + 3 * b[0]) % 5 < 2


def worker_key(e):
    return (-e[0], 1 if e[1] == PH else 0, 0 if e[1] == PH else e[2], 0 if e[1] == PH else e[1])


def is_sorted(mode, arr):
    return all(not less_mode(mode, arr[i + 1], arr[i]) for i in range(len(arr) - 1))


# ---- generators ------------------------------------------------------------------------------------------------------
KINDS = ["random", "desc", "asc", "organ", "few", "equal", "nearly", "saw", "dupruns", "adv", "placeholders"]


def lenf(i):
    return (i * 7 + 3) % 5


def keys(kind, n, rng, adv):
    if kind == "random":
        return [rng.randrange(1000000) for _ in range(n)]
    if kind == "desc":  # already in the comparator's order
        return list(range(n, 0, -1))
    if kind == "asc":  # reversed w.r.t. the comparator
        return list(range(n))
    if kind == "organ":
        return [min(i, n - 1 - i) for i in range(n)]
    if kind == "few":
        m = rng.choice([2, 3, 4, 7])
        return [rng.randrange(m) for _ in range(n)]
    if kind == "equal":
        return [7] * n
    if kind == "nearly":
        ks = list(range(n, 0, -1))
        for _ in range(rng.randrange(1, 7)):
            if n:
                ks[rng.randrange(n)] = rng.randrange(n + 1)
        return ks
    if kind == "saw":
        m = rng.choice([3, 16, 50, 129])
        return [i % m for i in range(n)]
    if kind == "dupruns":
        out = []
        while len(out) < n:
            out += [rng.randrange(n // 8 + 2)] * rng.randrange(1, 40)
        return out[:n]
    if kind == "adv":
        return adv(n)
    return [rng.randrange(50) for _ in range(n)]


def elems(kind, n, rng, adv, total=True):
    ks = keys(kind, n, rng, adv)
    idx = list(range(n))
    if rng.random() < 0.5 and kind != "adv":
        rng.shuffle(idx)
    es = [(k, i, lenf(i)) for k, i in zip(ks, idx)]
    if kind == "placeholders":
        es = [(0, PH, 0) if rng.random() < 0.3 else e for e in es]
    return es


def fmt(es):
    return ",".join("%d:%d:%d" % e for e in es) if es else "-"


def parse_elems(s):
    if s == "-" or not s:
        return []
    return [tuple(int(x) for x in e.split(":")) for e in s.split(",")]


class Adv:
    """McIlroy adversary run through the comparator of the REAL sort (hn parsort-adv N desc); cached per n"""

    def __init__(self, hn):
        self.hn = hn
        self.cache = {}

    def __call__(self, n):
        if n not in self.cache:
            if n == 0:
                self.cache[n] = []
            else:
                rc, out, err, _ = vlib.run([self.hn, "parsort-adv", str(n), "desc"], timeout=120)
                self.cache[n] = [int(x) for x in out.strip().split(",")] if rc == 0 and out.strip() else list(range(n))
        return list(self.cache[n])


QUICK_SIZES = [0, 1, 2, 3, 5, 8, 19, 20, 21, 22, 33, 49, 50, 51, 64, 100, 127, 128, 129, 200, 255, 256, 257, 258, 300, 385, 500, 700,
               1000, 1500, 1999, 2000, 2001, 2002, 2003, 2100, 2500, 3000]


def gen_cases(seed, tier, adv):
    """returns list of dict(line, threads, k, mode, elems, group, stream)"""
    rng = random.Random(seed * 7919 + 18)
    cases = []
    gid = [0]

    def add(es, mode, k, threads, stream, group=None, model=True):
        cases.append({"line": "%d %s %s %s" % (threads, "-" if k is None else k, mode, fmt(es)), "threads": threads, "k": k, "mode": mode,
                      "elems": es, "group": group, "stream": stream, "model": model})

    def size():
        r = rng.random()
        if r < 0.4:
            return rng.choice(QUICK_SIZES)
        if r < 0.65:
            return rng.randrange(0, 400)
        if r < 0.8:
            return rng.randrange(400, 2200)
        return rng.randrange(2001, 3001)

    n_valid, n_weak, n_cancel, n_bad = (160, 160, 150, 110) if tier == "quick" else (500, 500, 500, 300)
    # S1: the worker's total order, the same array under 1, 2 and 8 threads
    for c in range(n_valid):
        kind = KINDS[c % len(KINDS)]
        n = size()
        es = elems(kind, n, rng, adv)
        gid[0] += 1
        for t in THREADS:
            add(es, "T", None, t, "valid", group=gid[0])
    # S2: a weak order with ties (score only): the final permutation is still determined
    for c in range(n_weak):
        kind = KINDS[(c * 3 + 1) % len(KINDS)]
        es = elems(kind, size(), rng, adv)
        add(es, "W", None, rng.choice(THREADS), "weak")
    # S3: cancellation
    for c in range(n_cancel):
        kind = KINDS[(c * 5 + 2) % len(KINDS)]
        n = rng.choice([0, 5, 30, 300, 1999, 2001, 2002, 2050, 2300, 2600, 3000, 3000, rng.randrange(2001, 3001)])
        es = elems(kind, n, rng, adv)
        k = rng.choice([0, 0, 1, 2, 3, 10, max(1, n // 2), max(1, n), max(1, n + n // 3), 2 * n + 5, 5 * n + 1, 11 * n + 1, 100 * n + 7])
        add(es, rng.choice("TTTW"), k, rng.choice((1, 1, 2, 8)), "cancel")
    # S4: malformed -- comparators that are not strict weak orders, len not a function of idx, duplicate idx
    for c in range(n_bad):
        kind = KINDS[(c * 7 + 3) % len(KINDS)]
        es = elems(kind, size(), rng, adv)
        r = c % 4
        if r == 0:
            add(es, "L", None, rng.choice(THREADS), "malformed")
        elif r == 1:
            add(es, "X", None, rng.choice(THREADS), "malformed")
        elif r == 2:
            es = [(s, rng.randrange(max(1, len(es) // 3 + 1)), rng.randrange(3)) for (s, i, l) in es]
            add(es, "T", None, rng.choice(THREADS), "malformed")
        else:
            add(es, rng.choice("LX"), rng.choice([0, 1, 7, 1000, 100000]), rng.choice(THREADS), "malformed")
    # S5: appended items + cancellation in mid-sort: a long prefix that is already in order followed by a disordered tail
    # (what the worker sorts after new items were appended to a sorted match list), mostly below the 2000-element
    # sequential threshold, where `recurse` sorts the shorter side by a nested call whose returned flag it drops and
    # carries on with the longer side.  The flag is raised by the comparator at call k, k a stratified sample over the whole
    # run (about 5.5 n comparisons for this shape, so the last stratum also covers "raised after the sort is done").
    n_app, n_k = (60, 5) if tier == "quick" else (240, 8)
    for c in range(n_app):
        r = rng.random()
        n = rng.randrange(200, 2001) if r < 0.8 else (rng.choice([1500, 1999, 2000, 2001]) if r < 0.9 else rng.randrange(2001, 2600))
        kind = ("desc", "random", "few", "dupruns", "placeholders")[c % 5]
        es = elems(kind, n, rng, adv)
        tail = max(rng.randrange(21, 60), int(n * rng.uniform(0.03, 0.45)))
        variant = c % 3
        if variant != 1:  # every appended item belongs after the prefix; variant 1: appended items belong anywhere
            es.sort(key=worker_key)
        p = n - tail
        pre, tl = sorted(es[:p], key=worker_key), es[p:]
        if variant == 2:  # the tail is itself made of a few ordered runs
            cut = sorted(rng.randrange(len(tl)) for _ in range(rng.randrange(1, 4)))
            runs = [tl[a:b] for a, b in zip([0] + cut, cut + [len(tl)])]
            rng.shuffle(runs)
            tl = [e for run_ in runs for e in run_]
            if tl == es[p:]:
                rng.shuffle(tl)
        else:
            rng.shuffle(tl)
        es = pre + tl
        mode = "W" if c % 7 == 3 else "T"
        span = 6.5 * n
        for j in range(n_k):
            k = 1 + int(span * (j + rng.random()) / n_k)
            add(es, mode, k, rng.choice((1, 1, 1, 2, 8)), "append-cancel")
    if tier != "quick":
        # exhaustive: every array of length <= 7 over 3 scores (idx = position), and every array of length 22..23 over
        # {0,1} restricted to arrays with at most 3 ones (beyond the insertion-sort cutoff)
        import itertools
        for n in range(0, 8):
            for ks in itertools.product(range(3), repeat=n):
                add([(k, i, lenf(i)) for i, k in enumerate(ks)], "T", None, 1, "exhaustive")
        for n in (21, 22, 23):
            for ones in range(0, 4):
                for pos in itertools.combinations(range(n), ones):
                    add([(1 if i in pos else 0, i, lenf(i)) for i in range(n)], "W", None, 1, "exhaustive")
        # large arrays: model up to 100000 (a few), implementation + oracle up to 300000
        for n, kind, model in [(20000, "random", True), (20000, "few", True), (20000, "organ", True), (20000, "dupruns", True),
                               (9000, "adv", True), (60000, "nearly", True), (100000, "random", True), (100000, "few", True),
                               (300000, "random", seed % 2 == 0), (300000, "few", seed % 2 == 1), (300000, "organ", False),
                               (300000, "saw", False), (300000, "dupruns", False), (300000, "asc", False), (300000, "desc", False),
                               (300000, "placeholders", False)]:
            es = elems(kind, n, rng, adv)
            gid[0] += 1
            for t in THREADS:
                add(es, "T", None, t, "large", group=gid[0], model=model and t == 8)
            add(es, "T", rng.choice([n, 5 * n, 10 * n]), 8, "large-cancel", model=False)
    return cases


def pib_cases(seed, tier):
    """slices + pivot for the contract check of the model's partition_in_blocks"""
    rng = random.Random(seed * 31 + 5)
    out = []
    sizes = [0, 1, 2, 3, 127, 128, 129, 255, 256, 257, 258, 383, 384, 385, 511, 512, 513, 640, 700, 1000]
    for c in range(120 if tier == "quick" else 600):
        n = rng.choice(sizes) if c % 2 else rng.randrange(0, 900)
        m = rng.choice([2, 3, 10, 1000])
        es = [(rng.randrange(m), i, lenf(i)) for i in range(n)]
        if c % 5 == 0:
            es.sort(key=lambda e: e[0])
        if c % 7 == 0:
            es.sort(key=lambda e: -e[0])
        p = (rng.randrange(m + 1), PH - 1, 0)
        out.append((rng.choice("TWLX"), p, es))
    return out


# ---- running ---------------------------------------------------------------------------------------------------------
def run_sharded(ctx, cases, tag):
    """returns (impl_lines, model_lines, errors); one output line per case (None when missing)"""
    hn, drv = ctx["hn"], ctx["driver"]
    os.makedirs(vlib.SCRATCH, exist_ok=True)
    # balance shards by size
    nsh = max(1, min(vlib.NPROC, len(cases)))
    order = sorted(range(len(cases)), key=lambda i: -len(cases[i]["elems"]))
    load = [0] * nsh
    shard = [[] for _ in range(nsh)]
    for i in order:
        j = load.index(min(load))
        shard[j].append(i)
        load[j] += len(cases[i]["elems"]) ** 1.3 + 50
    files = []
    mfiles = []
    for j in range(nsh):
        p = os.path.join(vlib.SCRATCH, "ps_%s_%d_%d.txt" % (tag, os.getpid(), j))
        with open(p, "w") as f:
            f.write("\n".join(cases[i]["line"] for i in shard[j]) + "\n")
        files.append(p)
        pm = p + ".m"
        with open(pm, "w") as f:
            f.write("\n".join(cases[i]["line"] for i in shard[j] if cases[i]["model"]) + "\n")
        mfiles.append(pm)
    quick = ctx["tier"] == "quick"
    # a hanging implementation (e.g. a loop that stops making progress) is killed and reported as missing results
    ri = vlib.parallel([[hn, "parsort", f] for f in files], tag=tag + "i", timeout=60 if quick else 1500)
    rm = vlib.parallel([["sh", "-c", 'ulimit -s unlimited 2>/dev/null; exec "$0" parsort "$1"', drv, f] for f in mfiles], tag=tag + "m", timeout=300 if quick else 3000) if drv else None
    impl = [None] * len(cases)
    model = [None] * len(cases)
    errs = []
    for j in range(nsh):
        il = ri[j][1].splitlines()
        if ri[j][0] != 0:
            errs.append("hn parsort %s after %d of %d cases: %s" % ("was killed (no progress within the time limit)" if ri[j][0] in (-9, 137) else "exited with %s" % ri[j][0],
                                                                   len(il), len(shard[j]), ri[j][2][-200:].replace("\n", " ")))
        for n, i in enumerate(shard[j]):
            # cases run in file order and the harness flushes after each: the first case without a result is the one
            # that killed / hung the process, the ones after it were never started
            impl[i] = il[n] if n < len(il) else (None if n == len(il) else "SKIPPED")
        if rm:
            ml = rm[j][1].splitlines()
            if rm[j][0] != 0:
                errs.append("driver parsort failed: " + rm[j][2][-200:])
            n = 0
            for i in shard[j]:
                if cases[i]["model"]:
                    model[i] = ml[n] if n < len(ml) else None
                    n += 1
        os.unlink(files[j])
        os.unlink(mfiles[j])
    return impl, model, errs


def parse_out(line):
    """-> dict(kind='ok', flag, info, arr) | kind='panic' | kind='missing'"""
    if line is None:
        return {"kind": "missing"}
    if line.strip() == "P":
        return {"kind": "panic"}
    if line.strip() == "SKIPPED":
        return {"kind": "skipped"}
    p = line.split(" ")
    if len(p) != 3 or p[0] not in "01":
        return {"kind": "garbled", "raw": line[:80]}
    return {"kind": "ok", "flag": int(p[0]), "info": p[1], "arr_s": p[2]}


def exact_case(c):
    """cases in which the implementation's result is determined and must equal the model's: no cancellation, flag raised
    before the call or at the first comparator call (before the first load inside recurse, hence before any join), or a
    1-thread pool (rayon::join then runs its closures in the model's order)"""
    return c["k"] is None or c["k"] <= 1 or c["threads"] == 1


def short(es, n=14):
    s = fmt(es[:n])
    return s + (",...(%d elements)" % len(es) if len(es) > n else "")


def describe(c):
    return "threads=%d cancel=%s comparator=%s input[%d]=%s" % (
        c["threads"], "never" if c["k"] is None else ("before the call" if c["k"] == 0 else "at comparator call %d" % c["k"]),
        {"T": "worker (score desc, placeholders last, len asc, idx asc)", "W": "score desc only", "L": "score >= (not strict)", "X": "arbitrary relation"}[c["mode"]],
        len(c["elems"]), short(c["elems"]))


def oracle(c, o):
    """spec-level checks on the implementation's result for one case -> list of (class, what)"""
    if o["kind"] == "panic":
        return [("panic", "par_quicksort panicked")]
    if o["kind"] != "ok":
        return []  # reported as a crash of the whole shard
    out = []
    arr = parse_elems(o["arr_s"])
    valid = c["mode"] in "TW"
    if sorted(arr) != sorted(c["elems"]):
        out.append(("permutation", "the slice after the call is not a permutation of the input (flag %d)" % o["flag"]))
        return out
    k = c["k"]
    calls = int(o["info"]) if o["info"].isdigit() else 0
    raised = k is not None and (k == 0 or calls >= k)
    if o["flag"] == 1 and not raised:
        out.append(("false-cancel", "returned `cancelled` although the flag was never raised (%d comparator calls, flag set at call %s)" % (calls, k)))
    if k == 0 and o["flag"] == 0:
        out.append(("missed-cancel", "flag raised before the call but the sort reports `not cancelled`"))
    if valid and o["flag"] == 0 and not is_sorted(c["mode"], arr):
        i = next(i for i in range(len(arr) - 1) if less_mode(c["mode"], arr[i + 1], arr[i]))
        out.append(("sorted", "returned `not cancelled` but the slice is not sorted: element %d = %s is less than element %d = %s" % (i + 1, arr[i + 1], i, arr[i])))
    return out


def run(ctx, broken):
    hn, drv = ctx["hn"], ctx["driver"]
    tier, seed = ctx["tier"], ctx["seed"]
    adv = Adv(hn)
    cases = gen_cases(seed, tier, adv)
    impl, model, errs = run_sharded(ctx, cases, "c18")
    res = {"evaluations": 0, "distinct_nontrivial": 0, "rule": "", "samples": [], "disagreements": [], "failures": [], "extra": {}}
    for e in errs:
        res["disagreements"].append({"what": e})
    branches = {}
    nontrivial = set()
    groups = {}
    streams = {}
    for c, il, ml in zip(cases, impl, model):
        o = parse_out(il)
        m = parse_out(ml) if c["model"] and drv else None
        streams[c["stream"]] = streams.get(c["stream"], 0) + 1
        # ---- correspondence
        if o["kind"] in ("missing", "garbled") and len(res["failures"]) < 300:
            res["failures"].append({"class": "abort", "what": "no result from the implementation: the harness process died, or hung and was killed, while running this case -- " + describe(c), "case": c["line"]})
        if m is not None and o["kind"] not in ("missing", "skipped"):
            d = None
            if m["kind"] != o["kind"]:
                d = "implementation `%s`, model `%s`" % (o["kind"], m["kind"])
            elif o["kind"] == "ok":
                mcalls = m["info"].split(";")[0]
                if exact_case(c):
                    if o["flag"] != m["flag"]:
                        d = "returned flag: implementation %d, model %d" % (o["flag"], m["flag"])
                    elif o["arr_s"] != m["arr_s"]:
                        a, b = parse_elems(o["arr_s"]), parse_elems(m["arr_s"])
                        i = next((i for i in range(min(len(a), len(b))) if a[i] != b[i]), min(len(a), len(b)))
                        d = "final array differs at position %d: implementation %s, model %s" % (i, a[i] if i < len(a) else None, b[i] if i < len(b) else None)
                    elif (c["k"] is None or c["threads"] == 1) and o["info"] != mcalls:
                        d = "number of comparator calls: implementation %s, model %s" % (o["info"], mcalls)
                else:
                    ma = parse_elems(m["arr_s"])
                    oa = parse_elems(o["arr_s"])
                    valid = c["mode"] in "TW"
                    mo = (sorted(ma) == sorted(c["elems"]), (not valid) or m["flag"] == 1 or is_sorted(c["mode"], ma))
                    oo = (sorted(oa) == sorted(c["elems"]), (not valid) or o["flag"] == 1 or is_sorted(c["mode"], oa))
                    if mo != oo:
                        d = "observables (permutation, not-cancelled => sorted): implementation %s, model %s" % (oo, mo)
            if d and len(res["disagreements"]) < 40:
                res["disagreements"].append({"what": "model/implementation disagree: %s -- %s" % (d, describe(c)), "case": c["line"]})
        # ---- oracle on the implementation
        for cls, what in oracle(c, o):
            if len(res["failures"]) < 300:
                res["failures"].append({"class": cls, "what": what + " -- " + describe(c) + " -- implementation returned `%s`" % (il or "")[:120], "case": c["line"]})
        if c["group"] is not None and o["kind"] == "ok":
            groups.setdefault(c["group"], []).append((c, o))
        # ---- measured coverage (branches the model took on this input)
        if m is not None and m["kind"] == "ok":
            evs = [kv.split("=")[0] for kv in m["info"].split(";")[-1].split(",") if "=" in kv]
            for e in evs:
                branches[e] = branches.get(e, 0) + 1
            if set(evs) - {"ins"} or len(c["elems"]) > 20:
                nontrivial.add((c["mode"], c["k"], c["line"].split(" ", 3)[3]))
    # thread-count independence + the unique sorted arrangement
    for g, lst in groups.items():
        c0, o0 = lst[0]
        exp = fmt(sorted(c0["elems"], key=worker_key))
        for c, o in lst:
            if o["arr_s"] != o0["arr_s"]:
                res["failures"].append({"class": "threads", "what": "the match order depends on the number of threads: %d threads and %d threads give different arrays -- %s" % (c0["threads"], c["threads"], describe(c)), "case": c["line"], "other": c0["line"]})
            elif o["flag"] == 0 and o["arr_s"] != exp and sorted(parse_elems(o["arr_s"])) == sorted(c0["elems"]):
                res["failures"].append({"class": "order", "what": "the result is not the arrangement by (score desc, placeholders last, len asc, idx asc) -- " + describe(c), "case": c["line"]})
    # ---- deep recursion: adversarial arrangement, one process per case so that an abort is attributed
    deep_n = [30000] if tier == "quick" else [30000, 60000]
    deep = []
    for n in deep_n:
        ks = adv(n)
        es = [(k, i, 0) for i, k in enumerate(ks)]
        for t in (1, 8):
            deep.append({"line": "%d - W %s" % (t, fmt(es)), "threads": t, "k": None, "mode": "W", "elems": es, "group": None, "stream": "adversarial-deep", "model": False})
    files = []
    for j, c in enumerate(deep):
        p = os.path.join(vlib.SCRATCH, "ps_deep_%d_%d.txt" % (os.getpid(), j))
        open(p, "w").write(c["line"] + "\n")
        files.append(p)
    rd = vlib.parallel([[hn, "parsort", f] for f in files], tag="c18d", timeout=60 if tier == "quick" else 1200)
    for c, (rc, out, err), f in zip(deep, rd, files):
        os.unlink(f)
        streams[c["stream"]] = streams.get(c["stream"], 0) + 1
        lines = out.splitlines()
        if rc != 0 or not lines:
            why = "stack overflow" if "overflowed its stack" in err else ("exit status %s: %s" % (rc, err[-160:].replace("\n", " ")))
            res["failures"].append({"class": "abort", "what": "the process running par_quicksort was killed (%s) on an arrangement that is adversarial for pivot selection -- %s" % (why, describe(c)),
                                    "case": c["line"], "exit": rc})
        else:
            o = parse_out(lines[0])
            for cls, what in oracle(c, o):
                res["failures"].append({"class": cls, "what": what + " -- " + describe(c), "case": c["line"]})
        nontrivial.add(("W", None, "adv%d/%d" % (len(c["elems"]), c["threads"])))
    # ---- contract of the model's partition_in_blocks (the hypothesis pib_ok of the _partial theorems)
    npib = 0
    if drv:
        pc = pib_cases(seed, tier)
        p = os.path.join(vlib.SCRATCH, "ps_pib_%d.txt" % os.getpid())
        open(p, "w").write("\n".join("%s %s %s" % (m, "%d:%d:%d" % pv, fmt(es)) for m, pv, es in pc) + "\n")
        rc, out, err, _ = vlib.run([drv, "parsort-pib", p], timeout=600)
        os.unlink(p)
        ol = out.splitlines()
        if rc != 0 or len(ol) != len(pc):
            res["disagreements"].append({"what": "driver parsort-pib failed: " + err[-200:]})
        for (m, pv, es), l in zip(pc, ol):
            npib += 1
            mid_s, arr_s = l.split(" ")
            mid, arr = int(mid_s), parse_elems(arr_s)
            ok = sorted(arr) == sorted(es) and mid <= len(es) and all(less_mode(m, x, pv) for x in arr[:mid]) and not any(less_mode(m, x, pv) for x in arr[mid:])
            if not ok and len(res["disagreements"]) < 40:
                res["disagreements"].append({"what": "the model's partition_in_blocks violates the contract pib_ok assumed by the C18 theorems: comparator %s pivot %s slice[%d]=%s -> mid %d" % (m, pv, len(es), short(es), mid)})
    res["evaluations"] = len(cases) + len(deep) + npib
    res["distinct_nontrivial"] = len(nontrivial)
    res["exhaustive"] = False
    res["rule"] = ("streams from VERIF_SEED: (valid) arrays of 0..3000 elements (quick; up to 300000 thorough) in 11 arrangements -- random, in order, reversed, organ-pipe, few distinct scores, all equal, "
                   "nearly sorted, sawtooth, runs of duplicates, McIlroy's antiquicksort adversary played through the comparator of the real sort, 30% placeholders -- under the worker's total order, each "
                   "with 1, 2 and 8 threads; (weak) the same under a score-only order with ties; (cancel) the flag raised before the call or by the comparator at its k-th call; (malformed) comparators that "
                   "are not strict weak orders and triples with duplicate idx; (append-cancel) 200..2600 elements, a prefix already in order followed by a disordered tail of 3%..45% (appended items), the flag raised "
                   "by the comparator at call k, k stratified over the whole run (0 .. 6.5 n); (adversarial-deep) 30000-element adversarial arrays, one process each; thorough adds every array of length <= 7 over 3 scores "
                   "and all 21..23-element 0/1 arrays with <= 3 ones. Compared with the extracted model: flag and exact final array (no cancel / cancel before the call), observables otherwise. Oracle on the "
                   "implementation: permutation, sortedness, flag semantics, thread-count independence, unique arrangement, no panic / abort. Non-trivial = distinct (comparator, cancel point, input) whose "
                   "model trace leaves the insertion-sort base case (len > 20). Branch counts below are measured on the model's ghost trace of the same inputs.")
    res["samples"] = [{"case": describe(c), "implementation": (il or "")[:100], "model": (ml or "")[:100]} for c, il, ml in list(zip(cases, impl, model))[:: max(1, len(cases) // 6)][:6]]
    res["extra"] = {"streams": streams, "model_branches(cases in which the branch ran)": branches, "pib_contract_cases": npib}
    # ---- the comparator as the worker really passes it (the closure in Worker::run cannot be called directly): a
    #      reduced run of the protocol histories (bulk style included: more than 20 matches with ties on score and
    #      total length, negated-only patterns with score-0 matches next to placeholders); the order / placeholder
    #      clauses of the C06 oracle count for this property; correspondence differences there belong to C06
    import ncommon
    import noracles
    sub = ncommon.generic(ctx, noracles.c06, "", nhist=225 if tier == "quick" else 1500, extra_seed=18)
    for f in sub["failures"]:
        if f.get("class") in ("order", "placeholder", "crash"):
            res["failures"].append(dict(f, cls_origin="protocol stream"))
    res["evaluations"] += sub["evaluations"]
    res["rule"] += (" Worker comparator in place: %d scheduled protocol histories (two columns, bulk extends with ties, negated-only patterns) - the snapshot order (score desc, "
                    "total length asc, index asc) and the absence of placeholders are checked on the real Worker::run." % sub["evaluations"])
    return res


def known(f, kf):
    for k in kf.get("known", []):
        if k.get("property") == "C18" and k.get("class") == f.get("class"):
            if f["class"] == "abort" and "adversarial" not in f.get("what", ""):
                continue
            return k
    return None


def broken_known(b, kf, failures):
    return False


def replay(path):
    d = json.load(open(path))
    f = d.get("failure") or {}
    if f.get("cls_origin") == "protocol stream":
        import ncommon
        return ncommon.replay(path)
    print(json.dumps({k: v for k, v in d.items() if k != "failure"}, indent=1)[:2000])
    print(f.get("what", "")[:1500])
    line = f.get("case")
    if line:
        hn = vlib.build_harness("hn")
        os.makedirs(vlib.SCRATCH, exist_ok=True)
        p = os.path.join(vlib.SCRATCH, "replay_c18.txt")
        open(p, "w").write(line + "\n")
        rc, out, err, _ = vlib.run([hn, "parsort", p], timeout=600)
        print("implementation: exit %s  %s %s" % (rc, out.strip()[:300], err.strip()[-200:]))
        pp = line.split(" ", 3)
        c = {"threads": int(pp[0]), "k": None if pp[1] == "-" else int(pp[1]), "mode": pp[2], "elems": parse_elems(pp[3])}
        if out.strip():
            print("oracle:        ", oracle(c, parse_out(out.splitlines()[0])) or "no clause violated")
        drv = os.path.join(vlib.OCAML, "driver")
        if len(c["elems"]) <= 20000:
            rc, out, err, _ = vlib.run(["sh", "-c", 'ulimit -s unlimited 2>/dev/null; exec "$0" parsort "$1"', drv, p], timeout=1200)
            print("model:          exit %s  %s" % (rc, out.strip()[:300]))
        else:
            print("model:          not run (the list model needs minutes on an adversarial input of this size; it has no stack to overflow and returns the sorted array)")
    return 0
