"""C14: pattern text is parsed by one grammar regardless of the characters involved.

Correspondence: the real parser (hm pattern: Pattern::parse / reparse / new, Atom::new with and without escapes, all
3 x 2 CaseMatching x Normalization settings, private flags read from Atom's Debug output) against the extracted Coq
model (driver pattern ... fixed), line by line.  Oracle: the extracted SPECIFICATION (escape / escapable /
literal_atom / marker table / spec_atoms / spec_ignore_case / spec_normalize, Spec/PatternSpec.v) evaluated on the
implementation's own output (driver pattern-oracle).

Streams (every random choice from one PRNG seeded with VERIF_SEED):
   words      structured, mostly valid patterns: 1-4 words, each [!|\\!] [^|'|\\^|\\'] body [$|\\$], joined by whitespace
              of 9 kinds (sometimes doubled / leading / trailing), bodies with escaped spaces, ASCII and non-ASCII
   literal    literal texts t (markers, spaces, backslashes, '$' anywhere); the case is  escape t  (computed by the
              extracted escape), the oracle demands [literal_atom t]
   markers    all 3 x 5 x 3 marker combinations around generated bodies (empty, ASCII, non-ASCII, escaped spaces)
   malformed  SEPARATE stream: uniform strings over the whole alphabet (lone / trailing / doubled backslashes, marker
              runs, whitespace only, empty, CR LF, control characters)
   segsweep   every code point of the seg_simple set in blocks of 12 (the CJK block rotated by seed) -- validates the
              trusted UAX #29 fact behind seg_simple against the real unicode-segmentation crate
   grapheme   SEPARATE stream: combining marks, ZWJ, regional indicators, Hangul jamo, prepend, variation selectors;
              the model's seg input is the table `hm pattern-seg` reads off the real crate
   long       a few patterns of 200-3000 characters
   exhaustive (thorough) ALL strings of length <= 5 over {a B ae AE \\ space tab U+3000 ! ^ ' $} as raw patterns, ALL
              literal texts of length <= 5 over {a B ae AE \\ space ! ^ ' $}, and ALL strings of length 6 over
              {a AE \\ space ! ^ ' $} both as raw patterns and as literal texts
"""
import json
import os
import random
import unicodedata

import vlib

TRUSTED = [
    "chars::graphemes (crate unicode-segmentation) is an INPUT of the model (parameter seg); the theorems that need the segmentation assume seg_faithful (seg = 'every code point its own cluster, CR LF -> LF' on seg_simple texts); that the real crate behaves so on seg_simple texts is checked on every run (segsweep stream + SEGFAIL test), not proved",
    "Rust std: str::is_ascii, str::split / split_once on \"\\\\ \", str::split with a stateful closure, make_ascii_lowercase, u8::is_ascii_uppercase, char::is_whitespace (range table dumped from the toolchain) are modelled by their specification",
    "the private Atom fields ignore_case / normalize are read from the derived Debug output of Atom",
    "matching ASCII bytes of a UTF-8 string (Atom::parse's as_bytes() patterns) is modelled as matching code points",
]
ASSUMPTIONS = [
    "default cargo features (unicode-normalization, unicode-casefold, unicode-segmentation)",
    "the model is the parser AFTER the three-line repair of finding #15 (fix_1.diff); the pinned behaviour is kept in the model as fx = false (lemma pinned_code_roundtrip_refuted) and the run reports which of the two the implementation matches",
    "C14_roundtrip assumes escapable t (non-empty; no whitespace other than U+0020; no leading backslash followed by ! ^ ') and seg_simple t; every other theorem holds for every text and every segmentation",
]

NSETTINGS = 6
NSECTIONS = 5

ASCII_LET = [ord(c) for c in "abBZ1x"]
SPECIAL = [92, 32, 33, 94, 39, 36]
UNI_SIMPLE = [0xE4, 0xC4, 0x3C2, 0x3A3, 0xB5, 0x1C5, 0x2079, 0x4F60, 0xDF, 0x1E9E, 0x194, 0xE9, 0x1E0B, 0x17F]
WS = [32, 9, 10, 13, 11, 12, 0x85, 0xA0, 0x3000, 0x2003, 0x2028, 0x1680, 0x2000, 0x200A, 0x2029, 0x202F, 0x205F]
GRAPH = [0x301, 0x308, 0x200D, 0x1F1E9, 0x1F1EA, 0x1100, 0x1161, 0x11A8, 0x600, 0x903, 0xFE0F, 0x1F468, 0x1F3FB, 0xAC00, 0x200C, 0x0E33]
SIMPLE_RANGES = [(0, 767), (880, 1023), (7680, 7935), (8192, 8202), (8232, 8233), (8239, 8239), (8287, 8287), (8304, 8351),
                 (12288, 12288), (5760, 5760)]
CJK = (19968, 40959)


def cps(l):
    return ",".join(str(c) for c in l) if l else "-"


def uncps(s):
    return [] if s in ("-", "") else [int(x) for x in s.split(",")]


def show(l, maxlen=60):
    """the string between guillemets, verbatim (a backslash is ONE backslash); only unprintable code points are escaped"""
    def one(c):
        ch = chr(c)
        if c == 32 or (ch.isprintable() and unicodedata.category(ch)[0] not in "MCZ" and ch not in "\u00ab\u00bb"):
            return ch
        return {9: "<TAB>", 10: "<LF>", 13: "<CR>"}.get(c, "<U+%04X>" % c)
    t = "".join(one(c) for c in l[:maxlen])
    return "\u00ab%s\u00bb%s" % (t, "" if len(l) <= maxlen else "...(%d chars)" % len(l))


def is_scalar(c):
    return 0 <= c < 0x110000 and not (0xD800 <= c <= 0xDFFF)


def gen_body(rng, uni, n):
    out = []
    for _ in range(n):
        r = rng.random()
        if r < 0.12:
            out += [92, 32]
        elif r < 0.17:
            out.append(rng.choice([92, 36, 33, 94, 39]))
        elif uni and r < 0.5:
            out.append(rng.choice(UNI_SIMPLE))
        else:
            out.append(rng.choice(ASCII_LET))
    return out


def gen_proto(seed, tier):
    """returns list of (stream, proto line)"""
    rng = random.Random(seed * 7919 + 14)
    scale = 1 if tier == "quick" else 4
    out = []
    neg = [[], [33], [92, 33]]
    kin = [[], [94], [39], [92, 94], [92, 39]]
    end = [[], [36], [92, 36]]
    # words
    for i in range(4000 * scale):
        uni = rng.random() < 0.6
        p = []
        if rng.random() < 0.15:
            p += [rng.choice(WS)]
        for w in range(rng.randint(1, 4)):
            if w:
                p += [rng.choice(WS)] * (2 if rng.random() < 0.1 else 1)
            word = rng.choice(neg) if rng.random() < 0.5 else []
            word = word + (rng.choice(kin) if rng.random() < 0.5 else [])
            word = word + gen_body(rng, uni and rng.random() < 0.8, rng.randint(0 if rng.random() < 0.1 else 1, 6))
            word = word + (rng.choice(end) if rng.random() < 0.5 else [])
            p += word
        if rng.random() < 0.15:
            p += [rng.choice(WS + [92])]
        out.append(("words", "P " + cps(p)))
    # literal texts
    lit_alpha_a = ASCII_LET + SPECIAL + [32, 92]
    for i in range(4000 * scale):
        uni = i % 2 == 1
        alpha = lit_alpha_a + (UNI_SIMPLE * 2 if uni else [])
        t = [rng.choice(alpha) for _ in range(rng.randint(1, 8))]
        if uni and all(c < 128 for c in t):
            t[rng.randrange(len(t))] = rng.choice(UNI_SIMPLE)
        if rng.random() < 0.04:
            t[rng.randrange(len(t))] = rng.choice(WS)      # not escapable: oracle abstains, correspondence still runs
        out.append(("literal", "L " + cps(t)))
    # marker combinations
    for n in range(3):
        for k in range(5):
            for e in range(3):
                for j in range(40 * scale):
                    uni = j % 2 == 1
                    b = gen_body(rng, uni, rng.randint(0 if j < 4 else 1, 5))
                    if j % 7 == 3 and b:
                        b = [rng.choice([33, 94, 39, 92])] + b      # may violate lead_ok: oracle abstains
                    out.append(("markers", "M %d %d %d %s" % (n, k, e, cps(b))))
    # malformed / uniform
    full = ASCII_LET + SPECIAL * 3 + UNI_SIMPLE + WS + [92] * 4 + [0, 1, 0x1C, 0x1F, 127, 0xAD, 0x10FFFF, 0xFFFD, 0x2FF, 0x300, 0x200B, 0x180E, 0xFEFF, 0xD7FF, 0xE000]
    for i in range(3000 * scale):
        n = rng.choice([0, 1, 1, 2, 2, 3, 4, 5, 6, 8, 12])
        t = [rng.choice(full) for _ in range(n)]
        if rng.random() < 0.1:
            k = rng.randint(0, len(t))
            t[k:k] = [13, 10]
        out.append(("malformed", "P " + cps(t)))
    # segsweep
    simple = [c for lo, hi in SIMPLE_RANGES for c in range(lo, hi + 1)]
    nrot = 1 if tier != "quick" else 8
    cjk = [c for c in range(CJK[0], CJK[1] + 1) if tier != "quick" or (c // 12) % nrot == seed % nrot]
    for block in (simple, cjk):
        for i in range(0, len(block), 12):
            out.append(("segsweep", "P " + cps([0xE4] + block[i:i + 12])))
    for i in range(300 * scale):
        out.append(("segsweep", "P " + cps([rng.choice(simple) for _ in range(rng.randint(2, 6))])))
    # grapheme-rich
    galpha = ASCII_LET + SPECIAL + UNI_SIMPLE[:6] + GRAPH * 3 + [13, 10, 32, 9]
    for i in range(1500 * scale):
        out.append(("grapheme", "P " + cps([rng.choice(galpha) for _ in range(rng.randint(1, 10))])))
    # long
    for i in range(12 * scale):
        n = rng.choice([200, 500, 1000, 3000])
        alpha = ASCII_LET * 3 + SPECIAL + [32, 9] + (UNI_SIMPLE if i % 2 else [])
        out.append(("long", "P " + cps([rng.choice(alpha) for _ in range(n)])))
    return out


def exhaustive_proto():
    A = [97, 66, 0xE4, 0xC4, 92, 32, 9, 0x3000, 33, 94, 39, 36]
    L = [97, 66, 0xE4, 0xC4, 92, 32, 33, 94, 39, 36]
    out = []

    def rec(alpha, tag, maxlen):
        cur = [[]]
        if tag == "P":
            out.append(("exhaustive", "P -"))
        for n in range(1, maxlen + 1):
            cur = [s + [c] for s in cur for c in alpha]
            for s in cur:
                out.append(("exhaustive", tag + " " + cps(s)))
    rec(A, "P", 5)
    rec(L, "L", 5)
    # one symbol deeper over the 8 symbols that interact: a AE \ space ! ^ ' $
    S = [97, 0xC4, 92, 32, 33, 94, 39, 36]
    six = [[]]
    for n in range(6):
        six = [s + [c] for s in six for c in S]
    for s in six:
        out.append(("exhaustive", "P " + cps(s)))
        out.append(("exhaustive", "L " + cps(s)))
    return out


def prepare(ctx):
    ctx["hm"] = ctx["build"]("hm")


def sh(cmd, outfile):
    return ["sh", "-c", " ".join("'%s'" % c for c in cmd) + " > '%s'" % outfile]


def run_cases(hm, drv, proto, tag, workdir):
    """proto: list of (stream, line).  Returns dict with per-shard file names and errors."""
    os.makedirs(workdir, exist_ok=True)
    nsh = max(1, min(vlib.NPROC, len(proto) // 200 + 1))
    shards = [proto[i::nsh] for i in range(nsh)]
    f = lambda kind, i: os.path.join(workdir, "%s.%s.%d" % (tag, kind, i))
    for i, shd in enumerate(shards):
        with open(f("proto", i), "w") as fh:
            fh.write("\n".join(l for _, l in shd) + "\n")
    errs = []

    def par(cmds, what):
        rs = vlib.parallel(cmds, tag="c14" + what)
        for r in rs:
            if r[0] != 0:
                errs.append("%s: rc=%s %s" % (what, r[0], r[2][-300:]))
    par([sh([drv, "pattern-gen", f("proto", i)], f("case", i)) for i in range(nsh)], "gen")
    par([sh([hm, "pattern", f("case", i)], f("impl", i)) for i in range(nsh)] +
        [sh([hm, "pattern-seg", f("case", i)], f("seg", i)) for i in range(nsh)], "impl")
    par([sh([drv, "pattern", f("case", i), "fixed", f("seg", i)], f("model", i)) for i in range(nsh)] +
        [sh([drv, "pattern-oracle", f("case", i), f("impl", i)], f("oracle", i)) for i in range(nsh)], "model")
    return {"nsh": nsh, "file": f, "shards": shards, "errors": errs}


def sections(line):
    d = {}
    for tok in line.split(" "):
        if len(tok) > 4 and tok[3] == "=":
            d[tok[:3]] = tok[4:]
    return d


SECTION_NAME = {"P": "Pattern::parse", "R": "Pattern::reparse", "N": "Pattern::new", "A": "Atom::new(escape_whitespace=false)", "E": "Atom::new(escape_whitespace=true)"}
CASE_NAME = {"R": "Respect", "I": "Ignore", "S": "Smart"}
NORM_NAME = {"N": "Never", "S": "Smart"}


def key_name(k):
    return "%s, CaseMatching::%s, Normalization::%s" % (SECTION_NAME.get(k[0], k[0]), CASE_NAME.get(k[1], k[1]), NORM_NAME.get(k[2], k[2]))


def show_atoms(v):
    if v in ("-", "PANIC"):
        return "no atoms" if v == "-" else "PANIC"
    out = []
    for a in v.split("|"):
        kind = {"F": "Fuzzy", "S": "Substring", "P": "Prefix", "O": "Postfix", "E": "Exact"}.get(a[0], a[0])
        out.append("%s%s needle[%s]=%s ignore_case=%s normalize=%s" % ("!" if a[1] == "1" else "", kind, "Ascii" if a[2] == "A" else "Unicode",
                                                                      show(uncps(a[6:])), a[3], a[4]))
    return "; ".join(out)


NEG_TXT = ["", "!", "\\!"]
KIND_TXT = ["", "^", "'", "\\^", "\\'"]
END_TXT = ["", "$", "\\$"]


def describe_ann(ann):
    if ann.startswith("L:"):
        return ", the escaped form of the literal text %s" % show(uncps(ann[2:]))
    if ann.startswith("M:"):
        nke, b = ann[2:].split(":")
        n, k, e = (int(x) for x in nke.split(","))
        return ", the word [%s][%s] body %s [%s]" % (NEG_TXT[n], KIND_TXT[k], show(uncps(b)), END_TXT[e])
    return ""


def first_diff(impl, model):
    a, b = sections(impl), sections(model)
    for k in a:
        if a.get(k) != b.get(k):
            return k, a.get(k), b.get(k)
    return None, None, None


def run(ctx, broken):
    hm, drv, tier, seed = ctx["hm"], ctx["driver"], ctx["tier"], ctx["seed"]
    res = {"evaluations": 0, "distinct_nontrivial": 0, "rule": "", "samples": [], "disagreements": [], "failures": [], "extra": {}}
    if not drv:
        res["disagreements"].append({"what": "the model no longer extracts; no correspondence run"})
        return res
    proto = gen_proto(seed, tier)
    if tier == "thorough":
        proto += exhaustive_proto()
        res["exhaustive"] = True
    workdir = os.path.join(vlib.SCRATCH, "c14_%d" % os.getpid())
    r = run_cases(hm, drv, proto, "t", workdir)
    for e in r["errors"]:
        res["disagreements"].append({"what": "harness/driver error: " + e})
    f = r["file"]
    dist = {}
    nontrivial = set()
    feature = {"non_ascii_atom": 0, "escaped_space": 0, "negative": 0, "kind_not_fuzzy": 0, "several_atoms": 0, "no_atom": 0}
    mismatch = []          # (case line, seg line, impl line)
    ncases = 0
    nchecks = 0
    samples = {}
    clause_evals = {}
    for i in range(r["nsh"]):
        cases = open(f("case", i)).read().splitlines()
        impl = open(f("impl", i)).read().splitlines()
        model = open(f("model", i)).read().splitlines()
        orac = open(f("oracle", i)).read().splitlines()
        segs = open(f("seg", i)).read().splitlines()
        streams = [s for s, _ in r["shards"][i]]
        if not (len(cases) == len(impl) == len(model) == len(orac) == len(streams)):
            res["disagreements"].append({"what": "shard %d: line counts differ (cases %d, implementation %d, model %d, oracle %d)" % (i, len(cases), len(impl), len(model), len(orac))})
        for j, c in enumerate(cases):
            io = impl[j] if j < len(impl) else "X missing"
            mo = model[j] if j < len(model) else "X missing"
            oo = orac[j] if j < len(orac) else "0 0"
            st = streams[j] if j < len(streams) else "?"
            ncases += 1
            dist[st] = dist.get(st, 0) + 1
            pat = c.split(" ")[0]
            secs = sections(io)
            psn = secs.get("PSS", "-")
            if psn not in ("-", "PANIC"):
                nontrivial.add(pat)
                atoms = psn.split("|")
                feature["several_atoms"] += len(atoms) > 1
                feature["non_ascii_atom"] += any(a[2] == "U" for a in atoms)
                feature["negative"] += any(a[1] == "1" for a in atoms)
                feature["kind_not_fuzzy"] += any(a[0] != "F" for a in atoms)
                feature["escaped_space"] += "92,32" in pat
            else:
                feature["no_atom"] += 1
            if st not in samples:
                samples[st] = {"stream": st, "pattern": show(uncps(pat)), "Pattern::parse (Smart, Smart)": show_atoms(psn)}
            if "SEGFAIL" in mo.split(" ")[:1]:
                res["failures"].append({"class": "seg_simple", "case": c, "impl": io[:300],
                                        "what": "the real grapheme segmentation differs from the simple rule on a seg_simple text %s: %s (the trusted fact behind seg_simple is wrong)" % (show(uncps(pat)), segs[j][:200])})
                mo = mo.split(" ", 1)[1] if " " in mo else ""
            if io != mo:
                mismatch.append((c, segs[j] if j < len(segs) else "-", io, mo))
            p = oo.split(" ")
            nchecks += int(p[0])
            for kv in (p[2].split(",") if len(p) > 2 else []):
                kk, vv = kv.split("=")
                if kk != "words":
                    clause_evals[kk] = clause_evals.get(kk, 0) + int(vv)
            if int(p[1]) and len(res["failures"]) < 400:
                seen_cls = set()
                for ent in p[3:]:
                    cls, rest = ent.split("@", 1)
                    key, detail = rest.split(":", 1)
                    if cls in seen_cls:
                        continue
                    seen_cls.add(cls)
                    ann = c.split(" ")[1] if " " in c else "P"
                    res["failures"].append({
                        "class": cls, "case": c, "setting": key, "impl": io[:600],
                        "what": "%s clause fails on the implementation: pattern %s (%s)%s -- %s returned [%s]; oracle: %s" % (
                            cls, show(uncps(pat)), "stream " + st, describe_ann(ann), key_name(key),
                            show_atoms(secs.get(key, "?")), detail[:300])})
    # ---- disagreements: which model does the implementation follow? --------------------------------
    extra = {"distribution(stream)": dist, "features(Pattern::parse Smart/Smart on the implementation)": feature, "oracle_checks": nchecks,
             "oracle_clause_evaluations(rt=roundtrip,mk=marker table,sp=split with plain words; per setting)": clause_evals}
    if mismatch:
        mc, ms = os.path.join(workdir, "mm.case"), os.path.join(workdir, "mm.seg")
        open(mc, "w").write("\n".join(m[0] for m in mismatch) + "\n")
        open(ms, "w").write("\n".join(m[1] for m in mismatch) + "\n")
        rc, out, err, _ = vlib.run([drv, "pattern", mc, "pinned", ms])
        pinned = out.splitlines()
        same = sum(1 for m, p in zip(mismatch, pinned) if m[2] == (p.split(" ", 1)[1] if p.startswith("SEGFAIL ") else p))
        extra["implementation_vs_models"] = {"cases_differing_from_fixed_model": len(mismatch), "of_those_equal_to_pinned_model(fx=false)": same}
        for c, sg, io, mo in mismatch[:40]:
            k, a, b = first_diff(io, mo)
            pat = c.split(" ")[0]
            res["disagreements"].append({"case": c, "what": "model/implementation disagree on pattern %s: %s -- implementation [%s], model [%s]%s" % (
                show(uncps(pat)), key_name(k) if k else "?", show_atoms(a or "?"), show_atoms(b or "?"),
                " (the implementation equals the pinned model fx=false on %d of the %d differing cases: finding #15 is not repaired in this tree)" % (same, len(mismatch)) if same else "")})
    res["evaluations"] = ncases * NSETTINGS * NSECTIONS
    res["distinct_nontrivial"] = len(nontrivial)
    res["samples"] = list(samples.values())
    res["rule"] = ("%d pattern strings, each through Pattern::parse, Pattern::reparse (one long-lived object per shard), Pattern::new, Atom::new with and "
                   "without escapes under all 6 CaseMatching x Normalization settings (30 calls per string); streams: %s. Compared token by token with the "
                   "extracted model (kind, negative, needle code points, Ascii/Unicode representation, ignore_case, normalize per atom); the extracted "
                   "specification is evaluated on the implementation's output (%d clause evaluations). Non-trivial = distinct pattern string for which the "
                   "implementation's Pattern::parse (Smart, Smart) returns at least one atom; measured on the implementation's output.%s" % (
                       ncases, ", ".join("%s %d" % kv for kv in sorted(dist.items())), nchecks,
                       " Thorough tier: exhaustive over all raw patterns of length <= 5 over 12 symbols, all literal texts of length <= 5 over 10 symbols, and all strings of length 6 over 8 symbols (raw and literal)." if tier == "thorough" else ""))
    res["extra"] = extra
    try:
        import shutil
        shutil.rmtree(workdir, ignore_errors=True)
    except Exception:
        pass
    return res


def known(f, kf):
    for k in kf.get("known", []):
        if k.get("property") == "C14" and f.get("class") in (k.get("classes") or [k.get("class")]):
            return k
    return None


def broken_known(b, kf, failures):
    return False


def replay(path):
    d = json.load(open(path))
    print(json.dumps({k: v for k, v in d.items() if k != "failure"}, indent=1, ensure_ascii=False)[:3000])
    fl = d.get("failure") or {}
    print(fl.get("what", ""))
    line = fl.get("case")
    if not line and d.get("broken"):
        print("no failing input recorded; broken obligations:", d["broken"])
    if line:
        hm = vlib.build_harness("hm")
        drv = os.path.join(vlib.OCAML, "driver")
        os.makedirs(vlib.SCRATCH, exist_ok=True)
        p = os.path.join(vlib.SCRATCH, "c14_replay_case.txt")
        open(p, "w").write(line + "\n")
        io = vlib.run([hm, "pattern", p])[1].strip()
        sg = os.path.join(vlib.SCRATCH, "c14_replay_seg.txt")
        open(sg, "w").write(vlib.run([hm, "pattern-seg", p])[1])
        ip = os.path.join(vlib.SCRATCH, "c14_replay_impl.txt")
        open(ip, "w").write(io + "\n")
        mo = vlib.run([drv, "pattern", p, "fixed", sg])[1].strip()
        po = vlib.run([drv, "pattern", p, "pinned", sg])[1].strip()
        print("case:                 ", line)
        print("pattern:              ", show(uncps(line.split(" ")[0])))
        a, b, c = sections(io), sections(mo), sections(po)
        for k in a:
            if a[k] != b.get(k) or k == fl.get("setting"):
                print("%-60s implementation [%s]\n%-60s model(fixed) [%s]\n%-60s model(pinned) [%s]" % (key_name(k), show_atoms(a[k]), "", show_atoms(b.get(k, "?")), "", show_atoms(c.get(k, "?"))))
        print("implementation == model(fixed): %s   implementation == model(pinned, fx=false): %s" % (io == mo, io == po))
        print("oracle (spec on the implementation's output):", vlib.run([drv, "pattern-oracle", p, ip])[1].strip()[:1500])
    return 0
