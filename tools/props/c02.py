"""C02: reported indices are a valid witness of the match."""
import mcommon
from mcommon import prepare  # noqa

TRUSTED = ["memchr/memmem modelled by their specification"]
ASSUMPTIONS = ["needles already normalised"]


def view(o):
    return (o["k"], tuple(o.get("idx", [])))


def clauses(c, i, m, f):
    out = []
    if i["k"] == "X":
        out.append(("variants", "indices variant inconsistent with score-only variant / prior content (%s)" % i["raw"][:160]))
        return out
    if i["k"] != "M" or f.get("nok") != 1 or not c["n"]:
        return out
    if f.get("emb") != 1:
        out.append(("witness", "reported indices %s are not one strictly increasing, in-range index per needle character whose haystack character normalises to it" % i["idx"][:20]))
        return out
    if c["algo"] in "SPOE":
        if f.get("contig") != 1:
            out.append(("shape", "indices are not contiguous"))
        st = i["idx"][0]
        want = {"P": f.get("pre"), "O": f.get("post"), "E": f.get("ex")}.get(c["algo"], st)
        if c["algo"] in "POE" and want is not None and st != want:
            out.append(("shape", "match is anchored at %d, the kind requires %d" % (st, want)))
    return out


def run(ctx, broken):
    lines = mcommon.base_lines(ctx)
    if ctx["tier"] == "thorough":
        lines += mcommon.exhaustive_lines(ctx, "FGSPOE", "c02")
    res = mcommon.generic_run(ctx, lines, view, clauses,
                               "same generator as C01, all six algorithms; the indices variant is called with a non-empty prior vector [4000000007, 9] whose preservation is checked; compared: (decision, appended indices) of implementation vs model; oracle: embedding_b / contiguity / anchoring from Spec/Matching.v on the implementation's indices. Non-trivial = distinct case with non-empty strings. "
                               "Atom::indices / Pattern::indices (also indices-returning match functions): a reduced run of the C15 stream (corpus + 2500 structured cases); its oracle clauses on indices (same decision as the score variant, one index per needle character of every positive atom, nothing appended by a failed or negated atom) count for this property.", tag="c02")
    import c15
    fs, ev = c15.subset_failures(ctx, {"atom_indices", "indices", "panic"}, 2500)
    res["failures"] += [dict(f, cls_origin="C15 stream") for f in fs]
    res["evaluations"] += ev
    return res


def known(f, kf):
    return None


def replay(path):
    import json
    f = (json.load(open(path)).get("failure") or {})
    if f.get("cls_origin") == "C15 stream":
        import c15
        return c15.replay(path)
    return mcommon.replay(path)
