"""C05: substring, prefix, postfix, exact decide the documented relations."""
import mcommon
from mcommon import prepare, replay  # noqa

TRUSTED = ["memchr / memmem modelled by their specification (all occurrence positions, ascending)"]
ASSUMPTIONS = ["needles already normalised",
               "whitespace for trimming is the predicate the code applies to that representation (is_ascii_whitespace for byte strings, char::is_whitespace otherwise; they differ only on U+000B)",
               "known finding K1 (ASCII haystack + Unicode-tagged needle) excluded"]


def view(o):
    return (o["k"], o["idx"][0] if o.get("idx") else None)


def clauses(c, i, m, f):
    out = []
    a = c["algo"]
    if a not in "SPOE" or f.get("nok") != 1 or not c["n"]:
        return out
    if i["k"] == "X":
        return [("variants", i["raw"][:160])]
    if i["k"] == "P":
        return [("panic", "matcher panicked")]
    if a == "S":
        if "occ" not in f:
            return out
        want = f["occ"]
    else:
        want = {"P": f.get("pre"), "O": f.get("post"), "E": f.get("ex")}[a]
    got = i["idx"][0] if i["k"] == "M" and i["idx"] else None
    if (want is None) != (i["k"] != "M"):
        out.append(("decision", "%s match: implementation says %s, the documented relation says %s" % (
            {"S": "substring", "P": "prefix", "O": "postfix", "E": "exact"}[a], "match" if i["k"] == "M" else "no match",
            "no match" if want is None else "match at %d" % want)))
    elif want is not None and got != want:
        out.append(("position", "match reported at %s, expected %d (%s)" % (got, want, "leftmost occurrence with the highest bonus" if a == "S" else "anchored")))
    return out


def run(ctx, broken):
    lines = [l for l in mcommon.base_lines(ctx) if l.split(" ")[1] in "SPOE"]
    if ctx["tier"] == "thorough":
        lines += mcommon.exhaustive_lines(ctx, "SPOE", "c05")
    return mcommon.generic_run(ctx, lines, view, clauses,
                               "contiguous-slice stream (occurrences at the start / end / middle, leading and trailing whitespace of 8 kinds, needles starting with several non-letters, overlapping occurrences) plus the general streams; compared: (decision, start index); oracle: spec_substring_pos / spec_prefix / spec_postfix / spec_exact from Spec/Matching.v. Non-trivial = distinct case with non-empty strings.", tag="c05")


def known(f, kf):
    if f.get("case"):
        c = mcommon.parse_case(f["case"])
        if mcommon.known_repr(c) and f["class"] == "decision":
            for k in kf.get("known", []):
                if k["id"] == "K1":
                    return k
    return None
