"""C05: substring, prefix, postfix, exact decide the documented relations."""
import mcommon
from mcommon import prepare  # noqa

TRUSTED = ["memchr / memmem modelled by their specification (all occurrence positions, ascending)"]
ASSUMPTIONS = ["needles already normalised",
               "whitespace for trimming is the predicate the code applies to that representation (is_ascii_whitespace for byte strings, char::is_whitespace otherwise; they differ only on U+000B)",
               "known finding K1 (ASCII haystack + Unicode-tagged needle) excluded"]


def view(o):
    return (o["k"], o["idx"][0] if o.get("idx") else None)


def clauses(c, i, m, f):
    out = []
    a = c["algo"]
    if a not in "SPOE" or f.get("nok") != 1 or not c["n"]:
        return out
    if i["k"] == "X":
        return [("variants", i["raw"][:160])]
    if i["k"] == "P":
        return [("panic", "matcher panicked")]
    if a == "S":
        if "occ" not in f:
            return out
        want = f["occ"]
    else:
        want = {"P": f.get("pre"), "O": f.get("post"), "E": f.get("ex")}[a]
    got = i["idx"][0] if i["k"] == "M" and i["idx"] else None
    if (want is None) != (i["k"] != "M"):
        out.append(("decision", "%s match: implementation says %s, the documented relation says %s" % (
            {"S": "substring", "P": "prefix", "O": "postfix", "E": "exact"}[a], "match" if i["k"] == "M" else "no match",
            "no match" if want is None else "match at %d" % want)))
    elif want is not None and got != want:
        out.append(("position", "match reported at %s, expected %d (%s)" % (got, want, "leftmost occurrence with the highest bonus" if a == "S" else "anchored")))
    return out


def run(ctx, broken):
    lines = [l for l in mcommon.base_lines(ctx) if l.split(" ")[1] in "SPOE"]
    if ctx["tier"] == "thorough":
        lines += mcommon.exhaustive_lines(ctx, "SPOE", "c05")
    res = mcommon.generic_run(ctx, lines, view, clauses,
                               "contiguous-slice stream (occurrences at the start / end / middle, leading and trailing whitespace of 8 kinds, needles starting with several non-letters, overlapping occurrences) plus the general streams; compared: (decision, start index); oracle: spec_substring_pos / spec_prefix / spec_postfix / spec_exact from Spec/Matching.v. Non-trivial = distinct case with non-empty strings. "
                               "Atom level (the substring / prefix / postfix / exact atoms reach these algorithms through Atom::score and Atom::indices, which set the matcher's flags themselves): a reduced run of the C15 stream; its atom_indices / panic clauses on atoms of these four kinds (Atom::indices decides like Atom::score on a Matcher with left-over flags) count for this property.", tag="c05")
    import c15
    fs, ev = c15.subset_failures(ctx, {"atom_indices", "panic"}, 2500)
    fs = [f for f in fs if any(k in (f.get("what") or "") for k in ("Substring(", "Prefix(", "Postfix(", "Exact("))]
    res["failures"] += [dict(f, cls_origin="C15 stream") for f in fs]
    res["evaluations"] += ev
    return res


def known(f, kf):
    if f.get("case") and f.get("cls_origin") != "C15 stream":
        c = mcommon.parse_case(f["case"])
        if mcommon.known_repr(c) and f["class"] == "decision":
            for k in kf.get("known", []):
                if k["id"] == "K1":
                    return k
    return None


def replay(path):
    import json
    f = (json.load(open(path)).get("failure") or {})
    if f.get("cls_origin") == "C15 stream":
        import c15
        return c15.replay(path)
    return mcommon.replay(path)
