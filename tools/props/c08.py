"""C08: the injector's item vector is a linearizable append-only sequence."""
import json
import os

import bcommon
import vlib
from bcommon import prepare  # noqa

TRUSTED = ["sequentially consistent interleaving semantics at the granularity of the cfg(nucleo_verif) yield points (between two yield points of a thread there is at most one shared access another thread can observe); weak-memory behaviour is C09's subject",
           "the scheduler harness (harness/hn/src/sched.rs) parks real threads at the yield points"]
ASSUMPTIONS = ["histories: one matcher column; values are ids; fill callbacks write cols = 2*id+1 or panic", "layout probe: single threaded, 1-5 columns, item alignments 1..64", "column probe: public Nucleo API, 1-3 columns, one pool thread, restart(false) and restart(true)"]


def oracle(line, vals, obs):
    """spec-level checks on the implementation's observations of one history"""
    fails = []
    evs = line.split(";")
    owner = {}       # index -> value id (from completed pushes / publish yields)
    completed = {}   # index -> value (push returned)
    reserved_hi = 0
    last_count = 0
    thr_val = {}
    thr_ext = {}
    ranges = []
    for e, o in zip(evs, obs):
        p = e.split(" ")
        if p[0] == "sp":
            if p[2] == "push":
                thr_val[p[1]] = int(p[3])
            else:
                thr_ext[p[1]] = (int(p[3]), [] if p[4] == "-" else [int(x) for x in p[4].split(",")])
        elif p[0] == "st":
            t = p[1]
            if o.startswith("Y1,"):
                idx = int(o[3:])
                if idx in owner or any(a <= idx < b for a, b in ranges):
                    fails.append(("distinct", "index %d handed out twice" % idx))
                owner[idx] = thr_val.get(t)
                ranges.append((idx, idx + 1))
            elif o.startswith("Y4,"):
                st = int(o[3:])
                cnt = thr_ext[t][0]
                if any(a < st + cnt and st < b for a, b in ranges):
                    fails.append(("distinct", "extend range [%d,%d) overlaps an earlier reservation" % (st, st + cnt)))
                ranges.append((st, st + cnt))
                for k, v in enumerate(thr_ext[t][1][:cnt]):
                    owner[st + k] = v
            elif o.startswith("R") and o != "R-" and t in thr_val:
                completed[int(o[1:])] = thr_val[t]
        elif p[0] == "get":
            i = int(p[1])
            if o != "G-":
                v, c = o[1:].split(",")
                if i not in owner:
                    fails.append(("phantom", "get(%d) returned an item although no push was assigned that index" % i))
                elif str(owner[i]) != v or c != str(2 * owner[i] + 1):
                    fails.append(("torn", "get(%d) returned value %s / columns %s, the push assigned value %s with columns %s" % (i, v, c, owner[i], 2 * owner[i] + 1)))
            elif i in completed:
                fails.append(("stable", "get(%d) returned nothing after the push of that index had returned" % i))
        elif p[0] == "count":
            c = int(o[1:])
            if c < last_count:
                fails.append(("count", "injected_items went down from %d to %d" % (last_count, c)))
            if c < len(completed):
                fails.append(("count", "injected_items %d is smaller than the %d completed pushes" % (c, len(completed))))
            last_count = c
    if obs and obs[-1].startswith("W") and obs[-1] != "W0":
        fails.append(("torn", "while a fill callback was running a lookup returned an item whose columns were not (yet) what its fill produced (index:value %s): the item was published before it was completely written" % obs[-1][1:]))
    # gap-free: union of ranges is [0, max)
    ranges.sort()
    pos = 0
    for a, b in ranges:
        if a != pos:
            fails.append(("distinct", "reserved indices have a gap or overlap at %d (next range starts at %d)" % (pos, a)))
            break
        pos = b
    return fails


def run(ctx, broken):
    hist = bcommon.histories(ctx["seed"], ctx["tier"])
    recs, errs = bcommon.run(ctx, hist)
    res = {"evaluations": len(recs), "distinct_nontrivial": 0, "rule": "", "samples": [], "disagreements": [], "failures": [], "extra": {}}
    for e in errs:
        res["disagreements"].append({"what": e})
    nt = set()
    steps = 0
    for line, vals, io, mo in recs:
        steps += len(io)
        if mo is not None and io != mo and len(res["disagreements"]) < 30:
            k = next((j for j in range(min(len(io), len(mo))) if io[j] != mo[j]), min(len(io), len(mo)))
            res["disagreements"].append({"what": "history `%s`: observation %d differs: implementation `%s`, model `%s`" % (line[:300], k, io[k] if k < len(io) else "-", mo[k] if k < len(mo) else "-"), "case": line})
        for cls, what in oracle(line, vals, io):
            res["failures"].append({"class": cls, "what": what + " -- history: " + line[:400], "case": line})
        if any(o.startswith("Y") for o in io):
            nt.add(line)
    pn, pf = bcommon.layout_probe(ctx)
    kn, kf = bcommon.capacity_probe(ctx)
    cn, cf = bcommon.columns_probe(ctx)
    pn, pf = pn + cn + kn, kf + cf + pf
    res["failures"] = pf[:20] + res["failures"][:200]
    res["evaluations"] += pn
    res["distinct_nontrivial"] = len(nt) + pn
    res["rule"] = ("random histories over a fresh boxcar vector (capacities 0,1,31,32,33,100): 1-5 threads doing push / extend (honest and lying ExactSizeIterators, "
                   "panicking fills), each parked by the scheduler at every yield point (after fetch_add, before every bucket CAS, before every publication) and stepped in "
                   "random order, interleaved with get / count / snapshot probes; styles: mixed, bucket-boundary races, lying extends. Every observation is compared with the "
                   "extracted model's and checked by the spec oracle (distinct gap-free indices, no phantom / torn / vanishing items, monotone count). Non-trivial = history "
                   "in which at least one thread was parked mid-operation. %d observations in total." % steps) + bcommon.LAYOUT_RULE + bcommon.COLUMNS_RULE + " Capacity probe: the reservation counter driven past 2^32 by batches that over-report their length; no index may be handed out twice afterwards." + " %d probe cases." % pn
    res["samples"] = [{"history": r[0][:300], "implementation": ";".join(r[2])[:300]} for r in recs[:3]]
    res["extra"] = {"observations": steps, "layout_probe_cases": pn}
    # a publication that is not release / acquire lets a lookup return an item that is not completely written (under
    # the language memory model; the histories above interleave at the granularity of the atomic operations and cannot
    # show it): the ordering requirement of C09 on the translated table of atomic sites counts for this property too
    import c09
    sub = {"evaluations": 0, "distinct_nontrivial": 0, "rule": "", "samples": [], "disagreements": [], "failures": [], "extra": {}}
    c09.ordering_oracle(ctx, [], sub)
    res["failures"] += [dict(f, cls_origin="C09 orderings") for f in sub["failures"] if f.get("class") == "ordering"]
    res["rule"] += " Memory orderings of the publication protocol: the requirement of C09 (entries / active loads >= Acquire, stores >= Release, CAS (Release, Acquire)) evaluated on the translated table of atomic sites."
    return res


def known(f, kf):
    return None


def replay(path):
    d = json.load(open(path))
    f = d.get("failure") or {}
    print(f.get("what", json.dumps(d)[:2000]))
    if f.get("case") and bcommon.replay_probe(f["case"]):
        return 0
    if f.get("case"):
        hn = vlib.build_harness("hn")
        p = os.path.join(vlib.SCRATCH, "replay_bx.txt")
        os.makedirs(vlib.SCRATCH, exist_ok=True)
        open(p, "w").write(f["case"] + "\n")
        print("implementation:", vlib.run([hn, "boxcar", p])[1].strip())
        print("model:         ", vlib.run([os.path.join(vlib.OCAML, "driver"), "boxcar", p])[1].strip())
    return 0
