"""C16: character normalization -- exhaustive per-scalar correspondence + oracle on the implementation."""
import bisect
import json
import os

import vlib

TRUSTED = [
    "Rust std predicates char::is_lowercase/is_numeric/is_alphabetic/is_whitespace and u8::is_ascii_whitespace are MODELLED by range tables dumped from the installed toolchain (coq/Gen/GenStdUnicode.v)",
    "reference Unicode data: simple case folding from Perl Unicode::UCD 14.0.0, NFKD/categories from Python unicodedata 14.0.0 (coq/Gen/GenUnicodeRef.v)",
    "binary_search_by_key over a strictly ascending table is modelled as a lookup (ascending keys are theorem C16_table_sorted)",
]
ASSUMPTIONS = [
    "default cargo features (unicode-normalization, unicode-casefold)",
    "the composition normalize-then-fold is NOT idempotent for U+0194, U+0198, U+01F6, U+1E9E (lemma norm_not_idem_witness); the property only asks idempotence of each map",
]
NSHARD = 16
LIMIT = 0x110000


def prepare(ctx):
    ctx["hm"] = ctx["build"]("hm")


def shards():
    step = LIMIT // NSHARD
    return [(i * step, (i + 1) * step if i < NSHARD - 1 else LIMIT) for i in range(NSHARD)]


def parse_runs(text):
    runs = {}
    for line in text.splitlines():
        p = line.split()
        runs.setdefault(p[0], []).append(tuple(int(x) for x in p[1:]))
    return runs


def expand_diff(impl_txt, model_txt, limit=40):
    """per-scalar differences between two RLE tables"""
    out = []
    ri, rm = parse_runs(impl_txt), parse_runs(model_txt)
    for tag in sorted(set(ri) | set(rm)):
        a = {}
        for s, l, *v in ri.get(tag, []):
            if l - s > 70000:
                continue
            for c in range(s, l + 1):
                a[c] = v
        for s, l, *v in rm.get(tag, []):
            if l - s > 70000:
                continue
            for c in range(s, l + 1):
                if a.get(c) != v:
                    out.append({"table": tag, "c": c, "impl": a.get(c), "model": v})
                    if len(out) >= limit:
                        return out
    return out


def run(ctx, broken):
    hm, drv = ctx["hm"], ctx["driver"]
    sh = shards()
    impl = vlib.parallel([[hm, "chars-sweep", str(a), str(b)] for a, b in sh], tag="c16i")
    res = {"evaluations": 0, "distinct_nontrivial": 0, "rule": "", "samples": [], "disagreements": [], "failures": [], "extra": {}}
    impl_txt = "".join(o for _, o, _ in impl)
    if any(rc != 0 for rc, _, _ in impl):
        res["disagreements"].append({"what": "implementation sweep crashed: " + " | ".join(e[-200:] for rc, _, e in impl if rc)})
        return res
    if drv:
        model = vlib.parallel([[drv, "chars-sweep", str(a), str(b)] for a, b in sh], tag="c16m")
        for (a, b), (rci, oi, _), (rcm, om, em) in zip(sh, impl, model):
            if rcm != 0:
                res["disagreements"].append({"what": "model sweep crashed on [%d,%d): %s" % (a, b, em[-200:])})
            elif oi != om:
                for d in expand_diff(oi, om, 12):
                    res["disagreements"].append({"what": "table %s U+%04X: implementation %s, model %s (fields: G=fold-c,is_upper,normalize-c; U/A<paths><ignore_case><normalize>=norm-c,class_norm-c,class_norm class,char_class)" % (d["table"], d["c"], d["impl"], d["model"]), **d})
    # ---- every site of the matcher that normalises a haystack character sees what Char::normalize sees ----
    rcs, outs, errs_ = vlib.run([hm, "sites-probe", "0", "1114112"], timeout=600)[:3]
    ncalls = 0
    nsite = 0
    for l in outs.splitlines():
        if l.startswith("# calls"):
            ncalls = int(l.split()[2])
        elif l.strip():
            cfgn, algo, variant, shape, hr, nr, c, ncp, got = l.split()
            nsite += 1
            if nsite <= 150:
                res["failures"].append({"class": "sites", "c": int(c), "what": "U+%04X: %s (%s variant) on the haystack shape `%s` [%s] with the needle U+%04X [%s] (= Char::normalize of the character) under cfg paths,ignore_case,normalize=%s answers %s: this site does not see the normalised character" % (
                    int(c), {"F": "fuzzy_match", "G": "fuzzy_match_greedy", "S": "substring_match", "P": "prefix_match", "O": "postfix_match", "E": "exact_match"}[algo], variant, shape, hr, int(ncp), nr, cfgn, "match" if got == "1" else "no match")})
    if rcs != 0:
        res["disagreements"].append({"what": "sites probe crashed: " + errs_[-300:]})
    res["extra"]["sites_probe_calls"] = ncalls
    # ---- oracle on the implementation's own output -------------------------------------------------
    ref = json.load(open(os.path.join(vlib.COQ, "Gen", "unicode_ref.json")))
    reffold = {a: b for a, b in ref["fold"]}
    keys = sorted(reffold)
    runs = parse_runs(impl_txt)
    fold = {}
    nrm = {}
    fails = []
    nontrivial = set()

    def fail(cls, c, what):
        if len(fails) < 200:
            fails.append({"class": cls, "c": c, "what": "U+%04X: %s" % (c, what)})

    def in_blocks(c):
        return any(lo <= c <= hi for lo, hi in ref["blocks"])

    scalars = 0
    for s, l, dfold, isup, dnorm in runs.get("G", []):
        scalars += l - s + 1
        # keys of the reference table inside this run
        i0, i1 = bisect.bisect_left(keys, s), bisect.bisect_right(keys, l)
        inside = keys[i0:i1]
        if dfold == 0 and isup == 0:
            for c in inside:
                fail("fold_ref", c, "to_lower_case leaves it, Unicode simple folding is U+%04X" % reffold[c])
        else:
            for c in range(s, l + 1):
                exp = reffold.get(c, c)
                if c + dfold != exp:
                    fail("fold_ref", c, "to_lower_case gives U+%04X, Unicode simple folding gives U+%04X" % (c + dfold, exp))
                if bool(isup) != (c in reffold):
                    fail("fold_ref", c, "is_upper_case=%s but has%s simple folding" % (bool(isup), "" if c in reffold else " no"))
                fold[c] = c + dfold
                nontrivial.add(c)
        if dnorm != 0:
            for c in range(s, l + 1):
                nrm[c] = c + dnorm
                nontrivial.add(c)
                if not in_blocks(c):
                    fail("norm_blocks", c, "normalize changes a character outside the documented blocks")
                if c < 128:
                    fail("ascii", c, "normalize changes ASCII")
    for c, a in ref["nfkd"]:
        got = nrm.get(c, c)
        if got != a:
            fail("norm_nfkd", c, "NFKD is %r + combining marks but normalize gives %r (U+%04X)" % (chr(a), chr(got), got))
    for c, v in nrm.items():
        if nrm.get(v, v) != v:
            fail("norm_idem", c, "normalize(normalize(c)) = U+%04X differs from normalize(c) = U+%04X" % (nrm.get(v, v), v))
    for c, v in fold.items():
        if fold.get(v, v) != v:
            fail("fold_idem", c, "folding twice gives U+%04X, once U+%04X" % (fold.get(v, v), v))
        if c < 128 and not (65 <= c <= 90 and v == c + 32):
            fail("ascii", c, "case folding changes ASCII outside A-Z (or not by +32)")
    for c in range(65, 91):
        if fold.get(c) != c + 32:
            fail("ascii", c, "A-Z must fold to a-z")
    for tag, rs in runs.items():
        if tag == "G":
            continue
        for s, l, dn, dcn, k, kc in rs:
            if k != 1 and l - s < 70000:  # class other than NonWord
                nontrivial.update(range(s, l + 1))
            if dn != dcn:
                for c in range(s, min(l, s + 50) + 1):
                    fail("coherent", c, "cfg %s (%s repr; paths,ignore_case,normalize): Char::normalize gives U+%04X but char_class_and_normalize gives U+%04X" % (tag[1:], "ASCII" if tag[0] == "A" else "char", c + dn, c + dcn))
            if k != kc:
                for c in range(s, min(l, s + 50) + 1):
                    fail("coherent", c, "cfg %s: class from char_class_and_normalize (%d) differs from char_class (%d)" % (tag[1:], k, kc))
    res["failures"] = res["failures"] + fails
    res["evaluations"] = scalars * (3 + 8 * 4) + 128 * 8 * 4
    res["distinct_nontrivial"] = len(nontrivial)
    res["exhaustive"] = True
    res["rule"] = ("exhaustive: every Unicode scalar value (%d) through to_lower_case, is_upper_case, normalize and, for each of 8 configurations "
                   "(default/path x ignore_case x normalize), Char::normalize, char_class_and_normalize, char_class of both impls; implementation "
                   "output compared run-by-run with the extracted Coq model and checked against the reference data. A scalar is non-trivial when a "
                   "map changes it or its class is not NonWord; counted on the implementation's output. Sites probe: for every scalar with a non-trivial "
                   "normalisation or a case (and all below U+0250), under each configuration, the character alone / between fillers / doubled / twice with gaps "
                   "is matched against its own normalised form (one- and two-character needles) through all twelve matcher entry points in every representation "
                   "combination: the decision must be the one Char::normalize implies at every site (prefilter, scoring, comparing)." % scalars)
    res["samples"] = [{"table": t, "run": list(r)} for t in ("G", "U011", "A010") for r in runs.get(t, [])[40:43]]
    res["extra"] = {"sites_probe_calls": res["extra"].get("sites_probe_calls", 0), "scalars": scalars, "reference": {"fold_pairs": len(reffold), "nfkd_rows": len(ref["nfkd"])}}
    # the normalisation applied to a haystack character must not depend on what the Matcher was used for before: the
    # Atom level sets the matcher's normalize / ignore_case flags itself on every call (reduced C15 stream; its
    # `state` and `atom_indices` clauses - flags after a call are the atom's, Atom::indices decides like Atom::score on a
    # shared Matcher with left-over flags - count for this property; round 6, C16-m12)
    import c15
    fs, ev = c15.subset_failures(ctx, {"state", "atom_indices"}, 2500)
    res["failures"] += [dict(f, cls_origin="C15 stream") for f in fs]
    res["evaluations"] += ev
    res["rule"] += " Atom level: reduced C15 stream (flags left in a shared Matcher never change which normalisation an atom's call applies)."
    return res


KNOWN_CLASSES = {}


def known(f, kf):
    if f.get("cls_origin") == "C15 stream":
        return None
    for k in kf.get("known", []):
        if k["property"] == "C16" and k.get("class") == f["class"] and f["c"] in k.get("code_points", []):
            return k
    return None


def broken_known(b, kf, failures):
    return False


def replay(path):
    d = json.load(open(path))
    if (d.get("failure") or {}).get("cls_origin") == "C15 stream":
        import c15
        return c15.replay(path)
    print(json.dumps(d, indent=1, ensure_ascii=False))
    f = d.get("failure")
    if f and "c" in f:
        hm = vlib.build_harness("hm")
        rc, out, err, _ = vlib.run([hm, "chars-sweep", str(f["c"]), str(f["c"] + 1)])
        print("implementation on U+%04X:\n%s" % (f["c"], out))
        drv = os.path.join(vlib.OCAML, "driver")
        rc, out, err, _ = vlib.run([drv, "chars-sweep", str(f["c"]), str(f["c"] + 1)])
        print("model on U+%04X:\n%s" % (f["c"], out))
    return 0
