"""C15: pattern scores compose as a conjunction of atoms with negation.

Correspondence: the real Atom / Pattern / MultiPattern functions (harness `hm c15-run`, ONE shared Matcher whose
ignore_case / normalize are left over from earlier calls and scrambled between calls) against the extracted
model of Model/PatternScore.v (`driver c15`), on cases whose atoms were built by the real constructors and
resolved into their fields by `hm c15-prepare` (so the model depends neither on the pattern parser - C14 - nor
on the grapheme conversion - C17).  Oracle: the property's clauses evaluated on the implementation's output."""
import hashlib
import itertools
import json
import os
import random

import vlib

TRUSTED = [
    "slice::sort_by_key is modelled by its contract (stable sort): the model's insertion sort is proved to be the unique stable descending permutation (C15_sort_contract, C15_sort_unique)",
    "Atom fields come from the real constructors: negative/kind/needle through the public API, ignore_case/normalize read off the derived Debug output (hm c15-prepare); the pattern parser itself is C14's subject",
    "Utf32Str::new(item, buf) inside match_list is an input of the model (parameter conv); the harness prints the conversion the real code makes",
    "the Matcher entry points are the model `run` of Model/Matcher.v (tied by C01-C05/C10's correspondence); C15 adds the per-atom inner call on a fresh, hand-configured Matcher as an independent observation",
]
ASSUMPTIONS = [
    "theorems about composite results assume the inner Matcher calls do not panic (C10's claim) and return u16 scores (Rust type); the configuration-independence theorems assume nothing",
    "u32 accumulation: at most 65537 atoms per pattern / per zipped multi-pattern (65537 * 65535 = 2^32 - 1)",
    "Atom::match_list is modelled AFTER the proposed one-line fix (fix_1.diff: the empty-needle shortcut applies to positive atoms only); the unfixed shortcut is refuted by C15_atom_match_list_unfixed_refuted",
    "MultiPattern::score zips columns with haystacks: surplus columns or haystacks are ignored (modelled as the code does it; nucleo itself always passes matching column counts)",
    "a failed Pattern::indices leaves the indices of the atoms in front of the first rejecting atom appended (modelled and proved as C15_indices; the property text makes no claim for failed matches)",
]


def prepare(ctx):
    ctx["hm"] = ctx["build"]("hm")


# ------------------------------------------------------------------------------------------------------
# generator
# ------------------------------------------------------------------------------------------------------
WORDS = ["foo", "bar", "baz", "src", "main", "lib", "rs", "Foo", "Bar", "README", "md", "a", "b", "ab", "x1", "2",
         "test", "Cargo", "toml", "fooBar", "A", "B", "aa", "ba", "FOO", "o", "f"]
UWORDS = ["\u00e4", "\u00c4pfel", "\u00fcber", "na\u00efve", "caf\u00e9", "\u017ftra\u00dfe", "\u4f60\u597d", "\u03c3\u03c2", "\u03a3\u0391\u03a3",
          "e\u0301", "\u01c5", "x\u0308y", "\u00b5m", "\u1e0b", "\u2079", "\u212a", "\u0130", "\u00c9cole", "\u00e9cole", "e\u0301\u0301a", "\u1100\u1161"]
SEPS = ["/", "_", "-", ".", " ", "::", "", ",", "\\"]
CASES = "RIS"
NORMS = "NS"
KINDS = "FSPOE"


def cps(s):
    return ",".join(str(ord(c)) for c in s) if s else "-"


def rand_hay(rng, uni_p):
    n = rng.choice([0, 1, 1, 2, 2, 3, 3, 4])
    parts = []
    for i in range(n):
        parts.append(rng.choice(UWORDS) if rng.random() < uni_p else rng.choice(WORDS))
        if i + 1 < n:
            parts.append(rng.choice(SEPS))
    h = "".join(parts)
    r = rng.random()
    if r < 0.08:
        h = rng.choice([" ", "\t", "\u3000", "  "]) + h
    elif r < 0.16:
        h = h + rng.choice([" ", "\t", "\u00a0", "\r\n"])
    return h


def derive(rng, h, pool, cm="S"):
    """(kind, text) of an atom that mostly matches haystack h with that kind"""
    mode = rng.random()
    if not h or mode < 0.05:
        return rng.choice(KINDS), rng.choice(WORDS + UWORDS[:6])
    kind = rng.choice(KINDS)
    L = len(h)
    if kind == "F":
        keep = [c for c in h if rng.random() < 0.5][:6] or [h[0]]
        t = "".join(keep)
    elif kind == "S":
        a = rng.randrange(L)
        t = h[a:a + rng.randint(1, 5)]
    elif kind == "P":
        t = h[:rng.randint(1, min(L, 5))]
    elif kind == "O":
        t = h[-rng.randint(1, min(L, 5)):]
    else:
        t = h
    r = rng.random()
    if cm == "R" and r < 0.5:
        r = 0.9   # case-respecting atoms: mostly keep the haystack's case
    if r < 0.45:
        t = t.lower()
    elif r < 0.50:
        t = t.upper()
    elif r < 0.54 and t:
        i = rng.randrange(len(t))
        t = t[:i] + rng.choice("qz7%") + t[i + 1:]
    if rng.random() < 0.06:
        kind = rng.choice(KINDS)
    return kind, t


def escape_word(rng, t):
    """make text survive pattern splitting (mostly): escape spaces, sometimes leading markers / trailing $"""
    out = []
    for c in t:
        if c in " \t" and rng.random() < 0.85:
            out.append("\\ " if c == " " else "")
        else:
            out.append(c)
    t = "".join(out)
    if t[:1] in "!^'" and rng.random() < 0.7:
        t = "\\" + t
    if t[-1:] == "$" and rng.random() < 0.7:
        t = t[:-1] + "\\$"
    return t


def parsed_word(rng, kind, neg, t):
    w = escape_word(rng, t)
    pre = "!" if neg else ""
    if kind == "S":
        return pre + ("'" if not neg or rng.random() < 0.5 else "") + w
    if kind == "P":
        return pre + "^" + w
    if kind == "O":
        return pre + w + "$"
    if kind == "E":
        return pre + "^" + w + "$"
    return pre + w


def gen_col(rng, style, hays):
    """one column spec; hays: the haystack texts this column will be run on"""
    cm, nm = rng.choice(CASES), rng.choice(NORMS + "S")
    natoms = rng.choice([0, 1, 1, 2, 2, 3, 3, 4, 5]) if style != "big" else rng.randint(12, 40)
    atoms = []
    # most atoms are derived from ONE target haystack so that multi-atom patterns match it; negated atoms
    # are mostly derived from something else (so they accept the target)
    target = hays[0] if hays else ""
    others = [h for h in hays if h != target] or [rng.choice(WORDS)]
    for _ in range(natoms):
        neg = rng.random() < 0.3
        if neg:
            src = rng.choice(others) if rng.random() < 0.65 else target
        else:
            src = target if rng.random() < 0.88 else rng.choice(others)
        kind, t = derive(rng, src, hays, cm)
        atoms.append((neg, kind, t))
    if style == "P":
        ws = rng.choice([" ", " ", " ", "  ", "\t", "\u3000"])
        text = ws.join(parsed_word(rng, k, n, t) for n, k, t in atoms)
        if rng.random() < 0.05:
            text = " " + text + " "
        return "P%s%s:%s" % (cm, nm, cps(text))
    if style == "W":
        return "W%s%s%s:%s" % (cm, nm, rng.choice(KINDS), cps(" ".join(escape_word(rng, t) for _, _, t in atoms)))
    specs = []
    for neg, kind, t in atoms:
        if rng.random() < 0.03:
            t = ""
        specs.append("%d%s%s%s%d:%s" % (neg, kind, rng.choice(CASES), rng.choice(NORMS + "S"), rng.random() < 0.5, cps(t)))
    return "L" + "+".join(specs)


def rand_cfg(rng):
    return "".join(rng.choice("01") for _ in range(4))


def gen_case(rng, cid, style):
    uni_p = rng.choice([0, 0, 0.15, 0.5])
    ncols = rng.choice([1, 1, 1, 2, 3]) if style in "PL" else 1
    pool = [[rand_hay(rng, uni_p) for _ in range(rng.randint(1, 4))] for _ in range(ncols)]
    nrows = rng.randint(1, 7)
    rows = [[pool[k][0] if rng.random() < 0.55 else rng.choice(pool[k]) for k in range(ncols)] for _ in range(nrows)]
    cols = [gen_col(rng, style if style != "big" else "big", pool[k]) for k in range(ncols)]
    scr = 0 if rng.random() < 0.3 else rng.randint(1, 2 ** 31)
    return spec_line(cid, rand_cfg(rng), scr, cols, rows)


def spec_line(cid, cfg, scr, cols, rows):
    return "%d %s %d %s %s" % (cid, cfg, scr, ";".join(cols) if cols else "-",
                               ";".join("|".join(cps(t) for t in r) if r else "~" for r in rows) if rows else "-")


MARKER_SOUP = ["!", "^", "$", "'", "\\", "!^", "^$", "!^$", "!'", "\\!", "\\^", "\\$", "!\\", "a\\", "a\\ ", "\\ ", "' ", "!$", "$$",
               "^^a", "a$$", "!!a", "a\\$", "!a\\$", "\\'a", "\\!a$", "a b\\", "\u3000", "a\u3000b", "ä\\ b", "ä\\b", "!ä", "^Ä$",
               "föo", "a\r\nb", "\r\n", "é", "!é$"]


def gen_malformed(rng, cid):
    """inputs outside the comfortable shape: marker-only / escape-heavy pattern text, empty needles, empty
    haystacks, CR LF and combining marks, column-count mismatches, zero columns, zero rows, duplicate rows"""
    r = rng.random()
    cfg = rand_cfg(rng)
    scr = rng.randint(0, 2 ** 31)
    hays = ["", "a", "!", "^a$", "a b", "ä b", "föo", "foo", "a\r\nb", "\\", "$", "é", " ", "a$", "!a", "É"]
    if r < 0.45:
        ncols = rng.randint(1, 3)
        cols = []
        for _ in range(ncols):
            text = rng.choice([" ", " ", "  ", "\t"]).join(rng.choice(MARKER_SOUP + WORDS[:6]) for _ in range(rng.randint(0, 4)))
            cols.append("P%s%s:%s" % (rng.choice(CASES), rng.choice(NORMS), cps(text)))
        rows = [[rng.choice(hays) for _ in range(ncols)] for _ in range(rng.randint(0, 5))]
        return spec_line(cid, cfg, scr, cols, rows)
    if r < 0.7:  # column-count mismatch (MultiPattern zip), zero columns
        ncols = rng.randint(0, 3)
        cols = ["P%s%s:%s" % (rng.choice(CASES), rng.choice(NORMS), cps(" ".join(rng.choice(WORDS[:8] + ["!a", "^f", "o$", "zz"]) for _ in range(rng.randint(0, 3)))))
                for _ in range(ncols)]
        rows = [[rng.choice(hays + ["foo", "bar", "foobar", "Foo"]) for _ in range(rng.randint(0, 4))] for _ in range(rng.randint(0, 5))]
        return spec_line(cid, cfg, scr, cols, rows)
    # explicit atoms with empty needles / every polarity-kind mix, rows with heavy duplication (sort stability)
    atoms = []
    for _ in range(rng.randint(0, 4)):
        t = rng.choice(["", "", "a", "o", "fo", "A", " ", "ä", "\\ "])
        atoms.append("%d%s%s%s%d:%s" % (rng.random() < 0.5, rng.choice(KINDS), rng.choice(CASES), rng.choice(NORMS), rng.random() < 0.5, cps(t)))
    base = [rng.choice(hays + ["foo", "ofo", "oof", "Foo", "f o o"]) for _ in range(rng.randint(1, 3))]
    rows = [[rng.choice(base)] for _ in range(rng.randint(0, 8))]
    return spec_line(cid, cfg, scr, ["L" + "+".join(atoms)], rows)


def gen_exhaustive(seed, cid0):
    """thorough tier: every atom list of length <= 2 over all (polarity, kind, needle of length 1..2 over a
    2-letter alphabet), each run on every haystack of length <= 3 over a 3-letter alphabet; plus every pattern
    TEXT of length <= 4 over 8 symbols through Pattern::parse"""
    lines = []
    nalpha = [("a", "B"), ("a", "b"), ("A", "ä"), ("o", " ")][seed % 4]
    halpha = [("a", "b", "B"), ("a", "b", "A"), ("a", "A", "ä"), ("o", " ", "f")][seed % 4]
    needles = ["".join(p) for L in (1, 2) for p in itertools.product(nalpha, repeat=L)]
    hays = ["".join(p) for L in range(4) for p in itertools.product(halpha, repeat=L)]
    rows = [[h] for h in hays]
    cm = CASES[seed % 3]
    atoms = ["%d%s%sS0:%s" % (neg, k, cm, cps(n)) for neg in (0, 1) for k in KINDS for n in needles]
    cfgs = ["0110", "1001", "0000", "1111"]
    cid = cid0
    lists = [[]] + [[a] for a in atoms] + [[a, b] for a in atoms for b in atoms]
    for i, l in enumerate(lists):
        lines.append(spec_line(cid, cfgs[(seed + i) % 4], (i * 7919 + seed) % 3 and (i + 1), ["L" + "+".join(l)], rows))
        cid += 1
    syms = ["a", "B", "!", "^", "$", "'", " ", "\\"]
    for L in range(5):
        for p in itertools.product(syms, repeat=L):
            lines.append(spec_line(cid, cfgs[(seed + cid) % 4], cid % 2 and cid, ["P%sS:%s" % (cm, cps("".join(p)))], rows[:13] + [["aB"], ["Ba"], ["a!"], ["$a"], ["a b"]]))
            cid += 1
    return lines


def corpus():
    """minimal / documented cases, run first (ids from 900000 up)"""
    docs = ["foo/bar", "bar/foo", "foobar"]
    out = [
        # minimal witness of finding 1 (Atom::parse("!") has this shape: negative, empty needle)
        (["L1SSS0:-"], [["foo"], ["bar"]]),
        (["L0FSS0:-"], [["foo"], ["bar"]]),
        # the doc-test of Pattern::match_list / Atom::match_list
        (["PSS:" + cps("foo bar")], [[h] for h in docs]),
        (["L0FSS0:" + cps("foo")], [[h] for h in docs]),
        # the example of Props/C15.v (C15_nonvacuous)
        (["PSS:" + cps("foo !bar Baz$")], [["Foo-Baz"], ["foobar"]]),
        (["PSS:" + cps("foo"), "PSS:" + cps("!bar")], [["Foo-Baz", "foobar"], ["Foo-Baz"]]),
        # smart case over lower-case letters that still have a case folding (U+017F long s, U+00B5 micro, U+03C2 final
        # sigma): every atom kind, the indices variant reports one index per needle character (round 6, C02-m12)
        (["PSN:" + cps("^ma\u017fs")], [["ma\u017fs"], ["mass"], ["MASS"], ["ma\u017fs more"]]),
        (["PSN:" + cps("ma\u017fs$")], [["ma\u017fs"], ["mass"], ["a ma\u017fs"]]),
        (["PSN:" + cps("^\u00b5m$")], [["\u00b5m"], ["\u03bcm"], ["\u039cM"]]),
        (["PSS:" + cps("'\u03c3\u03c2")], [["\u03c3\u03c2"], ["\u03a3\u03a3"], ["x\u03c3\u03c2y"]]),
        (["PSN:" + cps("\u017ft")], [["\u017ftra\u00dfe"], ["strasse"], ["\u017ft"]]),
        # ties: equal scores must keep the input order
        (["PSS:" + cps("a")], [["a"], ["ba"], ["a"], ["ab"], ["ba"], ["a"]]),
        # long lists with many ties in non-sorted order (sorting more than 20 elements takes a different
        # code path in the standard library: an unstable sort shows only here)
        (["PSS:" + cps("a")], [[["xa", "a", "ba", "ab", "x a", "aa"][(i * 7 + i // 5) % 6]] for i in range(64)]),
        (["L0FSS0:" + cps("ab")], [[["xab", "ab", "a b", "axb", "b", "x/ab"][(i * 5 + i // 7) % 6]] for i in range(50)]),
        # K1 shape: a needle held as code points against ASCII haystacks (positive never matches, negated always)
        (["L0FSS0:" + cps("fo\u0308o") + "+1FSS0:" + cps("fo\u0308o")], [["foo"], ["f\u00f6o"]]),
        ([], [["a"], []]),
        (["L"], [["a"], [""]]),
    ]
    return [spec_line(900000 + i, "0110", 0 if i % 2 == 0 else 12345 + i, cols, rows) for i, (cols, rows) in enumerate(out)]


LONG_WORDS = ["verification_harness_for_nucleo", "src/matcher/fuzzy_optimal.rs", "pattern_score_accumulator", "CargoWorkspaceManifestTomlLockFileEntry42",
              "the_quick_brown_fox_jumps"]


def gen_longsum(seed):
    """deterministic many-atom patterns (100-200 atoms of a 20-40 character word, every kind, both polarities)
    whose atom scores sum to more than 65535 = u16::MAX (and, for the multi-column case, whose column sums do so
    again): the accumulation width of Pattern::score / Pattern::indices / Pattern::match_list /
    MultiPattern::score.  Few rows per case: the cost is (atoms x rows) matcher calls on both sides."""
    out = []
    w = LONG_WORDS[seed % len(LONG_WORDS)]
    w2 = LONG_WORDS[(seed + 1) % len(LONG_WORDS)]
    w40 = LONG_WORDS[3]
    w20 = (LONG_WORDS[4] + LONG_WORDS[2])[:20 + seed % 5]
    # 1: Pattern::parse, 150 fuzzy atoms of the same word (the shape of the minimal witness), + MultiPattern
    out.append((["PSS:" + cps(" ".join([w] * 150))], [[w], ["lib/" + w + ".rs"], [w.upper()], ["unrelated"]]))
    # 2: Pattern::parse, every marker, negated atoms in between (they add 0), 162 atoms
    marks = [w, "'" + w, "^" + w, w + "$", "^" + w + "$", "!zq7", "!^zq", w[:24], "'" + w[3:]]
    out.append((["PIS:" + cps(" ".join(marks[i % len(marks)] for i in range(162)))], [[w], [w.upper()], ["x" + w]]))
    # 3: Pattern::new (one kind for all words), 200 atoms of a 20-24 character word
    out.append((["WSSS:" + cps(" ".join([w20] * 200))], [[w20], ["a/" + w20 + "/b"], [w20[:-1]]]))
    # 4: explicit atoms, mixed kinds / polarities / case modes, 180 atoms of a 40 character word
    atoms = []
    for i in range(180):
        neg = i % 7 == 3
        atoms.append("%d%s%s%s0:%s" % (neg, KINDS[i % 5], CASES[i % 3], NORMS[i % 2], cps("no_such_text" if neg else w40)))
    out.append((["L" + "+".join(atoms)], [[w40], [w40.lower()], ["no_such_text"]]))
    # 5: two parsed columns of 100 + 110 atoms: each column sum and the MultiPattern sum pass 65535 (and 2 x 65535)
    out.append((["PSS:" + cps(" ".join([w40] * 100)), "PRN:" + cps(" ".join(["^" + w2 + "$", w2] * 55))], [[w40, w2], ["_" + w40, w2], [w40, w2[1:]]]))
    # 6: 100 atoms: sums not far above the limit
    out.append((["PSS:" + cps(" ".join([w] * 100))], [[w], ["a-" + w], [w[:5] + "-" + w[5:]]]))
    return [spec_line(950000 + i, "0110" if i % 2 == 0 else "1001", 0 if i % 2 == 0 else 777 + seed + i, cols, rows) for i, (cols, rows) in enumerate(out)]


def gen_specs(seed, tier):
    rng = random.Random(seed * 1000003 + 15)
    n = 9000 if tier == "quick" else 40000
    lines = []
    cid = 0
    for style, share in (("P", 1.0), ("L", 1.0), ("W", 0.25), ("big", 0.02)):
        for _ in range(int(n * share)):
            lines.append(gen_case(rng, cid, style))
            cid += 1
    nmal = 3000 if tier == "quick" else 12000
    mal = []
    for _ in range(nmal):
        mal.append(gen_malformed(rng, cid))
        cid += 1
    exh = gen_exhaustive(seed, cid) if tier == "thorough" else []
    return lines, mal, exh


# ------------------------------------------------------------------------------------------------------
# running
# ------------------------------------------------------------------------------------------------------
def fsig(path):
    st = os.stat(path)
    return "%s:%d:%d" % (path, st.st_size, st.st_mtime_ns)


def run_specs(ctx, specs, tag):
    """-> (list of (case_line, impl_line, model_line), errors)"""
    hm, drv = ctx["hm"], ctx["driver"]
    text = "\n".join(specs) + "\n"
    key = hashlib.sha1((text + fsig(hm) + (fsig(drv) if drv else "nodrv")).encode()).hexdigest()[:20]
    cdir = os.path.join(vlib.SCRATCH, "c15_" + key)
    os.makedirs(cdir, exist_ok=True)
    nsh = max(1, min(vlib.NPROC, len(specs) // 50 + 1))
    shards = [specs[i::nsh] for i in range(nsh)]
    for i, sh in enumerate(shards):
        with open(os.path.join(cdir, "s%d" % i), "w") as f:
            f.write("\n".join(sh) + "\n")
    errs = []
    rp = vlib.parallel([[hm, "c15-prepare", os.path.join(cdir, "s%d" % i)] for i in range(nsh)], tag=tag + "p")
    for i, (rc, out, err) in enumerate(rp):
        if rc != 0:
            errs.append("c15-prepare failed: " + err[-300:])
        open(os.path.join(cdir, "c%d" % i), "w").write(out)
    ri = vlib.parallel([[hm, "c15-run", os.path.join(cdir, "c%d" % i)] for i in range(nsh)], tag=tag + "i")
    rm = vlib.parallel([[drv, "c15", os.path.join(cdir, "c%d" % i)] if drv else ["true"] for i in range(nsh)], tag=tag + "m")
    recs = []
    for i in range(nsh):
        for r, who in ((ri[i], "c15-run"), (rm[i], "driver c15")):
            if r[0] != 0:
                errs.append("%s failed (rc %s): %s" % (who, r[0], r[2][-300:]))
        cs = [l for l in rp[i][1].splitlines() if l]
        im = ri[i][1].splitlines()
        mo = rm[i][1].splitlines()
        for j, c in enumerate(cs):
            recs.append((c, im[j] if j < len(im) else "X missing-implementation-output", mo[j] if j < len(mo) else "X missing-model-output"))
    import shutil
    shutil.rmtree(cdir, ignore_errors=True)
    return recs, errs


# ------------------------------------------------------------------------------------------------------
# parsing
# ------------------------------------------------------------------------------------------------------
def p_opt(s):
    if s == "N":
        return None
    if s == "P" or s.startswith("X"):
        return s
    return int(s)


def p_idx(s):
    if "/" not in s:
        return (p_opt(s), [])
    a, b = s.split("/", 1)
    return (p_opt(a), [] if b == "-" else [int(x) for x in b.split(".")])


def p_list(s):
    if s == "-":
        return []
    if s == "P" or s.startswith("X"):
        return s
    return [tuple(int(x) for x in e.split(":")) for e in s.split(",")]


def p_seq(s, f):
    return [] if s == "_" else [f(x) for x in s.split(",")]


def parse_out(line):
    t = line.split(" ")
    out = {"id": t[0], "cols": [], "ms": None, "raw": {}}
    col = atom = None
    path = ""
    for tok in t[1:]:
        if tok[0] == "C" and "=" not in tok:
            col = {"atoms": []}
            out["cols"].append(col)
            atom = None
            path = tok
        elif tok[0] == "A" and "=" not in tok:
            atom = {}
            col["atoms"].append(atom)
            path = "C%d.%s" % (len(out["cols"]) - 1, tok)
        else:
            k, v = tok.split("=", 1)
            if k == "MS":
                out["ms"] = p_seq(v, p_opt)
                out["raw"]["MS"] = v
                continue
            out["raw"][path + "." + k] = v
            tgt = atom if atom is not None else col
            if k in ("ps", "s"):
                tgt[k] = p_seq(v, p_opt)
            elif k == "pc":
                tgt[k] = p_seq(v, str)
            elif k in ("pi", "i", "in"):
                tgt[k] = p_seq(v, p_idx)
            else:
                tgt[k] = p_list(v)
    return out


def parse_case(line):
    p = line.split(" ")
    cols = []
    for c in ([] if p[5] == "-" else p[5].split(";")):
        atoms = []
        if c != "_":
            for a in c.split("+"):
                atoms.append({"neg": a[0] == "1", "kind": a[1], "ic": a[2] == "1", "nm": a[3] == "1", "repr": a[4],
                              "needle": [] if a[6:] == "-" else [int(x) for x in a[6:].split(",")]})
        cols.append(atoms)
    rows = []
    for r in ([] if p[6] == "-" else p[6].split(";")):
        rows.append([] if r == "~" else [(t[0], [] if t[2:] == "-" else [int(x) for x in t[2:].split(",")]) for t in r.split("|")])
    return {"id": p[0], "cfg": p[1], "scramble": int(p[2]), "cols_spec": p[3], "rows_spec": p[4], "cols": cols, "rows": rows, "line": line}


def txt(cpl):
    return "".join(chr(c) for c in cpl)


def show_atom(a):
    return "%s%s(%r,%s ignore_case=%d normalize=%d)" % ("!" if a["neg"] else "", {"F": "Fuzzy", "S": "Substring", "P": "Prefix", "O": "Postfix", "E": "Exact"}[a["kind"]],
                                                          txt(a["needle"]), a["repr"], a["ic"], a["nm"])


def show_atoms(atoms, keep=4):
    if len(atoms) <= 2 * keep:
        return ", ".join(show_atom(a) for a in atoms)
    return "%s, ... %d more ..., %s" % (", ".join(show_atom(a) for a in atoms[:keep]), len(atoms) - keep - 1, show_atom(atoms[-1]))


def show_scores(ss):
    return str(ss) if len(ss) <= 12 else "[%s, ... %d more ..., %s] (sum %s)" % (", ".join(str(x) for x in ss[:6]), len(ss) - 7, ss[-1], sum(x for x in ss if isinstance(x, int)))


def show_case(c, k=None):
    cols = c["cols"] if k is None else [c["cols"][k]]
    return "cfg(paths,ignore_case,normalize,prefer_prefix)=%s scramble=%d columns=[%s] rows=%s" % (
        c["cfg"], c["scramble"], " | ".join("[" + show_atoms(col) + "]" for col in cols),
        [[txt(t[1]) for t in r] for r in c["rows"]][:8])


def stable_desc(pairs):
    return sorted(pairs, key=lambda p: -p[1])   # Python's sort is stable


# ------------------------------------------------------------------------------------------------------
# oracle: the clauses of the property on the implementation's own output
# ------------------------------------------------------------------------------------------------------
def oracle(c, o):
    """yields (class, what, extra)"""
    fails = []

    def fail(cls, what, **extra):
        fails.append((cls, what, extra))

    ncols = len(c["cols"])
    if len(o["cols"]) != ncols:
        fail("shape", "output has %d columns, case has %d" % (len(o["cols"]), ncols))
        return fails
    rowpos = []  # per column: row number -> position in that column's lists
    for k, atoms in enumerate(c["cols"]):
        oc = o["cols"][k]
        rws = [i for i, r in enumerate(c["rows"]) if len(r) > k]
        rowpos.append({i: j for j, i in enumerate(rws)})
        nr = len(rws)
        if len(oc["atoms"]) != len(atoms) or any(len(oc[x]) != nr for x in ("ps", "pi")):
            fail("shape", "column %d: output shape does not fit the case" % k)
            continue
        where = "column %d " % k
        for j, a in enumerate(atoms):
            oa = oc["atoms"][j]
            for r in range(nr):
                s, (si, ii), (ins, ini) = oa["s"][r], oa["i"][r], oa["in"][r]
                hay = txt(c["rows"][rws[r]][k][1])
                tag = "%satom %d %s on %r: " % (where, j, show_atom(a), hay)
                if isinstance(ins, str) or isinstance(s, str) or isinstance(si, str):
                    fail("panic", tag + "a call panicked or its variants disagree (score=%s indices=%s inner=%s)" % (s, si, ins))
                    continue
                # C15_atom: Atom::score is the inner call; negation swaps None and Some(0)
                want = (0 if ins is None else None) if a["neg"] else ins
                if s != want:
                    fail("atom", tag + "Atom::score = %s, inner %s call on a fresh matcher with the atom's flags = %s, so expected %s" % (
                        s, a["kind"], ins, want), col=k, atom=j, row=rws[r])
                # Atom::indices: same score, positive atoms append the inner indices, negative ones nothing
                if si != s:
                    fail("atom_indices", tag + "Atom::indices returns %s but Atom::score returns %s" % (si, s), col=k, atom=j, row=rws[r])
                want_i = [] if (a["neg"] or ins is None) else ini
                if ii != want_i:
                    fail("atom_indices", tag + "Atom::indices appended %s, expected %s" % (ii, want_i), col=k, atom=j, row=rws[r])
            # Atom::match_list = stable descending sort of the matching inputs, each once
            if isinstance(oa["m"], str):
                fail("panic", "%satom %d match_list panicked" % (where, j))
            elif not any(isinstance(x, str) for x in oa["s"]):
                want_m = stable_desc([(rws[r], oa["s"][r]) for r in range(nr) if oa["s"][r] is not None])
                if oa["m"] != want_m:
                    fail("atom_match_list", "%sAtom::match_list of %s over items %s returns %s but by Atom::score the matching inputs, stably sorted by descending score, are %s" % (
                        where, show_atom(a), [(i, txt(c["rows"][i][k][1])) for i in rws], oa["m"], want_m), col=k, atom=j,
                        neg_empty=bool(a["neg"] and not a["needle"]))
        # Pattern::score = conjunction / sum of the atoms (as Atom::score reports them); empty -> Some(0)
        for r in range(nr):
            hay = txt(c["rows"][rws[r]][k][1])
            ss = [oc["atoms"][j]["s"][r] for j in range(len(atoms))]
            ps, (pis, pii) = oc["ps"][r], oc["pi"][r]
            tag = "%spattern [%s] on %r: " % (where, show_atoms(atoms), hay)
            if any(isinstance(x, str) for x in ss + [ps, pis]):
                if isinstance(ps, str) or isinstance(pis, str):
                    fail("panic", tag + "Pattern::score / indices panicked (%s, %s)" % (ps, pis))
                continue
            want = None if any(x is None for x in ss) else sum(ss)
            # the state anchor: the shared matcher is left with the flags of the last atom evaluated
            if atoms:
                last = next((j for j, x in enumerate(ss) if x is None), len(atoms) - 1)
                wantc = "%d%d" % (atoms[last]["ic"], atoms[last]["nm"])
                if oc["pc"][r] != wantc:
                    fail("state", tag + "matcher.config (ignore_case,normalize) after Pattern::score is %s, the last atom evaluated (#%d) has %s" % (oc["pc"][r], last, wantc), col=k, row=rws[r])
            if ps != want:
                fail("pattern", tag + "Pattern::score = %s but the atoms score %s, so expected %s" % (ps, show_scores(ss), want), col=k, row=rws[r])
            if pis != ps:
                fail("indices", tag + "Pattern::indices returns %s but Pattern::score returns %s" % (pis, ps), col=k, row=rws[r])
            if ps is not None:
                cat = []
                for j, a in enumerate(atoms):
                    if not a["neg"]:
                        cat += oc["atoms"][j]["in"][r][1]
                if pii != cat:
                    fail("indices", tag + "Pattern::indices appended %s, the positive atoms' indices in atom order are %s" % (pii, cat), col=k, row=rws[r])
        # Pattern::match_list
        if isinstance(oc["pm"], str):
            fail("panic", "%sPattern::match_list panicked" % where)
        elif not any(isinstance(x, str) for x in oc["ps"]):
            want_m = stable_desc([(rws[r], oc["ps"][r]) for r in range(nr) if oc["ps"][r] is not None])
            if oc["pm"] != want_m:
                fail("match_list", "%sPattern::match_list over items %s returns %s, expected %s (matching inputs by Pattern::score, stable, descending)" % (
                    where, [(i, txt(c["rows"][i][k][1])) for i in rws], oc["pm"], want_m), col=k)
    # MultiPattern::score = conjunction / sum over the zipped columns
    if o["ms"]:
        if len(o["ms"]) != len(c["rows"]):
            fail("shape", "MS has %d entries for %d rows" % (len(o["ms"]), len(c["rows"])))
        else:
            for i, r in enumerate(c["rows"]):
                ms = o["ms"][i]
                parts = [o["cols"][k]["ps"][rowpos[k][i]] for k in range(min(ncols, len(r)))]
                if isinstance(ms, str) or any(isinstance(x, str) for x in parts):
                    if isinstance(ms, str):
                        fail("panic", "MultiPattern::score panicked / conversion differs (%s) on row %d" % (ms, i))
                    continue
                want = None if any(x is None for x in parts) else sum(parts)
                if ms != want:
                    fail("multi", "MultiPattern::score on row %s = %s but the column patterns score %s, expected %s" % ([txt(t[1]) for t in r], ms, parts, want), row=i)
    return fails


def first_diff(io, mo):
    a, b = io.split(" "), mo.split(" ")
    path = ""
    for x, y in zip(a[1:], b[1:]):
        if "=" not in x:
            path = x if x[0] == "C" else path.split(".")[0] + "." + x
        if x != y:
            return "%s %s: implementation `%s`, model `%s`" % (path, x.split("=")[0], x[:120], y[:120])
    return "lines differ in length: implementation `%s`, model `%s`" % (io[:160], mo[:160])


def count_calls(o):
    n = 0
    for col in o["cols"]:
        n += 3 * len(col["ps"]) + 1
        for a in col["atoms"]:
            n += 3 * len(a["s"]) + 1
    return n + (len(o["ms"]) if o["ms"] else 0)


def run(ctx, broken, limit=None):
    """limit = N: reduced run for the neighbouring properties (C02, C10): corpus + the first N structured cases"""
    main, mal, exh = gen_specs(ctx["seed"], ctx["tier"] if limit is None else "quick")
    res = {"evaluations": 0, "distinct_nontrivial": 0, "rule": "", "samples": [], "disagreements": [], "failures": [], "extra": {}}
    streams = [("corpus", corpus()), ("longsum", gen_longsum(ctx["seed"])), ("structured", main), ("malformed", mal)] + ([("exhaustive", exh)] if exh else [])
    if limit is not None:
        streams = [("corpus", corpus()), ("structured", main[:limit])]
        exh = []
    seen = set()
    dist = {}
    samples = []
    for name, specs in streams:
        recs, errs = run_specs(ctx, specs, "c15" + name[:2])
        for e in errs:
            res["disagreements"].append({"what": "harness/driver error (%s stream): %s" % (name, e)})
        st = {"cases": len(recs), "calls": 0, "pattern_evals": 0, "matched": 0, "rejected": 0, "negative_atoms": 0, "multi_rows": 0, "disagreements": 0, "oracle_failures": 0}
        for ri, (case_line, io, mo) in enumerate(recs):
            c = parse_case(case_line)
            if io.startswith("X") or (ctx["driver"] and io != mo):
                st["disagreements"] += 1
                if len(res["disagreements"]) < 40:
                    res["disagreements"].append({"what": "model/implementation disagree (%s stream) at %s -- %s" % (name, first_diff(io, mo), show_case(c)[:700]), "case": case_line})
            if io.startswith("X"):
                continue
            try:
                o = parse_out(io)
            except Exception as e:  # noqa
                res["disagreements"].append({"what": "unparsable implementation output %r: %s" % (io[:200], e), "case": case_line})
                continue
            st["calls"] += count_calls(o)
            for k, atoms in enumerate(c["cols"]):
                if k >= len(o["cols"]):
                    break
                rws = [i for i, r in enumerate(c["rows"]) if len(r) > k]
                st["negative_atoms"] += sum(1 for a in atoms if a["neg"])
                for j, i in enumerate(rws):
                    ps = o["cols"][k]["ps"][j] if j < len(o["cols"][k]["ps"]) else "X"
                    st["pattern_evals"] += 1
                    st["matched" if isinstance(ps, int) else "rejected"] += 1
                    hay = c["rows"][i][k]
                    if atoms and hay[1]:
                        seen.add((c["cfg"], c["line"].split(" ")[5].split(";")[k], hay[0], tuple(hay[1])))
            st["multi_rows"] += len(o["ms"]) if o["ms"] else 0
            for cls, what, extra in oracle(c, o):
                st["oracle_failures"] += 1
                if len(res["failures"]) < 300:
                    f = {"class": cls, "what": what + " -- " + show_case(c, extra.get("col"))[:600], "case": case_line, "impl": io[:600], "stream": name}
                    f.update(extra)
                    res["failures"].append(f)
            if len(samples) < 8 and ri % max(1, len(recs) // 3) == 1:
                samples.append({"stream": name, "case": show_case(c)[:400], "implementation": io[:300], "model": mo[:300]})
        res["evaluations"] += st["calls"]
        dist[name] = st
    res["distinct_nontrivial"] = len(seen)
    res["samples"] = samples
    res["exhaustive"] = False
    res["rule"] = ("seeded structured generator: column patterns as TEXT (Pattern::parse with markers/escapes; Pattern::new; explicit Atom::new lists of every kind x polarity x case/normalization "
                   "mode, incl. negated fuzzy and empty needles; 12-40 atom lists; a deterministic longsum stream of 100-200 atom patterns of a 20-40 character word, "
                   "parsed / Pattern::new / explicit, one and two columns, whose atom scores sum to more than 65535 per column), needles derived from the haystacks (subsequence / slice / prefix / postfix / whole, case- and "
                   "character-perturbed) so that most patterns match, 1-3 columns x 1-7 rows drawn with repetition from a small pool (ties for the stable sort); separate malformed stream "
                   "(marker-only and escape-heavy texts, empty needles/haystacks, CR LF, combining marks, column-count mismatches, zero columns/rows)"
                   + ("; thorough: all atom lists of length <= 2 over 2 x 5 x 6 atoms on all 40 haystacks of length <= 3, and all pattern texts of length <= 4 over 8 symbols" if exh else "")
                   + ". Every call goes through ONE shared Matcher whose ignore_case/normalize are left over from earlier calls and flipped pseudo-randomly between calls (scramble != 0) while the model gets "
                   "the case's nominal configuration. Compared line by line with the extracted model: Atom::score/indices/match_list, inner Matcher call, Pattern::score/indices/match_list, "
                   "MultiPattern::score. Oracle on the implementation's output: atom = inner call with negation; pattern = conjunction/sum; indices = same score + concatenation; match_list = stable "
                   "descending sort of the matching inputs; multi = conjunction across zipped columns. evaluations = API calls checked; distinct_nontrivial = distinct (configuration, resolved "
                   "non-empty atom list, non-empty haystack) pattern evaluations, counted on the run.")
    res["extra"] = {"streams": dist}
    return res


def known(f, kf):
    for k in kf.get("known", []):
        if k.get("property") != "C15" and "C15" not in k.get("also", []):
            continue
        if k.get("class") != f.get("class"):
            continue
        # executable mirror of a Coq Known predicate: negative atom with an empty needle given to Atom::match_list
        if f["class"] == "atom_match_list" and k.get("predicate_id") == "negative_empty_needle" and f.get("neg_empty"):
            return k
    return None


def broken_known(b, kf, failures):
    return False


def replay(path):
    d = json.load(open(path))
    print(json.dumps({k: v for k, v in d.items() if k != "failure"}, indent=1)[:3000])
    f = d.get("failure") or {}
    print(f.get("what", ""))
    line = f.get("case")
    if line:
        hm = vlib.build_harness("hm")
        os.makedirs(vlib.SCRATCH, exist_ok=True)
        sp = os.path.join(vlib.SCRATCH, "c15_replay.spec")
        open(sp, "w").write(" ".join(line.split(" ")[:5]) + "\n")
        cp = os.path.join(vlib.SCRATCH, "c15_replay.case")
        open(cp, "w").write(vlib.run([hm, "c15-prepare", sp])[1])
        case = open(cp).read().strip()
        print("case (re-resolved by the current parser):", case)
        io = vlib.run([hm, "c15-run", cp])[1].strip()
        print("implementation:", io)
        drv = os.path.join(vlib.OCAML, "driver")
        mo = vlib.run([drv, "c15", cp])[1].strip()
        print("model:         ", mo)
        if io != mo:
            print("first difference:", first_diff(io, mo))
        fl = oracle(parse_case(case), parse_out(io))
        print("oracle:        ", "clean" if not fl else "; ".join("%s: %s" % (a, b) for a, b, _ in fl[:5]))
    return 0


def subset_failures(ctx, classes, limit, need_scramble=False):
    """failures of the given classes found by a reduced run of the Atom / Pattern level stream (used by C02 and C10,
    whose statements also cover Atom::indices / Pattern::indices and the reuse of one Matcher); correspondence
    differences of that stream are NOT propagated (they belong to C15)"""
    r = run(ctx, [], limit=limit)
    out = []
    for f in r["failures"]:
        if f.get("class") not in classes:
            continue
        if need_scramble:
            try:
                if parse_case(f["case"])["scramble"] == 0:
                    continue
            except Exception:  # noqa
                pass
        out.append(f)
    return out, r["evaluations"]
