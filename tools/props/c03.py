"""C03: the score is the fzf scheme applied to the reported alignment."""
import mcommon
import vlib
from mcommon import prepare, replay  # noqa

TRUSTED = ["memchr/memmem modelled by their specification"]
ASSUMPTIONS = ["needles already normalised", "scores saturate at u16::MAX (65535) instead of wrapping; equality with the scheme is claimed while the scheme's value stays below that"]


def view(o):
    return (o["k"], o.get("score"))


def clauses(c, i, m, f):
    out = []
    if i["k"] == "X":
        out.append(("variants", "score-only and indices variants return different values (%s)" % i["raw"][:160]))
    elif i["k"] == "P":
        out.append(("wrap", "arithmetic overflow / panic while scoring"))
    elif i["k"] == "M" and c["cfg"][3] == "0" and f.get("nok") == 1 and f.get("emb") == 1 and c["n"]:
        want = min(f["fzf"], 65535)
        if i["score"] != want and f["fzf"] <= 65535:
            out.append(("score", "score %d differs from the fzf scheme's value %d on the reported alignment %s" % (i["score"], want, i["idx"][:12])))
    return out


def run(ctx, broken):
    lines = mcommon.base_lines(ctx)
    if ctx["tier"] == "thorough":
        lines += mcommon.exhaustive_lines(ctx, "FGSE", "c03")
    res = mcommon.generic_run(ctx, lines, view, clauses,
                              "same generator as C01 (including needles of 2500-4000 characters), all six algorithms; compared: (decision, score); oracle: fzf_score (Spec/Matching.v, literal constants) evaluated on the implementation's reported indices when prefer_prefix is off. Non-trivial = distinct case with non-empty strings.", tag="c03")
    # the documented scoring scheme, read off the BUILT code (hm consts): the fzf constants and the three presets
    # (C03_bonus_table / C03_presets state the same over the translated definitions; this is the failing input when
    # a constant or a preset changes)
    DOC_CONSTS = {"SCORE_MATCH": 16, "PENALTY_GAP_START": 3, "PENALTY_GAP_EXTENSION": 1, "BONUS_BOUNDARY": 8, "BONUS_CAMEL123": 5,
                  "BONUS_CONSECUTIVE": 4, "BONUS_FIRST_CHAR_MULTIPLIER": 2, "BONUS_NON_WORD": 8, "PREFIX_BONUS_SCALE": 2, "MAX_PREFIX_BONUS": 8}
    DOC_PRESETS = {"default": (10, 9), "match_paths": (8, 9), "set_match_paths": (8, 9)}
    # delimiter characters of the presets on a non-Windows target (config.rs: DEFAULT "/,:;|"; path matching "/" resp. "/:")
    DOC_DELIMS = {"default": [47, 44, 58, 59, 124], "match_paths": [47], "set_match_paths": [47, 58]}
    rcc, outc, errc, _ = vlib.run([ctx["hm"], "consts"], timeout=120)
    if rcc != 0:
        res["disagreements"].append({"what": "hm consts failed: " + errc[-200:]})
    for l in outc.splitlines():
        p = l.split()
        if len(p) >= 3 and p[0] in ("const", "derived") and p[1] in DOC_CONSTS and int(p[2]) != DOC_CONSTS[p[1]]:
            res["failures"].append({"class": "constant", "what": "the built code uses %s = %s, the documented fzf scheme has %d" % (p[1], p[2], DOC_CONSTS[p[1]]), "case": ""})
        if len(p) >= 3 and p[0] == "preset" and p[1] in DOC_PRESETS:
            kv = dict(x.split("=", 1) for x in p[2:] if "=" in x)
            got = (int(kv.get("white", -1)), int(kv.get("delim", -1)))
            dl = [int(x) for x in kv.get("delims", "").split(",") if x]
            if sorted(dl) != sorted(DOC_DELIMS[p[1]]):
                res["failures"].append({"class": "preset", "what": "preset %s of the built code has the delimiter characters %s, documented (non-Windows target) %s" % (p[1], [chr(x) for x in dl], [chr(x) for x in DOC_DELIMS[p[1]]]), "case": ""})
            if got != DOC_PRESETS[p[1]]:
                res["failures"].append({"class": "preset", "what": "preset %s of the built code has (bonus_boundary_white, bonus_boundary_delimiter) = %s, documented %s (Config::DEFAULT 10/9; path matching - match_paths() and set_match_paths() alike - 8/9)" % (p[1], got, DOC_PRESETS[p[1]]), "case": ""})
    # the same alignment gets the same score from every algorithm
    recs, _ = mcommon.run_lines(ctx, lines, "c03")
    by = {}
    for line, io, mo, fa in recs:
        c = mcommon.parse_case(line)
        o = mcommon.parse_out(io)
        # only well-formed calls: the needle must already be normalised for the configuration (nok = needle_ok)
        if o["k"] == "M" and c["cfg"][3] == "0" and mcommon.parse_facts(fa).get("nok") == 1:
            by.setdefault((c["cfg"], c["hr"], tuple(c["h"]), tuple(o["idx"])), set()).add((o["score"], c["algo"]))
    for k, v in by.items():
        if len({s for s, _ in v}) > 1 and len(res["failures"]) < 5000:
            res["failures"].append({"class": "same_alignment", "what": "alignment %s of haystack %r scored differently: %s" % (list(k[3])[:10], "".join(chr(x) for x in k[2])[:40], sorted(v)), "case": ""})
    return res


def known(f, kf):
    return None
